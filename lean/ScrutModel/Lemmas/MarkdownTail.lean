import ScrutModel.Lemmas.MarkdownWF
/-!
# Well-formed documents that end in an unterminated construct

`parse_items_then` (the induction over the complete items) arrives in front of the tail with a
clean `LineParser`; here the four kinds of tail are worked off: the tokenizer's inner loop runs
out of lines and emits its token (`Mode.flushTok`), the parser treats that token exactly like the
token of the closed construct.
-/
namespace Scrut.Markdown
open Scrut.LineParser

/-! ## tokenizer side: the loops run out of lines -/

theorem runP_eq_of_run {L : List Line} {m : Mode} {cs : Bool} {li : Nat} {lines : List Line} {toks : List Tok}
    (h : run L m cs li lines = .ok toks) : runP L m cs li lines = toks := by
  rw [run_eq] at h
  injection h

theorem runP_openFront (L : List Line) (body : List Line) (hb : ∀ x ∈ body, x ≠ frontMatterFence) (li : Nat) :
    runP L .top false li (frontMatterFence :: body) = [.docConfig (number (li + 1) body)] :=
  runP_eq_of_run (unterminated_front L li body hb)

theorem runP_openForeign (env : Env) (v : Fenced) (wf : v.OpenForeignWF env) (cs : Bool) (li : Nat) :
    runP env.languages .top cs li v.openLines = [.verbatim li v.language v.openLines] :=
  runP_eq_of_run (unterminated_verbatim env.languages cs li v.opener v.bt v.language v.config v.body
    wf.1 wf.2.1 wf.2.2.2)

theorem runP_openNoCommand (env : Env) (v : Fenced) (wf : v.OpenNoCommandWF env) (cs : Bool) (li : Nat) :
    runP env.languages .top cs li v.openLines
      = [.test v.language (cfgLines li v.config) (number (li + 1) v.body) []] := by
  obtain ⟨hx, hl, _, hbody, hcm⟩ := wf
  have h1 : (!cs && decide (v.opener = frontMatterFence)) = false := by simp [opener_ne_front hx]
  simp only [Fenced.openLines]
  rw [runP_top_cons]
  simp only [h1, fencePure_of hx, hl]
  simp only [Bool.not_true, Bool.false_eq_true, if_false]
  have := test_comments env.languages true v.bt v.language (cfgLines li v.config) v.body [] (li + 1) [] hcm hbody
  rw [List.append_nil] at this
  rw [this]
  simp [runP, Mode.flushTok]

/-- a block with a command whose closing line is missing is one `test` token with the comment /
code split as written -/
theorem runP_openBlock (env : Env) (b : Block) (wf : b.OpenWF env) (cs : Bool) (li : Nat) :
    runP env.languages .top cs li b.openLines
      = [.test b.language (cfgLines li b.config) (number (li + 1) b.comments)
          (number (li + 1 + b.comments.length) b.code)] := by
  obtain ⟨hx, hl, _, hbody, hcm, _, _⟩ := wf
  have hcomm : ∀ c ∈ b.comments, startsWith c b.bt = false := fun c hc => hbody c (by simp [Block.body, hc])
  have hcode : ∀ c ∈ b.code, startsWith c b.bt = false := fun c hc => hbody c (by simp [Block.body, hc])
  have hcmd : startsWith b.cmdLine b.bt = false := hcode _ (by simp [Block.code])
  have hrest : ∀ c ∈ b.more.map contLine ++ b.after, startsWith c b.bt = false :=
    fun c hc => hcode c (by simp only [Block.code, List.mem_cons]; exact Or.inr hc)
  have h1 : (!cs && decide (b.opener = frontMatterFence)) = false := by simp [opener_ne_front hx]
  simp only [Block.openLines]
  rw [runP_top_cons]
  simp only [h1, fencePure_of hx, hl]
  simp only [Bool.not_true, Bool.false_eq_true, if_false]
  -- comments
  simp only [Block.body]
  rw [test_comments _ _ _ _ _ _ [] _ _ hcm hcomm]
  -- the `$` line
  simp only [Block.code]
  have hnc : isComment b.cmdLine = false := rfl
  simp only [runP, hcmd, hnc]
  simp only [Bool.and_false, Bool.false_eq_true, if_false, List.nil_append]
  -- the other code lines, then the end of the document
  have := test_code env.languages true b.bt b.language (cfgLines li b.config) (number (li + 1) b.comments)
    (b.more.map contLine ++ b.after) [(li + 1 + b.comments.length, b.cmdLine)] (li + 1 + b.comments.length + 1) []
    (by simp) hrest
  rw [List.append_nil] at this
  rw [this]
  simp [runP, Mode.flushTok, number]

/-! ## parser side -/

/-- any line that starts with the opening fence closes the block, e.g. the fence itself -/
theorem Block.OpenWF.close {env : Env} {b : Block} (wf : b.OpenWF env) : Block.WF env { b with closer := b.bt } := by
  obtain ⟨h1, h2, h3, h4, h5, h6, h7, h8⟩ := wf
  exact ⟨h1, h2, h3, h4, startsWith_self _, h5, h6, h7, h8⟩

/-- the token of an unterminated block with a command becomes exactly the test that is written -/
theorem stepTok_openBlock (env : Env) (b : Block) (wf : b.OpenWF env) (st : PState) (hc : Clean st.lp)
    (li k : Nat) (cms : Numbered) :
    ∃ st', stepTok env st (.test b.language (cfgLines li b.config) cms (number k b.code)) = .ok st' ∧
      st'.docConfigs = st.docConfigs ∧
      st'.lp.testcases = st.lp.testcases ++
        [{ title := st.lp.title.getD [], command := b.cmd :: b.more, exitCode := b.exit,
           expectations := b.exps, lineNumber := k + 1, config := some (stripBraces b.config) }] := by
  obtain ⟨st', h, _, _, _, hd, ht⟩ := stepTok_block env { b with closer := b.bt } wf.close st hc li k cms
  exact ⟨st', h, hd, ht⟩

/-- the tail, worked off on a clean `LineParser` state -/
theorem parse_tail (env : Env) (tail : Tail) (cs : Bool) (wft : tail.WF env cs) (li : Nat) (st : PState)
    (hc : Clean st.lp) :
    ∃ st', parseTokens env st (runP env.languages .top cs li tail.lines) = .ok st' ∧
      st'.docConfigs = st.docConfigs ++ tail.docTexts ∧
      st'.lp.testcases = st.lp.testcases ++ tailTests tail li st.lp.title := by
  cases tail with
  | none => exact ⟨st, by simp [Tail.lines, runP, Mode.flushTok, parseTokens], by simp [Tail.docTexts], by simp [tailTests]⟩
  | openFront body =>
    obtain ⟨hcs, hb, hok⟩ : cs = false ∧ (∀ x ∈ body, x ≠ frontMatterFence) ∧ env.docCfgOk (joinNl body ++ ['\n']) = true := wft
    subst hcs
    simp only [Tail.lines]
    rw [runP_openFront _ body hb]
    simp only [parseTokens, stepTok, joinNumbered_number, hok, if_true]
    exact ⟨_, rfl, by simp [Tail.docTexts], by simp [tailTests]⟩
  | openForeign v =>
    have wf : v.OpenForeignWF env := wft
    have hlang : v.language.isEmpty = false := by
      have := wf.2.2.1
      cases hh : v.language <;> simp_all
    simp only [Tail.lines]
    rw [runP_openForeign env v wf]
    simp only [parseTokens, stepTok, hlang, Bool.false_eq_true, if_false]
    exact ⟨_, rfl, by simp [Tail.docTexts], by simp [tailTests]⟩
  | openNoCommand v =>
    have wf : v.OpenNoCommandWF env := wft
    have hcfg := cfg_eval env li v.config wf.2.2.1
    simp only [Tail.lines]
    rw [runP_openNoCommand env v wf]
    simp only [parseTokens, stepTok, hcfg, addAll, List.getLast?_nil]
    exact ⟨_, rfl, by simp [Tail.docTexts], by simp [tailTests, State.setConfig]⟩
  | openBlock b =>
    have wf : b.OpenWF env := wft
    simp only [Tail.lines]
    rw [runP_openBlock env b wf]
    obtain ⟨st', h, hd, ht⟩ :=
      stepTok_openBlock env b wf st hc li (li + 1 + b.comments.length) (number (li + 1) b.comments)
    simp only [parseTokens, h]
    exact ⟨st', rfl, by simp [hd, Tail.docTexts], by simp [ht, tailTests]⟩

/-! ## the whole document -/

theorem parseLines_render_tail (env : Env) (items : List Item) (tail : Tail) (wf : ItemsWF env false items)
    (wft : tail.WF env (csAfterAll false items)) :
    parseLines env (render items ++ tail.lines)
      = .ok { docConfigs := docTexts items ++ tail.docTexts
              tests := expectedTests env items 0 none []
                ++ tailTests tail (render items).length (titleAfter env items none []).1 } := by
  obtain ⟨st1, hc1, hd1, ht1, htt1, h1⟩ :=
    parse_items_then env items false wf 0 {} ⟨rfl, rfl, rfl, rfl, rfl⟩ tail.lines
  obtain ⟨st', h2, hd2, ht2⟩ := parse_tail env tail _ wft (0 + (render items).length) st1 hc1
  have htitle : st1.lp.title = (titleAfter env items none []).1 := congrArg Prod.fst htt1
  simp only [parseLines, tokenize_eq, h1, h2]
  rw [hd2, ht2, hd1, ht1, htitle]
  simp only [Nat.zero_add]
  rfl

/-! ## … as if the construct had been closed -/

theorem docTexts_append (a b : List Item) : docTexts (a ++ b) = docTexts a ++ docTexts b := by
  induction a with
  | nil => rfl
  | cons it r ih => cases it <;> simp [docTexts, ih]

theorem expectedTests_append (env : Env) (b : List Item) :
    ∀ (a : List Item) (li : Nat) (t : Option Line) (tp : List Line),
      expectedTests env (a ++ b) li t tp
        = expectedTests env a li t tp
          ++ expectedTests env b (li + (render a).length) (titleAfter env a t tp).1 (titleAfter env a t tp).2 := by
  intro a
  induction a with
  | nil => intro li t tp; simp [expectedTests, titleAfter, render]
  | cons it r ih =>
    intro li t tp
    have hlen : li + (render (it :: r)).length = li + it.lines.length + (render r).length := by
      simp [render, Nat.add_assoc]
    rw [hlen]
    cases it with
    | prose l =>
      simp only [List.cons_append, expectedTests, titleAfter, Item.lines, List.length_cons, List.length_nil,
        Nat.zero_add]
      split <;> exact ih _ _ _
    | front body =>
      have hl : (Item.front body).lines.length = body.length + 2 := by simp [Item.lines]
      simp only [List.cons_append, expectedTests, titleAfter, hl]
      exact ih _ _ _
    | foreign v =>
      simp only [List.cons_append, expectedTests, titleAfter, Item.lines]
      exact ih _ _ _
    | noCommand v =>
      simp only [List.cons_append, expectedTests, titleAfter, Item.lines]
      exact ih _ _ _
    | block b =>
      simp only [List.cons_append, expectedTests, titleAfter, Item.lines, ih]

theorem tail_docTexts_closed (tail : Tail) : tail.docTexts = docTexts tail.closed := by
  cases tail <;> rfl

theorem tailTests_closed (env : Env) (tail : Tail) (li : Nat) (t : Option Line) (tp : List Line) :
    tailTests tail li t = expectedTests env tail.closed li t tp := by
  cases tail <;> rfl

/-- the unterminated construct is read exactly as if its closing line were there -/
theorem parseLines_render_tail_closed (env : Env) (items : List Item) (tail : Tail)
    (wf : ItemsWF env false items) (wft : tail.WF env (csAfterAll false items)) :
    parseLines env (render items ++ tail.lines)
      = .ok { docConfigs := docTexts (items ++ tail.closed)
              tests := expectedTests env (items ++ tail.closed) 0 none [] } := by
  rw [parseLines_render_tail env items tail wf wft, docTexts_append, expectedTests_append,
    tail_docTexts_closed, tailTests_closed env tail _ _ (titleAfter env items none []).2, Nat.zero_add]

/-- a well-formed closed item, without its closing line, is a well-formed tail -/
theorem tail_wf_of_closed (env : Env) (tail : Tail) (cs : Bool) (h : ItemsWF env cs tail.closed) :
    tail.WF env cs := by
  cases tail with
  | none => trivial
  | openFront body => exact h.1
  | openForeign v =>
    obtain ⟨⟨h1, h2, h3, h4, _⟩, _⟩ := h
    exact ⟨h1, h2, h3, h4⟩
  | openNoCommand v =>
    obtain ⟨⟨h1, h2, h3, h4, _, h6⟩, _⟩ := h
    exact ⟨h1, h2, h3, h4, h6⟩
  | openBlock b =>
    obtain ⟨⟨h1, h2, h3, h4, _, h6, h7, h8, h9⟩, _⟩ := h
    exact ⟨h1, h2, h3, h4, h6, h7, h8, h9⟩

/-- the closing line of the last construct of a well-formed document may be missing: the result
is the same -/
theorem last_closer_optional (env : Env) (items : List Item) (tail : Tail)
    (wf : ItemsWF env false (items ++ tail.closed)) :
    parseLines env (render items ++ tail.lines) = parseLines env (render (items ++ tail.closed)) := by
  have h := (itemsWF_append env items tail.closed false).mp wf
  rw [parseLines_render env _ wf,
    parseLines_render_tail_closed env items tail h.1 (tail_wf_of_closed env tail _ h.2)]

end Scrut.Markdown
