import ScrutModel.Model.ConfigRender
import ScrutModel.Lemmas.Duration
/-! Round-trip lemmas for the one-line configuration rendering. -/
namespace Scrut.Yaml
open Scrut.Dur

/-! ## JSON quoting -/

theorem low_all : (List.range 32).all (fun n => decide ((hexNum ['0', '0', hexDigit (n / 16), hexDigit (n % 16)]).bind scalarValue = some (Char.ofNat n))) = true := by
  rfl

theorem low_escape (n : Nat) (h : n < 32) :
    (hexNum ['0', '0', hexDigit (n / 16), hexDigit (n % 16)]).bind scalarValue = some (Char.ofNat n) :=
  of_decide_eq_true (List.all_eq_true.mp low_all n (List.mem_range.mpr h))

def yamlEscapedCodes : List Nat := (List.range 33).map (· + 0x7f) ++ [0x2028, 0x2029, 0xfffe, 0xffff]

theorem high_all : yamlEscapedCodes.all (fun n => decide ((hexNum [hexDigit (n / 4096), hexDigit (n / 256 % 16), hexDigit (n / 16 % 16), hexDigit (n % 16)]).bind scalarValue = some (Char.ofNat n))) = true := by
  rfl

theorem high_escape (c : Char) (h : needsYamlEscape c = true) :
    (hexNum [hexDigit (c.toNat / 4096), hexDigit (c.toNat / 256 % 16), hexDigit (c.toNat / 16 % 16), hexDigit (c.toNat % 16)]).bind scalarValue = some (Char.ofNat c.toNat) := by
  apply of_decide_eq_true
  apply List.all_eq_true.mp high_all
  simp only [needsYamlEscape, Bool.or_eq_true, Bool.and_eq_true, decide_eq_true_eq] at h
  simp only [yamlEscapedCodes, List.mem_append, List.mem_map, List.mem_range, List.mem_cons, List.mem_nil_iff, or_false]
  rcases h with (((h | h) | h) | h) | h
  · left; exact ⟨c.toNat - 0x7f, by omega, by omega⟩
  · right; left; exact h
  · right; right; left; exact h
  · right; right; right; left; exact h
  · right; right; right; right; exact h

theorem char_ofNat_toNat (c : Char) : Char.ofNat c.toNat = c := Char.ofNat_toNat c

/-- one escaped character is read back as itself -/
theorem scan_escape (c : Char) (tail acc : List Char) :
    scanQuoted (jsonEscape c ++ tail) acc = scanQuoted tail (c :: acc) := by
  have ofn : ∀ n, c.toNat = n → c = Char.ofNat n := fun n h => by rw [← h, char_ofNat_toNat]
  by_cases h1 : c = '"'
  · have he : jsonEscape c = ['\\', '"'] := by simp [jsonEscape, h1]
    rw [he, h1, List.cons_append, scanQuoted.eq_def]; simp [simpleEscape]
  by_cases h2 : c = '\\'
  · have he : jsonEscape c = ['\\', '\\'] := by simp [jsonEscape, h2]
    rw [he, h2, List.cons_append, scanQuoted.eq_def]; simp [simpleEscape]
  by_cases h3 : c.toNat = 8
  · have he : jsonEscape c = ['\\', 'b'] := by simp [jsonEscape, h1, h2, h3]
    rw [he, ofn 8 h3, List.cons_append, scanQuoted.eq_def]; simp [simpleEscape]
  by_cases h4 : c.toNat = 12
  · have he : jsonEscape c = ['\\', 'f'] := by simp [jsonEscape, h1, h2, h3, h4]
    rw [he, ofn 12 h4, List.cons_append, scanQuoted.eq_def]; simp [simpleEscape]
  by_cases h5 : c.toNat = 10
  · have he : jsonEscape c = ['\\', 'n'] := by simp [jsonEscape, h1, h2, h3, h4, h5]
    rw [he, ofn 10 h5, List.cons_append, scanQuoted.eq_def]; simp [simpleEscape]
  by_cases h6 : c.toNat = 13
  · have he : jsonEscape c = ['\\', 'r'] := by simp [jsonEscape, h1, h2, h3, h4, h5, h6]
    rw [he, ofn 13 h6, List.cons_append, scanQuoted.eq_def]; simp [simpleEscape]
  by_cases h7 : c.toNat = 9
  · have he : jsonEscape c = ['\\', 't'] := by simp [jsonEscape, h1, h2, h3, h4, h5, h6, h7]
    rw [he, ofn 9 h7, List.cons_append, scanQuoted.eq_def]; simp [simpleEscape]
  by_cases h8 : c.toNat < 32
  · have he : jsonEscape c = ['\\', 'u', '0', '0', hexDigit (c.toNat / 16), hexDigit (c.toNat % 16)] := by
      simp [jsonEscape, h1, h2, h3, h4, h5, h6, h7, h8]
    have hl := low_escape c.toNat h8
    rw [char_ofNat_toNat] at hl
    rw [he, List.cons_append, scanQuoted.eq_def]
    simp [hl]
  by_cases h9 : needsYamlEscape c = true
  · have he : jsonEscape c = uEscape c.toNat := by simp [jsonEscape, h1, h2, h3, h4, h5, h6, h7, h8, h9]
    have hl := high_escape c h9
    rw [char_ofNat_toNat] at hl
    rw [he, uEscape, List.cons_append, scanQuoted.eq_def]
    simp [hl]
  · have he : jsonEscape c = [c] := by simp [jsonEscape, h1, h2, h3, h4, h5, h6, h7, h8, h9]
    rw [he, List.cons_append, scanQuoted.eq_def]
    simp [h1, h2]

theorem scan_body (s : List Char) : ∀ (tail acc : List Char),
    scanQuoted (jsonBody s ++ ('"' :: tail)) acc = some (acc.reverse ++ s, tail) := by
  induction s with
  | nil => intro tail acc; rw [jsonBody, List.nil_append, scanQuoted.eq_def]; simp
  | cons c s ih =>
    intro tail acc
    simp only [jsonBody, List.append_assoc]
    rw [scan_escape, ih]
    simp

/-- a quoted scalar followed by anything is scanned back exactly -/
theorem scan_jsonQuote (s tail : List Char) :
    scanScalar (jsonQuote s ++ tail) = some (.quoted s, tail) := by
  simp [jsonQuote, scanScalar, scan_body]

theorem quote_roundtrip (s : List Char) : unquote (jsonQuote s) = some s := by
  have := scan_body s [] []
  simp only [List.reverse_nil, List.nil_append] at this
  simp [unquote, jsonQuote, this]

end Scrut.Yaml
