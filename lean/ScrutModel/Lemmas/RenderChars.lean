import ScrutModel.Lemmas.FlowParse
/-! Every character of a rendered AST passes the YAML reader and is not a line break. -/
namespace Scrut.Yaml
open Scrut.Dur

theorem raw_ok (c : Char) (h8 : ¬ c.toNat < 32) (h9 : ¬ needsYamlEscape c = true) : okChar c = true := by
  have hv : c.toNat < 55296 ∨ (57343 < c.toNat ∧ c.toNat < 1114112) := c.valid
  simp only [needsYamlEscape, Bool.or_eq_true, Bool.and_eq_true, decide_eq_true_eq, not_or, not_and] at h9
  simp only [okChar, isBreak, readable, Bool.and_eq_true, Bool.or_eq_true, Bool.not_eq_true',
    Bool.or_eq_false_iff, decide_eq_true_eq, decide_eq_false_iff_not]
  omega

theorem mem_codes (c : Char) (h : needsYamlEscape c = true) : c.toNat ∈ yamlEscapedCodes := by
  simp only [needsYamlEscape, Bool.or_eq_true, Bool.and_eq_true, decide_eq_true_eq] at h
  simp only [yamlEscapedCodes, List.mem_append, List.mem_map, List.mem_range, List.mem_cons, List.mem_nil_iff, or_false]
  rcases h with (((h | h) | h) | h) | h
  · left; exact ⟨c.toNat - 0x7f, by omega, by omega⟩
  · right; left; exact h
  · right; right; left; exact h
  · right; right; right; left; exact h
  · right; right; right; right; exact h

theorem low_ok_all : (List.range 32).all (fun n => ['\\', 'u', '0', '0', hexDigit (n / 16), hexDigit (n % 16)].all okChar) = true := by
  rfl

theorem high_ok_all : yamlEscapedCodes.all (fun n => (uEscape n).all okChar) = true := by rfl

theorem jsonEscape_ok (c : Char) : (jsonEscape c).all okChar = true := by
  unfold jsonEscape
  split
  · decide
  split
  · decide
  split
  · decide
  split
  · decide
  split
  · decide
  split
  · decide
  split
  · decide
  split
  · rename_i h
    exact List.all_eq_true.mp low_ok_all _ (List.mem_range.mpr h)
  split
  · rename_i h
    exact List.all_eq_true.mp high_ok_all _ (mem_codes c h)
  · rename_i h8 h9
    simp [raw_ok c h8 h9]

theorem jsonBody_ok (s : List Char) : (jsonBody s).all okChar = true := by
  induction s with
  | nil => rfl
  | cons c s ih => simp only [jsonBody, List.all_append, jsonEscape_ok, ih, Bool.and_self]

theorem jsonQuote_ok (s : List Char) : (jsonQuote s).all okChar = true := by
  simp only [jsonQuote, List.all_cons, List.all_append, jsonBody_ok, List.all_nil, Bool.and_true, Bool.true_and]
  decide

theorem tok_ok (p : List Char) (h : Tok p = true) : p.all okChar = true := by
  simp only [Tok, Bool.and_eq_true] at h
  rw [List.all_eq_true] at *
  intro c hc
  exact tokChar_ok (h.1.1 c hc)

theorem scalar_ok (s : Scalar) (h : GoodS s = true) : s.render.all okChar = true := by
  cases s with
  | plain p => exact tok_ok p h
  | quoted q => exact jsonQuote_ok q

theorem joinComma_ok : ∀ (l : List (List Char)), (∀ x ∈ l, x.all okChar = true) → (joinComma l).all okChar = true := by
  intro l
  induction l with
  | nil => intro _; rfl
  | cons a r ih =>
    intro h
    cases r with
    | nil => simpa [joinComma] using h a (by simp)
    | cons b r' =>
      have h1 := h a (by simp)
      have h2 := ih (fun x hx => h x (by simp [hx]))
      have h3 : okChar ',' = true ∧ okChar ' ' = true := by decide
      simp only [joinComma, List.all_append, List.all_cons, h1, h3.1, h3.2, Bool.true_and] at h2 ⊢
      exact h2

theorem colon_ok : okChar ':' = true ∧ okChar ' ' = true ∧ okChar '{' = true ∧ okChar '}' = true := by decide

theorem renderKS_ok (kv : Scalar × Scalar) (h : GoodKS kv = true) : (renderKS kv).all okChar = true := by
  simp only [GoodKS, Bool.and_eq_true] at h
  simp only [renderKS, List.all_append, List.all_cons, scalar_ok _ h.1.1, scalar_ok _ h.1.2, colon_ok.1,
    colon_ok.2.1, Bool.and_self]

theorem val_ok (v : Val) (h : GoodV v = true) : v.render.all okChar = true := by
  cases v with
  | sc s => exact scalar_ok s h
  | map kvs =>
    have := joinComma_ok (kvs.map renderKS) (by
      intro x hx
      simp only [List.mem_map] at hx
      obtain ⟨kv, hm, rfl⟩ := hx
      exact renderKS_ok kv (List.all_eq_true.mp h kv hm))
    simp only [Val.render, List.all_cons, List.all_append, this, colon_ok.2.2.1, colon_ok.2.2.2, List.all_nil,
      Bool.and_self]

theorem renderKV_ok (kv : Scalar × Val) (h : GoodKV kv = true) : (renderKV kv).all okChar = true := by
  simp only [GoodKV, Bool.and_eq_true] at h
  simp only [renderKV, List.all_append, List.all_cons, scalar_ok _ h.1.1, val_ok _ h.1.2, colon_ok.1,
    colon_ok.2.1, Bool.and_self]

theorem ast_ok (a : Ast) (h : a.all GoodKV = true) : (Ast.render a).all okChar = true := by
  have := joinComma_ok (a.map renderKV) (by
    intro x hx
    simp only [List.mem_map] at hx
    obtain ⟨kv, hm, rfl⟩ := hx
    exact renderKV_ok kv (List.all_eq_true.mp h kv hm))
  simp only [Ast.render, List.all_cons, List.all_append, this, colon_ok.2.2.1, colon_ok.2.2.2, List.all_nil,
    Bool.and_self]

/-- **a rendered AST with token plain scalars is parsed back** (reader checks included) -/
theorem parseFlow_render (a : Ast) (c : Cfg) (h : a.all GoodKV = true) (hi : interp a = .ok c) :
    parseFlow (Ast.render a) = .ok c := by
  have hok := ast_ok a h
  have h1 : (Ast.render a).any isBreak = false := by
    rw [List.any_eq_false]
    intro c hc
    have := List.all_eq_true.mp hok c hc
    simp only [okChar, Bool.and_eq_true, Bool.not_eq_true'] at this
    simp [this.1]
  have h2 : (Ast.render a).all readable = true := by
    rw [List.all_eq_true]
    intro c hc
    have := List.all_eq_true.mp hok c hc
    simp only [okChar, Bool.and_eq_true] at this
    exact this.2
  unfold parseFlow
  simp only [h1, h2, Bool.false_eq_true, if_false, Bool.not_true, parseAst_render a h, hi]

end Scrut.Yaml
