import ScrutModel.Lemmas.Generate
import ScrutModel.Lemmas.DiffC03iff
import ScrutModel.Props.C03
import ScrutModel.Model.Exec
/-!
# C09: the test `scrut create` writes accepts the output it was written from (composition)
-/
namespace Scrut.GenLemmas
open Scrut.Utf8 Scrut.Esc Scrut.EscLemmas Scrut.Rules Scrut.Gen Scrut.Diff
open Scrut.Grammar (Params parse)

/-- the expectation that the line written for output line `l` parses to -/
def genExp (P : Params) (m : Mode) (isOther : Char → Bool) (l : List UInt8) : Option Grammar.Expectation :=
  match expectationLine m isOther l with
  | none => none
  | some t => match parse P t with
    | .ok e => some e
    | .error _ => none

/-- does the expectation generated for line `i` of `ls` match line `j` of `ls`? -/
def matchMatrix (P : Params) (m : Mode) (isOther : Char → Bool) (ls : List (List UInt8)) (i j : Nat) : Bool :=
  match ls[i]?, ls[j]? with
  | some li, some lj =>
    match genExp P m isOther li with
    | some e => strRuleMatches e.kind e.expr lj
    | none => false
  | _, _ => false

/-- the quantifiers of the generated expectations, as the matcher sees them -/
def genQuant (P : Params) (m : Mode) (isOther : Char → Bool) (ls : List (List UInt8)) (i : Nat) : Diff.Exp :=
  match ls[i]? with
  | some li =>
    match genExp P m isOther li with
    | some e => ⟨e.optional, e.multiline⟩
    | none => ⟨false, false⟩
  | none => ⟨false, false⟩

theorem genExp_ok {P : Params} (hP : StdParams P) (m : Mode) (isOther : Char → Bool)
    (hC : m = .unicode → AsciiContract isOther) {l : List UInt8} (hl : Newline.IsLine l) :
    ∃ e, genExp P m isOther l = some e ∧ e.optional = false ∧ e.multiline = false ∧
      strRuleMatches e.kind e.expr l = true := by
  obtain ⟨t, ht, hok⟩ := line_ok hP m isOther hC hl
  obtain ⟨e, he, h1, h2, _, h4⟩ := hok.parses
  exact ⟨e, by simp [genExp, ht, he], h1, h2, h4⟩

theorem genQuant_none {P : Params} (hP : StdParams P) (m : Mode) (isOther : Char → Bool)
    (hC : m = .unicode → AsciiContract isOther) (out : List UInt8) (i : Nat) :
    genQuant P m isOther (Newline.splitAtNewline out) i = ⟨false, false⟩ := by
  unfold genQuant
  cases hi : (Newline.splitAtNewline out)[i]? with
  | none => rfl
  | some li =>
    have hmem : li ∈ Newline.splitAtNewline out := List.mem_of_getElem? hi
    obtain ⟨e, he, h1, h2, _⟩ := genExp_ok hP m isOther hC (Newline.splitAtNewline_isLine out li hmem)
    simp [he, h1, h2]

theorem matchMatrix_diag {P : Params} (hP : StdParams P) (m : Mode) (isOther : Char → Bool)
    (hC : m = .unicode → AsciiContract isOther) (out : List UInt8) (i : Nat)
    (hi : i < (Newline.splitAtNewline out).length) :
    matchMatrix P m isOther (Newline.splitAtNewline out) i i = true := by
  unfold matchMatrix
  have hget : (Newline.splitAtNewline out)[i]? = some (Newline.splitAtNewline out)[i] := List.getElem?_eq_getElem hi
  have hmem : (Newline.splitAtNewline out)[i] ∈ Newline.splitAtNewline out := List.getElem_mem hi
  obtain ⟨e, he, _, _, h4⟩ := genExp_ok hP m isOther hC (Newline.splitAtNewline_isLine out _ hmem)
  simp [hget, he, h4]

/-- the matcher reports no difference between the generated expectations and the output -/
theorem create_no_diff {P : Params} (hP : StdParams P) (m : Mode) (isOther : Char → Bool)
    (hC : m = .unicode → AsciiContract isOther) (out : List UInt8) :
    hasDiff (diff (Newline.splitAtNewline out).length (Newline.splitAtNewline out).length
      (genQuant P m isOther (Newline.splitAtNewline out))
      (matchMatrix P m isOther (Newline.splitAtNewline out))) = false :=
  Scrut.Props.C03.C03_own_lines _ _ _ (genQuant_none hP m isOther hC out)
    (fun i hi => matchMatrix_diag hP m isOther hC out i hi)

/-- every line is written: `expectationLines` never panics on the lines of an output, and its text
is the generated lines, each followed by a line feed -/
theorem expectationLines_some (m : Mode) (isOther : Char → Bool)
    (hC : m = .unicode → AsciiContract isOther) (ls : List (List UInt8)) (hls : ∀ l ∈ ls, Newline.IsLine l) :
    ∃ ts : List (List Char), ts.length = ls.length ∧
      (∀ i (h : i < ls.length), expectationLine m isOther ls[i] = ts[i]?) ∧
      expectationLines m isOther ls = some (ts.flatMap (· ++ ['\n'])) := by
  induction ls with
  | nil => exact ⟨[], rfl, by intro i h; simp at h, rfl⟩
  | cons l ls ih =>
    obtain ⟨ts, hlen, hget, hts⟩ := ih (fun x hx => hls x (List.mem_cons_of_mem _ hx))
    obtain ⟨t, ht, _⟩ := line_ok (stdParams_std (fun _ => none) (fun _ => none)) m isOther hC (hls l (by simp))
    refine ⟨t :: ts, by simp [hlen], ?_, ?_⟩
    · intro i h
      cases i with
      | zero => simpa using ht
      | succ i => simpa using hget i (by simpa using h)
    · simp [expectationLines, ht, hts]

/-! ### the exit code line -/

set_option maxRecDepth 100000 in
theorem exitCode_roundtrip_nat : ∀ c : Nat, c < 256 →
    LineParser.extractExitCode (['['] ++ Nat.toDigits 10 c ++ [']']) = some c := by decide

/-- `[c]` as written reads back as the exit code `c` (process exit codes: 0..255) -/
theorem exitCode_roundtrip (c : Int) (h0 : 0 ≤ c) (h1 : c ≤ 255) :
    LineParser.extractExitCode (['['] ++ showInt c ++ [']']) = some c.toNat := by
  have : showInt c = Nat.toDigits 10 c.toNat := by simp [showInt, Int.not_lt.mpr h0]
  rw [this]
  exact exitCode_roundtrip_nat c.toNat (by omega)

theorem exitCodeLine_eq (c : Int) : exitCodeLine c = (['['] ++ showInt c ++ [']']) ++ ['\n'] := by
  simp [exitCodeLine]

/-! ### the shape of what `create` generates -/

/-- all three branches of `generate_testcase` that `create` can reach write the same thing: the
command, one expectation line per line of the validated stream, and `[code]` iff `code ≠ 0` -/
theorem generateTestcase_create (m : Mode) (isOther : Char → Bool) (cmd ex : List Char)
    (out : List UInt8) (code : Int) (hex : expression cmd = some ex) :
    generateTestcase m isOther cmd (createResult out code) out code =
      (expectationLines m isOther (Newline.splitAtNewline out)).map (fun e => ex ++ e ++ exitCodeOpt code) := by
  unfold generateTestcase createResult
  simp only [hex]
  by_cases hc : code = 0
  · subst hc
    cases hs : Newline.splitAtNewline out with
    | nil => simp [expectationLines, exitCodeOpt]
    | cons l ls => simp
  · simp [hc, exitCodeOpt]

/-- the outcome `create` starts from is the verdict of a test case without expectations -/
theorem diff_no_expectations (n : Nat) (es : Nat → Diff.Exp) (mt : Nat → Nat → Bool) :
    diff 0 n es mt = if 0 < n then [DL.unexpected (rangeFrom 0 n)] else [] := by
  have hl : loop 0 n es mt 0 0 none [] = (0, 0, none, []) := by
    rw [loop]; simp
  simp [diff, hl, unmatchedOf, rangeFrom]

/-! ### the verdict -/

/-- with the exit code that is read back and an accepted stream, `validate` says `ok` -/
theorem validate_ok (c : Int) (tc : Exec.TC) (o : Exec.Out) (hs : o.status = .code c)
    (hexp : tc.expected = if c ≠ 0 then some c else none) (hacc : Exec.selected tc o = true) :
    Exec.validate tc o = .ok := by
  unfold Exec.validate
  rw [hs]
  by_cases hc : c = 0
  · subst hc; simp [hexp, hacc]
  · simp [hexp, hc, hacc]

/-! ### the Markdown fence -/

theorem foldl_max_ge (ls : List (List Char)) (a : Nat) :
    a ≤ ls.foldl (fun mx l => Nat.max (leadingBackticks l) mx) a ∧
    ∀ l ∈ ls, leadingBackticks l ≤ ls.foldl (fun mx l => Nat.max (leadingBackticks l) mx) a := by
  induction ls generalizing a with
  | nil => simp
  | cons x xs ih =>
    simp only [List.foldl_cons, List.mem_cons]
    obtain ⟨h1, h2⟩ := ih (Nat.max (leadingBackticks x) a)
    refine ⟨Nat.le_trans (Nat.le_max_right _ _) h1, ?_⟩
    rintro l (rfl | hl)
    · exact Nat.le_trans (Nat.le_max_left _ _) h1
    · exact h2 l hl

/-- the fence of the generated Markdown block has at least three backticks and is longer than the
run of backticks at the start of any line inside the block -/
theorem fence_longer (g : List Char) :
    3 ≤ maxBacktickSize g + 1 ∧ ∀ l ∈ lines g, leadingBackticks l < maxBacktickSize g + 1 := by
  obtain ⟨h1, h2⟩ := foldl_max_ge (lines g) 2
  unfold maxBacktickSize
  exact ⟨by omega, fun l hl => Nat.lt_succ_of_le (h2 l hl)⟩

end Scrut.GenLemmas
