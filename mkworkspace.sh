#!/bin/sh
# Creates an isolated scratch workspace (copy of /verif and /repo) under /tmp/ag-<name> for developing one
# property without disturbing the committed framework. Remove it when done: rm -rf /tmp/ag-<name>
set -e
N="$1"; [ -n "$N" ] || { echo "usage: mkworkspace.sh <name>"; exit 2; }
W=/tmp/ag-$N
mkdir -p "$W"
rsync -a --delete --exclude target --exclude .git /repo/ "$W/repo/"
(cd "$W/repo" && git init -q . 2>/dev/null && git add -A >/dev/null 2>&1 && git -c user.email=x@x -c user.name=x commit -qm base >/dev/null 2>&1 || true)
rsync -a --delete --exclude .build --exclude replays --exclude .git /verif/ "$W/verif/"
sed -i "s|path = \"/repo\"|path = \"$W/repo\"|" "$W/verif/harness/Cargo.toml"
echo "workspace: $W  (use: cd $W/verif && VERIF_REPO=$W/repo ./check Cxx)"
