#!/bin/bash
# A test case of a Cram document that ends the shell (`exit 3`) makes scrut exit
# with 1 (as if scrut had failed), drops all results and never runs the documents
# that follow. The same document as Markdown passes with exit 0.
. "$(dirname "$(readlink -f "$0")")/common.inc"
cat > first.t <<'DOC'
  $ echo t1 >> "$MARK"; echo one
  one

  $ echo t2 >> "$MARK"; exit 3
  [3]

  $ echo t3 >> "$MARK"; echo three
  three
DOC
cat > second.md <<'DOC'
# second

```scrut
$ echo s1 >> "$MARK"; echo actual
expected
```
DOC
"$SCRUT" test first.t second.md > out.txt 2> err.txt
code=$?
# expected: 50 (second.md fails validation; first.t at worst fails validation too),
# and second.md must have been executed
if [ "$code" -eq 1 ] || ! grep -q s1 "$MARK"; then
    echo "VIOLATION: exit $code; executed: $(tr '\n' ' ' < "$MARK"); stdout: $(wc -c < out.txt) bytes"
    exit 1
fi
echo "ok (exit $code)"
exit 0
