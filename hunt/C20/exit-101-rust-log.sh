#!/bin/bash
# Exit status outside 0 / 50 / 1: an invalid RUST_LOG makes main() panic (exit 101).
. "$(dirname "$(readlink -f "$0")")/common.inc"
cat > doc.md <<'DOC'
# doc

```scrut
$ echo one
one
```
DOC
RUST_LOG='a=b=c' "$SCRUT" test doc.md > out.txt 2> err.txt
code=$?
case "$code" in
    0|1|50) echo "ok (exit $code)"; exit 0 ;;
    *) echo "VIOLATION: exit $code: $(grep -A1 -m1 panicked err.txt | tr '\n' ' ')"; exit 1 ;;
esac
