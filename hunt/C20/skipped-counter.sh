#!/bin/bash
# The counters that `scrut test` logs (info level) do not add up: a skipped
# document with n test cases counts as 1 skipped, the summary line says n.
. "$(dirname "$(readlink -f "$0")")/common.inc"
cat > skip.md <<'DOC'
# skip

```scrut
$ exit 80
```

```scrut
$ echo two
two
```

```scrut
$ echo three
three
```
DOC
"$SCRUT" test --log-level info --no-color skip.md > out.txt 2> err.txt
code=$?
logged=$(grep -o 'skipped=[0-9]*' err.txt | tail -1)
summary=$(grep -o '[0-9]* skipped' out.txt | tail -1)
if [ "$logged" != "skipped=3" ]; then
    echo "VIOLATION: exit $code, log says '$logged', summary says '$summary'"
    exit 1
fi
echo "ok ($logged / $summary)"
exit 0
