#!/bin/bash
# Exit status outside 0 / 50 / 1: a --timeout-seconds value that clap accepts (u64)
# but that overflows Instant + Duration makes the executor panic (exit 101).
. "$(dirname "$(readlink -f "$0")")/common.inc"
cat > doc.md <<'DOC'
# doc

```scrut
$ echo one
one
```
DOC
printf '  $ echo one\n  one\n' > doc.t
rc=0
for doc in doc.md doc.t; do
    "$SCRUT" test --timeout-seconds 9223372036854775807 $doc > out.txt 2> err.txt
    code=$?
    case "$code" in
        0|1|50) echo "ok $doc (exit $code)" ;;
        *) echo "VIOLATION: $doc: exit $code: $(grep -A1 -m1 panicked err.txt | tail -1)"; rc=1 ;;
    esac
done
exit $rc
