#!/bin/bash
# Exit status outside 0 / 50 / 1: when the report cannot be written to stdout
# scrut panics in print! and exits with 101.
. "$(dirname "$(readlink -f "$0")")/common.inc"
cat > doc.md <<'DOC'
# doc

```scrut
$ echo one
one
```
DOC
"$SCRUT" test doc.md > /dev/full 2> err.txt
code=$?
case "$code" in
    0|1|50) echo "ok (exit $code)"; exit 0 ;;
    *) echo "VIOLATION: exit $code: $(grep -m1 panicked err.txt)"; exit 1 ;;
esac
