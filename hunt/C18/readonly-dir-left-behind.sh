#!/bin/bash
# C18: a test case that leaves a directory without write permission in its work
# directory (as `go mod download`, `cp -a` of a read-only tree, `chmod -R a-w` do)
# makes the clean-up of scrut fail silently: exit code 0, no message, and the
# `execution.XXXXXX` directory stays in the temporary directory of the system.
#
# usage: readonly-dir-left-behind.sh <scrut binary>   -> exit 1: violation present, 0: not
#
# The permission bits do not bind root, so when started as root the script runs
# scrut as an unprivileged user (nobody, 65534) by means of setpriv.
set -u
SCRUT=$(readlink -f "${1:?usage: $0 <scrut binary>}")
BASE=$(mktemp -d ${HUNT_BASE:-/tmp/hunt-verif}/repro-ro.XXXXXX) || exit 2
cleanup() { chmod -R u+rwx "$BASE" 2>/dev/null; rm -rf "$BASE"; }
trap cleanup EXIT

mkdir -p "$BASE/tmp" "$BASE/docs"
cat > "$BASE/docs/ro.md" <<'EOF'
# A test leaves a read-only directory behind

```scrut
$ mkdir -p cache/pkg && echo data > cache/pkg/file && chmod -R a-w cache
```
EOF
chmod -R a+rwx "$BASE"

run() {
    if [ "$(id -u)" = 0 ]; then
        if ! command -v setpriv >/dev/null; then
            echo "need setpriv to drop root" >&2
            exit 2
        fi
        ( cd "$BASE" && TMPDIR="$BASE/tmp" HOME="$BASE" setpriv --reuid=65534 --regid=65534 --clear-groups "$SCRUT" "$@" )
    else
        ( cd "$BASE" && TMPDIR="$BASE/tmp" "$SCRUT" "$@" )
    fi
}

run test docs/ro.md >"$BASE/out" 2>&1
code=$?
left=$(ls -A "$BASE/tmp")
echo "scrut exit code: $code"
if [ -n "$left" ]; then
    echo "VIOLATION: directories remain in the temporary directory after scrut exited:"
    find "$BASE/tmp" | sed "s|^$BASE/||"
    exit 1
fi
echo "ok: nothing remains"
exit 0
