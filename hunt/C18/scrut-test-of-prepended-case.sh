#!/bin/bash
# C18: SCRUT_TEST=<path>:<line> of a test case that comes from a prepended (or
# appended) document is put together from the path of the MAIN document and the
# line number within the PREPENDED document: it names a place where this test
# case is not (and two test cases of one run can carry the same SCRUT_TEST).
#
# usage: scrut-test-of-prepended-case.sh <scrut binary>  -> exit 1: violation present, 0: not
set -u
SCRUT=$(readlink -f "${1:?usage: $0 <scrut binary>}")
BASE=$(mktemp -d ${HUNT_BASE:-/tmp/hunt-verif}/repro-pre.XXXXXX) || exit 2
trap 'rm -rf "$BASE"' EXIT

mkdir -p "$BASE/tmp" "$BASE/docs/shared"
# the test case of the bootstrap document is in line 12 of shared/setup.md
{
    echo "# Shared bootstrap"; echo
    for i in 1 2 3 4 5 6 7; do echo "filler line $i"; done; echo
    echo '```scrut'
    echo '$ echo "$SCRUT_TEST" > "$TMPDIR/seen-by-setup"'
    echo '```'
} > "$BASE/docs/shared/setup.md"
cat > "$BASE/docs/main.md" <<'EOF'
---
prepend: [shared/setup.md]
---
# Main document (7 lines long, the test case is in line 6)

```scrut
$ cat "$TMPDIR/seen-by-setup"
```
EOF
( cd "$BASE" && TMPDIR="$BASE/tmp" "$SCRUT" test --no-color docs/main.md >"$BASE/out" 2>&1 )
seen=$(grep -E '[|] [-+] ' "$BASE/out" | sed -E 's/.*[|] [-+] //')
line=$(grep -n 'seen-by-setup' "$BASE/docs/shared/setup.md" | cut -d: -f1)
echo "the test case is at docs/shared/setup.md:$line"
echo "SCRUT_TEST it saw:  $seen"
case "$seen" in
    docs/shared/setup.md:"$line") echo "ok"; exit 0 ;;
    *) echo "VIOLATION: SCRUT_TEST names docs/main.md with the line number of the other document ($(wc -l < "$BASE/docs/main.md") lines in docs/main.md)"; exit 1 ;;
esac
