#!/bin/bash
# C18: the documented variables are not "set anew for each test case" (Markdown,
# stateful executor):
#   (1) SHELL (documented: "SHELL: Same as TESTSHELL") keeps the value an earlier
#       test case assigned: it is added in SubprocessRunner after BashRunner has
#       collected the names it restores;
#   (2) the restore is `declare -x NAME="value"` on top of the variable that the
#       state file of the earlier test case brought back, so the attributes of
#       that variable stay: after `declare -l TESTFILE` the name of the document
#       arrives in lower case, after `TMPDIR=(x)` TMPDIR is an array, which bash
#       cannot export: child processes (mktemp, the CLI under test) see no TMPDIR
#       at all and fall back to /tmp.
#
# usage: environment-not-afresh.sh <scrut binary>  -> exit 1: violation present, 0: not
set -u
SCRUT=$(readlink -f "${1:?usage: $0 <scrut binary>}")
BASE=$(mktemp -d ${HUNT_BASE:-/tmp/hunt-verif}/repro-env.XXXXXX) || exit 2
trap 'rm -rf "$BASE"' EXIT

mkdir -p "$BASE/tmp" "$BASE/docs"
cat > "$BASE/docs/Shell.md" <<'EOF'
# SHELL

```scrut
$ SHELL=/bin/changed
```

```scrut
$ test "$SHELL" = "$TESTSHELL" && echo "SHELL is TESTSHELL"
SHELL is TESTSHELL
```
EOF
cat > "$BASE/docs/Attributes.md" <<'EOF'
# attributes survive

```scrut
$ declare -l TESTFILE; TMPDIR=(elsewhere)
```

```scrut
$ echo "$TESTFILE"; env | grep -c '^TMPDIR='
Attributes.md
1
```
EOF

rc=0
for doc in Shell.md Attributes.md; do
    ( cd "$BASE" && TMPDIR="$BASE/tmp" "$SCRUT" test --no-color "docs/$doc" >"$BASE/out.$doc" 2>&1 )
    code=$?
    if [ $code -ne 0 ]; then
        echo "VIOLATION ($doc): exit code $code"
        grep -E '[|] [-+] ' "$BASE/out.$doc"
        rc=1
    else
        echo "ok ($doc)"
    fi
done
exit $rc
