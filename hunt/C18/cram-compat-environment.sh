#!/bin/bash
# C18: what a Markdown test case sees of the documented environment depends on
# the command when --cram-compat is given:
#   (1) `scrut test --cram-compat doc.md` runs the Markdown document in the
#       bash-script executor, which never sets SCRUT_TEST (the documented way
#       "to decide whether an execution is within Scrut");
#   (2) `scrut update --cram-compat doc.md` ignores the flag when it builds the
#       environment: CRAMTMP, TMP and TEMP (documented: "When using the
#       --cram-compat flag ... will be exposed") are missing, and the executor is
#       the other one. The expectations `update` writes can never hold in `test`.
#
# usage: cram-compat-environment.sh <scrut binary>  -> exit 1: violation present, 0: not
set -u
SCRUT=$(readlink -f "${1:?usage: $0 <scrut binary>}")
BASE=$(mktemp -d ${HUNT_BASE:-/tmp/hunt-verif}/repro-cc.XXXXXX) || exit 2
trap 'rm -rf "$BASE"' EXIT

mkdir -p "$BASE/tmp" "$BASE/docs"
cat > "$BASE/docs/env.md" <<'EOF'
# environment under --cram-compat

```scrut
$ echo "SCRUT_TEST=${SCRUT_TEST:+set} CRAMTMP=${CRAMTMP:+set} TMP=${TMP:+set} TEMP=${TEMP:+set}"
SCRUT_TEST=set CRAMTMP=set TMP=set TEMP=set
```
EOF
rc=0
# SCRUT_TEST of an outer scrut must not hide the finding
unset SCRUT_TEST
( cd "$BASE" && TMPDIR="$BASE/tmp" "$SCRUT" test --no-color --cram-compat docs/env.md >"$BASE/out.test" 2>&1 )
code=$?
if [ $code -ne 0 ]; then
    echo "VIOLATION (test --cram-compat, exit code $code):"
    grep -E '[|] [-+] ' "$BASE/out.test"
    rc=1
else
    echo "ok (test --cram-compat)"
fi
( cd "$BASE" && TMPDIR="$BASE/tmp" "$SCRUT" update --no-color --cram-compat --assume-yes --replace docs/env.md >"$BASE/out.update" 2>&1 </dev/null )
got=$(grep '^SCRUT_TEST=' "$BASE/docs/env.md")
if [ "$got" != "SCRUT_TEST=set CRAMTMP=set TMP=set TEMP=set" ]; then
    echo "VIOLATION (update --cram-compat): the test case saw: $got"
    rc=1
else
    echo "ok (update --cram-compat)"
fi
exit $rc
