#!/bin/bash
# C18: when a test case runs into its timeout scrut kills the shell only; the
# processes the shell started live on (the sub-shell below). They go on working
# in the work directory / $TMPDIR while scrut removes them, so that
#   (a) the removal loses the race (ENOTEMPTY, ignored) and `execution.XXXXXX`
#       is still there when scrut has exited, or
#   (b) the directory scrut removed is created again after scrut has exited
#       (`mkdir -p "$TMPDIR/late"`).
# This script shows (b), which does not depend on a race: after scrut has exited
# (exit code 50, timeout) the temporary directory is empty; two seconds later
# `execution.XXXXXX/__tmp/late/file` exists and nothing will ever remove it.
#
# usage: timeout-orphans-keep-directories.sh <scrut binary>  -> exit 1: violation present, 0: not
set -u
SCRUT=$(readlink -f "${1:?usage: $0 <scrut binary>}")
BASE=$(mktemp -d ${HUNT_BASE:-/tmp/hunt-verif}/repro-to.XXXXXX) || exit 2
trap 'rm -rf "$BASE"' EXIT

mkdir -p "$BASE/tmp" "$BASE/docs"
cat > "$BASE/docs/timeout.md" <<'EOF'
# The test case times out while a child of the shell is still at work

```scrut {timeout: 1s}
$ (sleep 2; mkdir -p "$TMPDIR/late"; echo data > "$TMPDIR/late/file") & sleep 4
```
EOF

( cd "$BASE" && TMPDIR="$BASE/tmp" "$SCRUT" test docs/timeout.md >"$BASE/out" 2>&1 )
code=$?
echo "scrut exit code: $code (50 = a test case failed, here: timed out)"
at_exit=$(ls -A "$BASE/tmp")
sleep 3
later=$(ls -A "$BASE/tmp")
if [ -n "$at_exit" ] || [ -n "$later" ]; then
    echo "VIOLATION: a directory that scrut created exists after scrut has exited:"
    echo "  at exit:       ${at_exit:-<nothing>}"
    echo "  3 seconds on:  ${later:-<nothing>}"
    find "$BASE/tmp" | sed "s|^$BASE/||"
    exit 1
fi
echo "ok: nothing remains"
exit 0
