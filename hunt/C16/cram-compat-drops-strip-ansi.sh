#!/bin/bash
# usage: cram-compat-drops-strip-ansi.sh <path to scrut binary>
# exit 1: violation present; exit 0: not present; exit 2: could not decide
set -u
SCRUT=$(readlink -f "${1:?path to scrut binary}")
BASE=${HUNT_BASE:-/tmp/hunt-verif}
DIR=$(mktemp -d "$BASE/repro-tmp.XXXXXX") || exit 2
trap 'rm -rf "$DIR"' EXIT
cd "$DIR" || exit 2
# strip_ansi_escaping (document defaults or inline) and wait must be in effect
# under --cram-compat as well.
cat > doc.md <<'DOC'
---
defaults:
  strip_ansi_escaping: true
---

# strip

```scrut
$ printf '\033[1mfoo\033[0m\n'
foo
```
DOC
"$SCRUT" test --no-color doc.md >/dev/null 2>&1 || { echo "unexpected: fails without --cram-compat"; exit 2; }
OUT=$("$SCRUT" test --no-color --cram-compat doc.md 2>&1); RC=$?
if [ $RC -eq 0 ]; then exit 0; fi
if echo "$OUT" | grep -q 'x1b\[1mfoo'; then
    echo "violation: strip_ansi_escaping: true has no effect with --cram-compat"
    exit 1
fi
echo "$OUT"; exit 2
