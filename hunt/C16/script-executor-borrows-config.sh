#!/bin/bash
# usage: script-executor-borrows-config.sh <path to scrut binary>
# exit 1: violation present; exit 0: not present; exit 2: could not decide
set -u
SCRUT=$(readlink -f "${1:?path to scrut binary}")
BASE=${HUNT_BASE:-/tmp/hunt-verif}
DIR=$(mktemp -d "$BASE/repro-tmp.XXXXXX") || exit 2
trap 'rm -rf "$DIR"' EXIT
cd "$DIR" || exit 2
# A Markdown test case (keep_crlf unset => CRLF translated) that is prepended to
# a Cram document must keep its own configuration (or Scrut must refuse), it must
# not silently take keep_crlf: true from the test cases that follow.
cat > pre.md <<'DOC'
# pre

```scrut
$ printf 'x\r\n'
x
```
DOC
printf 'main\n\n  $ echo main\n  main\n' > main.t
"$SCRUT" test --no-color pre.md >/dev/null 2>&1 || { echo "unexpected: pre.md fails on its own"; exit 2; }
OUT=$("$SCRUT" test --no-color --combine-output -P pre.md -- main.t 2>&1); RC=$?
if [ $RC -eq 0 ]; then exit 0; fi
if echo "$OUT" | grep -q 'inconsistent configuration value'; then exit 0; fi   # refused loudly: fine
if echo "$OUT" | grep -q 'x\\r (escaped)'; then
    echo "violation: prepended Markdown test case ran with keep_crlf: true of the Cram test cases"
    exit 1
fi
echo "$OUT"; exit 2
