#!/bin/bash
# C07: an exit code line `[N]` with N > 2147483647 is not rejected and is not
# an exit code: it silently becomes an output expectation (and a second exit
# code line in the same test is then accepted instead of "provided multiple times").
# Exit 1 = violation present, 0 = absent.
SCRUT="${1:?usage: $0 <path to scrut binary>}"
SCRUT="$(readlink -f "$SCRUT")"
mkdir -p ${HUNT_BASE:-/tmp/hunt-verif}/work
DIR="$(mktemp -d ${HUNT_BASE:-/tmp/hunt-verif}/work/repro-exit.XXXXXX)"
trap 'rm -rf "$DIR"' EXIT
cd "$DIR" || exit 2

# The command prints the text "[2147483648]" and ends with 3.
# Reading `[2147483648]` as exit code line: error, or exit code mismatch -> must not pass;
# and then `[3]` would be the second exit code line -> "exit code provided multiple times".
# scrut reads it as an expectation of the output and `[3]` as the only exit code: passes.
cat > overflow.t <<'EOT'
Two exit code lines
  $ echo '[2147483648]'; (exit 3)
  [2147483648]
  [3]
EOT
# control: the same with a number that fits is rejected
cat > control.t <<'EOT'
Two exit code lines
  $ echo '[2147483647]'; (exit 3)
  [2147483647]
  [3]
EOT

out_c="$(RUST_BACKTRACE=0 "$SCRUT" test control.t 2>&1)"; rc_c=$?
if [ "$rc_c" -eq 0 ] || ! echo "$out_c" | grep -q "exit code provided multiple times"; then
    echo "unexpected: control document is not rejected: rc=$rc_c"; echo "$out_c"; exit 2
fi
out="$(RUST_BACKTRACE=0 "$SCRUT" test overflow.t 2>&1)"; rc=$?
if [ "$rc" -eq 0 ]; then
    echo "VIOLATION: [2147483648] was taken for an output expectation, the document passes:"
    echo "$out"
    exit 1
fi
echo "ok: rc=$rc"
exit 0
