#!/bin/bash
# C12 repro: PATH that does not lead to grep / sed / tail / mkdir (e.g. a directory of mocks only): the hook cannot filter, no variable and no directory stack is carried
# usage: path-without-coreutils.sh <path to scrut binary>; exit 1 = violation present, 0 = absent, 2 = could not run
[ -x "$1" ] || { echo "usage: $0 <scrut binary>" >&2; exit 2; }
SCRUT=$(realpath "$1")
mkdir -p ${HUNT_BASE:-/tmp/hunt-verif} || exit 2
T=$(mktemp -d ${HUNT_BASE:-/tmp/hunt-verif}/repro-tmp.XXXXXX) || exit 2
trap 'rm -rf "$T"' EXIT
mkdir "$T/tmp"; export TMPDIR="$T/tmp"
cd "$T" || exit 2

# one test case per step; the expectations are what ONE bash session prints for the same steps
cat > split.md <<'SCRUT_EOF'
# step 1

```scrut
$ mkdir fake; V=1; export PATH=$PWD/fake; echo "${PATH##*/}"
fake
```

# step 2

```scrut
$ echo "V=$V"; echo "${PATH##*/}"
V=1
fake
```

SCRUT_EOF

# control: the same steps in one test case (= one bash process)
cat > single.md <<'SCRUT_EOF'
# all steps

```scrut
$ mkdir fake; V=1; export PATH=$PWD/fake; echo "${PATH##*/}"
> echo "V=$V"; echo "${PATH##*/}"
fake
V=1
fake
```

SCRUT_EOF

if [ 1 -eq 1 ] && ! "$SCRUT" test single.md > control.log 2>&1; then
    cat control.log; echo "CONTROL FAILED: the single-session document does not pass, cannot judge" >&2; exit 2
fi
if "$SCRUT" test split.md > split.log 2>&1; then
    echo "no violation: the test cases behave like one session"; exit 0
else
    cut -c1-200 split.log | head -60
    echo "VIOLATION: path-without-coreutils"; exit 1
fi
