#!/bin/bash
# C12 repro: `export -n` of a variable inherited from Scrut's environment is not carried (next test case exports it again)
# usage: unexport-inherited.sh <path to scrut binary>; exit 1 = violation present, 0 = absent, 2 = could not run
[ -x "$1" ] || { echo "usage: $0 <scrut binary>" >&2; exit 2; }
SCRUT=$(realpath "$1")
mkdir -p ${HUNT_BASE:-/tmp/hunt-verif} || exit 2
T=$(mktemp -d ${HUNT_BASE:-/tmp/hunt-verif}/repro-tmp.XXXXXX) || exit 2
trap 'rm -rf "$T"' EXIT
mkdir "$T/tmp"; export TMPDIR="$T/tmp"
cd "$T" || exit 2

# one test case per step; the expectations are what ONE bash session prints for the same steps
cat > split.md <<'SCRUT_EOF'
# step 1

```scrut
$ export -n HOME; bash -c 'echo ${HOME-unset}'
unset
```

# step 2

```scrut
$ bash -c 'echo ${HOME-unset}'
unset
```

SCRUT_EOF

# control: the same steps in one test case (= one bash process)
cat > single.md <<'SCRUT_EOF'
# all steps

```scrut
$ export -n HOME; bash -c 'echo ${HOME-unset}'
> bash -c 'echo ${HOME-unset}'
unset
unset
```

SCRUT_EOF

if [ 1 -eq 1 ] && ! "$SCRUT" test single.md > control.log 2>&1; then
    cat control.log; echo "CONTROL FAILED: the single-session document does not pass, cannot judge" >&2; exit 2
fi
if "$SCRUT" test split.md > split.log 2>&1; then
    echo "no violation: the test cases behave like one session"; exit 0
else
    cut -c1-200 split.log | head -60
    echo "VIOLATION: unexport-inherited"; exit 1
fi
