#!/bin/bash
# a bracket that opens a nested / POSIX class inside a character class is escaped
# exit 1: violation present, exit 0: not present
set -u
setup() {
    if [ -z "${1:-}" ] || [ ! -x "$1" ]; then
        echo "usage: $0 /path/to/scrut" >&2
        exit 2
    fi
    SCRUT="$(readlink -f "$1")"
    WORK="$(mktemp -d -p ${HUNT_BASE:-/tmp/hunt-verif} repro.XXXXXX)"
    trap 'rm -rf "$WORK"' EXIT
    export RUST_BACKTRACE=0
    BAD=0
}
# expect_pass <file>: the document must pass (exit 0); anything else is the violation
expect_pass() {
    (cd "$WORK" && "$SCRUT" test "$1" >"$1.out" 2>&1)
    rc=$?
    if [ $rc -ne 0 ]; then
        echo "VIOLATION: $1 should pass, scrut exit code $rc"
        sed -n '1,12p' "$WORK/$1.out"
        BAD=1
    fi
}
# expect_fail <file>: the document must fail validation (exit 50); a pass is the violation
expect_fail() {
    (cd "$WORK" && "$SCRUT" test "$1" >"$1.out" 2>&1)
    rc=$?
    if [ $rc -eq 0 ]; then
        echo "VIOLATION: $1 should fail, but scrut passes it"
        BAD=1
    fi
}
finish() {
    [ $BAD -eq 0 ] && echo "no violation"
    exit $BAD
}
setup "${1:-}"
cat > "$WORK/posix.md" <<'DOC'
# POSIX class

```scrut
$ echo hello
[[:alpha:]]+ (regex)
```
DOC
cat > "$WORK/intersection.md" <<'DOC'
# class intersection with a nested class

```scrut
$ echo 12346
[\d&&[^5]]+ (regex)
```
DOC
cat > "$WORK/false-pass.md" <<'DOC'
# must not match: the line is not made of letters

```scrut
$ echo ':[]'
[[:alpha:]]+ (regex)
```
DOC
expect_pass posix.md
expect_pass intersection.md
expect_fail false-pass.md
finish
