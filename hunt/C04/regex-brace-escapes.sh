#!/bin/bash
# \p{..}, \x{..}, \u{..}, \b{start} of the regex syntax are broken by the curly-bracket compensation
# exit 1: violation present, exit 0: not present
set -u
setup() {
    if [ -z "${1:-}" ] || [ ! -x "$1" ]; then
        echo "usage: $0 /path/to/scrut" >&2
        exit 2
    fi
    SCRUT="$(readlink -f "$1")"
    WORK="$(mktemp -d -p ${HUNT_BASE:-/tmp/hunt-verif} repro.XXXXXX)"
    trap 'rm -rf "$WORK"' EXIT
    export RUST_BACKTRACE=0
    BAD=0
}
# expect_pass <file>: the document must pass (exit 0); anything else is the violation
expect_pass() {
    (cd "$WORK" && "$SCRUT" test "$1" >"$1.out" 2>&1)
    rc=$?
    if [ $rc -ne 0 ]; then
        echo "VIOLATION: $1 should pass, scrut exit code $rc"
        sed -n '1,12p' "$WORK/$1.out"
        BAD=1
    fi
}
# expect_fail <file>: the document must fail validation (exit 50); a pass is the violation
expect_fail() {
    (cd "$WORK" && "$SCRUT" test "$1" >"$1.out" 2>&1)
    rc=$?
    if [ $rc -eq 0 ]; then
        echo "VIOLATION: $1 should fail, but scrut passes it"
        BAD=1
    fi
}
finish() {
    [ $BAD -eq 0 ] && echo "no violation"
    exit $BAD
}
setup "${1:-}"
cat > "$WORK/unicode-class.md" <<'DOC'
# unicode class

```scrut
$ echo hello
\p{L}+ (regex)
```
DOC
cat > "$WORK/hex-brace.md" <<'DOC'
# code point in braces, with a hex letter

```scrut
$ echo 'x~'
x\x{7e} (regex)
```
DOC
cat > "$WORK/word-start.md" <<'DOC'
# start of word assertion

```scrut
$ echo foo
\b{start}foo (regex)
```
DOC
expect_pass unicode-class.md
expect_pass hex-brace.md
expect_pass word-start.md
finish
