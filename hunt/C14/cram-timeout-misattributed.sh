#!/usr/bin/env bash
# C14: in a Cram document the document timeout is reported on the FIRST test case
# (which finished within milliseconds), the slow one is reported as skipped.
# exit 1 = violation present, 0 = not present
SCRUT=$(readlink -f "${1:?usage: $0 <scrut binary>}")
BASE=${HUNT_BASE:-/tmp/hunt-verif}
D=$(mktemp -d "$BASE/repro-cram.XXXXXX") || exit 2
trap 'rm -rf "$D"' EXIT
export TMPDIR="$D/tmp"; mkdir -p "$TMPDIR"
cat > "$D/slow.t" <<'DOC'
First finishes at once:

  $ echo first
  first

Second is slow:

  $ sleep 5; echo second
  second

Third:

  $ echo third
  third
DOC
cd "$D" || exit 2
"$SCRUT" test -r json --timeout-seconds 1 slow.t > out.json 2> err.txt
echo "exit=$?"
python3 - <<'PY'
import json, sys
outcomes = json.load(open("out.json"))
kinds = []
for o in outcomes:
    expr = o.get("testcase", {}).get("shell_expression", o.get("title"))
    kinds.append(o["result"]["kind"])
    print("  %-25s -> %s" % (expr, o["result"]["kind"]))
bad = False
if kinds[0] == "timeout":
    print("VIOLATION: `echo first` finished within the limit but is reported as timed out")
    bad = True
if kinds[1] != "timeout":
    print("VIOLATION: the slow test case is reported as %s, not as timed out" % kinds[1])
    bad = True
sys.exit(1 if bad else 0)
PY
