#!/usr/bin/env bash
# C14: a test case that ran into its timeout is not aborted: only the top-level
# shell is killed, a subshell (or any other child) of it goes on executing the
# test case after scrut reported the timeout and ended.
# exit 1 = violation present, 0 = not present
SCRUT=$(readlink -f "${1:?usage: $0 <scrut binary>}")
BASE=${HUNT_BASE:-/tmp/hunt-verif}
D=$(mktemp -d "$BASE/repro-sub.XXXXXX") || exit 2
trap 'rm -rf "$D"' EXIT
export TMPDIR="$D/tmp"; mkdir -p "$TMPDIR"
cat > "$D/sub.md" <<'DOC'
# The subshell survives the abort

```scrut {timeout: 1s}
$ (sleep 2; echo late > "$TESTDIR/late.txt")
```
DOC
cd "$D" || exit 2
"$SCRUT" test -r json sub.md > out.json 2> err.txt
echo "exit=$? result=$(python3 -c 'import json; print(json.load(open("out.json"))[0]["result"]["kind"])')"
sleep 2.5
if [ -e "$D/late.txt" ]; then
    echo "VIOLATION: the test case went on after it was reported as timed out (late.txt was written)"
    exit 1
fi
exit 0
