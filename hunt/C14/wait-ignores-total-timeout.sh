#!/usr/bin/env bash
# C14: the `wait` of a test case is not bounded by the document limit.
# exit 1 = violation present, 0 = not present
SCRUT=$(readlink -f "${1:?usage: $0 <scrut binary>}")
BASE=${HUNT_BASE:-/tmp/hunt-verif}
D=$(mktemp -d "$BASE/repro-wait.XXXXXX") || exit 2
trap 'rm -rf "$D"' EXIT
export TMPDIR="$D/tmp"; mkdir -p "$TMPDIR"
cat > "$D/wait.md" <<'DOC'
---
total_timeout: 1s
---

# Wait longer than the document may take

```scrut {wait: 4s}
$ echo hello
hello
```

```scrut
$ echo second
second
```
DOC
cd "$D" || exit 2
start=$(date +%s%N)
"$SCRUT" test -r json wait.md > out.json 2> err.txt
code=$?
end=$(date +%s%N)
ms=$(( (end - start) / 1000000 ))
echo "exit=$code duration=${ms}ms (document limit: 1000ms)"
# the document must be over (and failed) shortly after 1s
if [ "$ms" -ge 3000 ]; then
    echo "VIOLATION: document with total_timeout 1s ran ${ms}ms"
    exit 1
fi
exit 0
