#!/usr/bin/env bash
# C14: a very large limit (document or per test case) makes scrut panic
# ("overflow when adding duration to instant") instead of running the fast command.
# exit 1 = violation present, 0 = not present
SCRUT=$(readlink -f "${1:?usage: $0 <scrut binary>}")
BASE=${HUNT_BASE:-/tmp/hunt-verif}
D=$(mktemp -d "$BASE/repro-huge.XXXXXX") || exit 2
trap 'rm -rf "$D"' EXIT
export TMPDIR="$D/tmp"; mkdir -p "$TMPDIR"
export RUST_BACKTRACE=0
cat > "$D/fast.md" <<'DOC'
# Fast

```scrut
$ echo hello
hello
```
DOC
cat > "$D/fast-per-test.md" <<'DOC'
---
total_timeout: 0s
---

# Fast

```scrut {timeout: 500000000000years}
$ echo hello
hello
```
DOC
printf '  $ echo hello\n  hello\n' > "$D/fast.t"
cd "$D" || exit 2
bad=0
run() {
    "$SCRUT" "$@" > out.txt 2> err.txt
    code=$?
    echo "exit=$code: scrut $*"
    if [ "$code" -ne 0 ]; then
        grep -h "panicked\|overflow" err.txt | head -2
        bad=1
    fi
}
run test -r json --timeout-seconds 18446744073709551615 fast.md
run test -r json fast-per-test.md
run test -r json --timeout-seconds 18446744073709551615 fast.t
[ "$bad" -eq 1 ] && { echo "VIOLATION: a command that finishes within all limits is not reported as passed"; exit 1; }
exit 0
