#!/bin/bash
# usage: malformed-inline-config-ignored.sh /path/to/scrut  -- exits 1 when the violation is present, 0 when not
SCRUT="$(readlink -f "${1:?path of scrut binary}")"
D="$(mktemp -d ${HUNT_BASE:-/tmp/hunt-verif}/repro-tmp.XXXXXX)" || exit 2
trap 'rm -rf "$D"' EXIT
cd "$D" || exit 2
# inline configuration with a missing closing brace / trailing text: must be applied or reported
printf '%s\n' '# Doc' '' '```scrut {output_stream: stderr' '$ echo unexpected >&2' '```' > a.md
printf '%s\n' '# Doc' '' '```scrut {output_stream: stderr} <!-- note -->' '$ echo unexpected >&2' '```' > b.md
# reference: with well-formed configuration the test fails (stderr holds an unexpected line)
printf '%s\n' '# Doc' '' '```scrut {output_stream: stderr}' '$ echo unexpected >&2' '```' > ref.md
"$SCRUT" test ref.md > /dev/null 2>&1; ref=$?
bad=0
for f in a b; do
  "$SCRUT" test $f.md > out.$f 2>&1; rc=$?
  echo "$f.md: exit code $rc (well-formed reference: $ref)"
  if [ "$rc" -eq 0 ] && [ "$ref" -ne 0 ]; then bad=1; fi
done
if [ $bad -eq 1 ]; then echo "VIOLATION: malformed inline configuration silently ignored, test passes"; exit 1; fi
exit 0
