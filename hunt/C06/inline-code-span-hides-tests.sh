#!/bin/bash
# usage: inline-code-span-hides-tests.sh /path/to/scrut  -- exits 1 when the violation is present, 0 when not
SCRUT="$(readlink -f "${1:?path of scrut binary}")"
D="$(mktemp -d ${HUNT_BASE:-/tmp/hunt-verif}/repro-tmp.XXXXXX)" || exit 2
trap 'rm -rf "$D"' EXIT
cd "$D" || exit 2
# a paragraph that starts with an inline code span of four backticks; two failing tests follow
printf '%s\n' '# Doc' '' '```` ``` ```` is how three backticks are written inline.' '' '## One' '' '```scrut' '$ false' '```' '' '## Two' '' '```scrut' '$ false' '```' > t.md
"$SCRUT" test -r json t.md > out.json 2> err.txt; rc=$?
n=$(grep -o '"location"' out.json | wc -l)
echo "exit code $rc, $n test result(s) (2 failing tests were written)"
# violation: scrut succeeds and reports no (or fewer than two) tests
if [ "$rc" -eq 0 ] && [ "$n" -lt 2 ]; then echo "VIOLATION: tests hidden by a prose line"; exit 1; fi
exit 0
