#!/usr/bin/env bash
# Single-script (Cram) execution: an expression that ends in `|` takes the
# divider `echo` of scrut as the rest of its pipeline. Output and exit code of the
# command are lost and the test case is reported as succeeded, although the
# expression prints unexpected output and ends with 7 (on its own it is not even
# a complete command: bash ends with 2).
# usage: cram-trailing-pipe.sh /path/to/scrut ; exit 1 = violation present
SCRUT="${1:?path of scrut binary}"
export RUST_BACKTRACE=0
DIR="$(mktemp -d -p ${HUNT_BASE:-/tmp/hunt-verif} repro.XXXXXX)" || exit 2
trap 'rm -rf "$DIR"' EXIT
cd "$DIR" || exit 2
mkdir "$DIR/tmp" && export TMPDIR="$DIR/tmp" # scrut keeps its own temporary directories in here

cat >pipe.t <<'DOC'
unexpected output and exit code 7, no expectations
  $ sh -c 'echo garbage; exit 7' |

next
  $ echo next
  next
DOC
"$SCRUT" test pipe.t >pipe.out 2>&1
code=$?
if [ $code -eq 0 ] && grep -q "2 succeeded" pipe.out; then
    echo "VIOLATION: reported as succeeded"
    grep "^Result" pipe.out
    exit 1
fi
echo "ok: not reported as succeeded (scrut exit $code)"
exit 0
