#!/usr/bin/env bash
# C19: diff renderer loses the missing line ending of an unexpected output line:
# the hunk removes and adds the same text, the difference is not shown.
# usage: diff-noeol-lost.sh /path/to/scrut ; exit 1 = violation present, 0 = absent
set -u
SCRUT=$(readlink -f "${1:?path of scrut binary}")
WORK=$(mktemp -d ${HUNT_BASE:-/tmp/hunt-verif}/repro-tmp.XXXXXX) || exit 2
trap 'rm -rf "$WORK"' EXIT
export TMPDIR="$WORK"
cd "$WORK" || exit 2

cat > a.md <<'DOC'
# no-eol

```scrut
$ printf 'foo'
foo
```
DOC
"$SCRUT" test -r diff a.md > diff.out 2> diff.err
rc=$?
cat diff.out
[ "$rc" -eq 50 ] || { echo "expected the test to fail validation (exit 50), got $rc"; exit 2; }
removed=$(sed -n '3,$s/^-//p' diff.out)
added=$(sed -n '3,$s/^+//p' diff.out)
if [ -n "$added" ] && [ "$removed" = "$added" ]; then
  echo "VIOLATION: failed test case, but the hunk removes and adds the identical line '$added'"
  exit 1
fi
echo "OK: removed '$removed' / added '$added'"
exit 0
