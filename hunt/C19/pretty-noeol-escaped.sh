#!/usr/bin/env bash
# C19: pretty renderer invents ' (no-eol)' as CONTENT of an unexpected output line
# that lacks its line ending and needs escaping.
# usage: pretty-noeol-escaped.sh /path/to/scrut ; exit 1 = violation present, 0 = absent
set -u
SCRUT=$(readlink -f "${1:?path of scrut binary}")
WORK=$(mktemp -d ${HUNT_BASE:-/tmp/hunt-verif}/repro-tmp.XXXXXX) || exit 2
trap 'rm -rf "$WORK"' EXIT
export TMPDIR="$WORK"
cd "$WORK" || exit 2

# output: the four bytes f o o 0x01, no line ending
cat > a.md <<'DOC'
# no-eol and escaped

```scrut
$ printf 'foo\001'
bar
```
DOC
"$SCRUT" test --no-color -r pretty a.md > pretty.out 2> pretty.err
shown=$(sed -n 's/^ *[0-9][0-9]* *| + //p' pretty.out)
echo "pretty shows the unexpected line as: $shown"
[ -n "$shown" ] || { echo "no '+' line found in the rendering"; cat pretty.out pretty.err; exit 1; }

# oracle: what pretty shows is written in expectation syntax; used as the
# expectation it has to match the very output it was rendered from
{
  printf '# check\n\n```scrut\n$ printf '"'"'foo\\001'"'"'\n'
  printf '%s\n' "$shown"
  printf '```\n'
} > b.md
if "$SCRUT" test --no-color b.md > check.out 2>&1; then
  echo "OK: the shown line denotes the actual output"
  exit 0
fi
echo "VIOLATION: the shown line does not denote the actual output (it claims the content ends in ' (no-eol)')"
exit 1
