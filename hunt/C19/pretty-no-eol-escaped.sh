#!/bin/bash
# C02 / failure report: an unexpected last line without line ending that holds an
# unprintable character is reported with the invented content ` (no-eol)`
# (`\tx\x20(no-eol) (escaped)` stands for the bytes "\tx (no-eol)", the output is "\tx").
# exit 1 = violation present, exit 0 = not present
SCRUT=$(readlink -f "${1:?usage: $0 <scrut-binary>}")
mkdir -p ${HUNT_BASE:-/tmp/hunt-verif}/tmp
D=$(mktemp -d ${HUNT_BASE:-/tmp/hunt-verif}/tmp/pretty.XXXXXX)
trap 'rm -rf "$D"' EXIT
cd "$D" || exit 2

printf '%s\n' '# Doc' '' '## T' '' '```scrut' '$ printf '"'"'a\n\tx'"'"'' 'a' '```' > doc.md
"$SCRUT" test --no-color doc.md > report.txt 2>/dev/null
reported=$(sed -n 's/^ *[0-9]* *| + //p' report.txt | head -1)
if [ -z "$reported" ]; then echo "no unexpected line reported"; cat report.txt; exit 2; fi

# the reported line, read as an expectation, has to match the output line
printf '%s\n' '# Doc' '' '## T' '' '```scrut' '$ printf '"'"'a\n\tx'"'"'' 'a' "$reported" '```' > again.md
if "$SCRUT" test --no-color again.md >/dev/null 2>&1; then
    exit 0
fi
echo "VIOLATION: the failure report shows the output line as '$reported', which does not match that line"
exit 1
