#!/usr/bin/env bash
# C19: diff renderer replaces bytes that are not UTF-8 by U+FFFD (and writes
# control bytes raw): the unexpected output line is not in the rendering, and
# the hunk can remove and add the same text.
# usage: diff-lossy-bytes.sh /path/to/scrut ; exit 1 = violation present, 0 = absent
set -u
SCRUT=$(readlink -f "${1:?path of scrut binary}")
WORK=$(mktemp -d ${HUNT_BASE:-/tmp/hunt-verif}/repro-tmp.XXXXXX) || exit 2
trap 'rm -rf "$WORK"' EXIT
export TMPDIR="$WORK"
cd "$WORK" || exit 2

# output: c a f 0xE9 LF (Latin-1, not UTF-8); expectation: c a f U+FFFD
{
  printf '# lossy\n\n```scrut\n'
  printf '$ printf '"'"'caf\\351\\n'"'"'\n'
  printf 'caf\xef\xbf\xbd\n'
  printf '```\n'
} > a.md
"$SCRUT" test -r diff a.md > diff.out 2> diff.err
rc=$?
cat diff.out
[ "$rc" -eq 50 ] || { echo "expected the test to fail validation (exit 50), got $rc"; exit 2; }
removed=$(sed -n '3,$s/^-//p' diff.out)
added=$(sed -n '3,$s/^+//p' diff.out)
if [ -n "$added" ] && [ "$removed" = "$added" ]; then
  echo "VIOLATION: failed test case, but the hunk removes and adds the identical line"
  exit 1
fi
if ! grep -q 'xe9' diff.out && ! LC_ALL=C grep -q $'\xe9' diff.out; then
  echo "VIOLATION: the byte 0xE9 of the unexpected line is not in the rendering in any form"
  exit 1
fi
echo "OK"
exit 0
