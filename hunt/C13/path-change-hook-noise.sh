#!/bin/bash
# A test case that changes PATH gets the "command not found" messages of
# scrut's own persist hook (mkdir, grep, sed, tail) on its stderr.
. "$(dirname "$0")/_lib.sh"
cat > t.md <<'DOC'
# T

```scrut {output_stream: combined}
$ PATH=/nonexistent; echo hi
hi
```
DOC
"$SCRUT" test t.md > out.txt 2>&1 || violation "stderr of the test case holds $(grep -c 'command not found' out.txt) 'command not found' lines written by scrut's hook"
fine "changing PATH adds nothing to the output"
