#!/bin/bash
# After `set -k` (keyword) every later test case's stdout starts with one
# `declare -x` dump of all exported variables per configured environment variable.
. "$(dirname "$0")/_lib.sh"
cat > t.md <<'DOC'
# T

```scrut
$ set -k
```

```scrut
$ echo hi
hi
```
DOC
"$SCRUT" test t.md > out.txt 2>&1 || violation "stdout of the 2nd test case holds $(grep -c 'declare -x' out.txt) invented 'declare -x' lines"
fine "set -k adds nothing to later outputs"
