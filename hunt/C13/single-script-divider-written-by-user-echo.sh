#!/bin/bash
# the single script writes its dividers with a plain `echo`: after a user's
# function of that name every test case records what THAT writes in place of
# the divider (here a trailing `ECHO:` line).  exit 1 = violation present
. "$(dirname "$0")/_lib.sh"
cat > t.t <<'DOC'
One
  $ echo() { printf 'ECHO:%s\n' "$*"; }

Two
  $ echo two
  ECHO:two
DOC
"$SCRUT" test t.t > out2.txt 2>&1 || violation "cram: divider written by the user's echo"
fine "user functions named like wrapper commands stay out of the wrapper"
