#!/bin/bash
# scrut's per-process wrapper called `trap` / `[` by their plain names after the
# state was read back: a user's function of that name ran instead and wrote
# into the output of every later test case.  exit 1 = violation present
. "$(dirname "$0")/_lib.sh"
cat > t.md <<'DOC'
# T

```scrut
$ trap() { echo "my trap wrapper: $*"; builtin trap "$@"; }
```

```scrut
$ echo two
two
```
DOC
"$SCRUT" test t.md > out1.txt 2>&1 || violation "markdown: trap function called by the template: $(grep -a 'my trap' out1.txt | head -1)"
fine "a user function named trap stays out of the wrapper"
