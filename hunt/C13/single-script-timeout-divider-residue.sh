#!/bin/bash
# Output recorded at a document timeout in single-script execution: a user's
# line that starts like a divider is dropped, and the real divider behind an
# unterminated line is kept.
. "$(dirname "$0")/_lib.sh"
cat > t.t <<'DOC'
One
  $ printf 'first without newline'
  first without newline (no-eol)

Two
  $ echo '~~~~~~~~EXECDIVIDER:: this is my own line'; echo second
  ~~~~~~~~EXECDIVIDER:: this is my own line
  second

Three
  $ echo third; sleep 5
  third
DOC
"$SCRUT" test --timeout-seconds 1 t.t > out.txt 2>&1
bad=""
grep -q 'this is my own line' out.txt || bad="$bad user-line-lost"
grep -Eq 'EXECDIVIDER::[A-Za-z0-9]{20}::[0-9]+::[0-9]+' out.txt && bad="$bad divider-in-output"
[ -n "$bad" ] && violation "$bad"
fine "timeout output holds the commands' bytes only"
