#!/bin/bash
# With a digit of the exit code in IFS the persist hook's unquoted
# `exit $__SCRUT_EXIT_CODE` fails: exit code 2 and an invented stderr line.
. "$(dirname "$0")/_lib.sh"
cat > t.md <<'DOC'
# T

```scrut {output_stream: combined}
$ IFS=0; true
```

```scrut {output_stream: combined}
$ IFS=1; (exit 10)
[10]
```
DOC
"$SCRUT" test t.md > out.txt 2>&1 || violation "$(grep -c 'numeric argument required' out.txt) test case(s) end with 'exit: : numeric argument required' and code 2"
fine "IFS does not change the recorded exit code"
