# common prologue for the repro scripts: source it as `. "$(dirname "$0")/_lib.sh"`
# - $SCRUT : absolute path of the scrut binary given as first argument
# - $D     : a scratch directory below ${HUNT_BASE:-${HUNT_BASE:-/tmp/hunt-verif}}, removed on exit; also TMPDIR
SCRUT=${1:?usage: $0 /path/to/scrut}
SCRUT=$(readlink -f "$SCRUT")
[ -x "$SCRUT" ] || { echo "not executable: $SCRUT" >&2; exit 2; }
D=$(mktemp -d ${HUNT_BASE:-${HUNT_BASE:-/tmp/hunt-verif}}/repro-tmp.XXXXXX) || exit 2
trap 'cd /; rm -rf "$D"' EXIT
mkdir "$D/tmp"
export TMPDIR="$D/tmp"
cd "$D" || exit 2
violation() { echo "VIOLATION: $*"; exit 1; }
fine() { echo "ok: $*"; exit 0; }
