#!/usr/bin/env bash
# C17: a block scalar that is the LAST entry of the YAML front-matter loses its
# final line break (MarkdownParser joins the front-matter lines without a
# terminating newline before handing them to serde_yaml).
#
# usage: frontmatter-final-block-scalar.sh <path-to-scrut>
# exit 1: violation present, exit 0: not present
set -u
SCRUT="${1:?usage: $0 <path-to-scrut>}"
SCRUT="$(cd "$(dirname "$SCRUT")" && pwd)/$(basename "$SCRUT")"
WORK="$(mktemp -d ${HUNT_BASE:-/tmp/hunt-verif}/repro-tmp.XXXXXX)"
trap 'rm -rf "$WORK"' EXIT
mkdir -p "$WORK/tmp"
export TMPDIR="$WORK/tmp"
cd "$WORK"

# This front-matter is byte for byte what
#   serde_yaml::to_string(&DocumentConfig { defaults: TestCaseConfig { environment: {MSG: "hello\n"}, .. }, ..DocumentConfig::default_markdown() })
# renders.  YAML (and serde_yaml::from_str on the same text) reads MSG = "hello\n", 6 characters.
cat > last.md <<'DOC'
---
defaults:
  environment:
    MSG: |
      hello
---

# length of the configured value

```scrut
$ echo "${#MSG}"
6
```
DOC

# control: the very same entry, followed by another key -> always read correctly
cat > notlast.md <<'DOC'
---
defaults:
  environment:
    MSG: |
      hello
total_timeout: 10m
---

# length of the configured value

```scrut
$ echo "${#MSG}"
6
```
DOC

if ! "$SCRUT" test --no-color notlast.md >control.out 2>&1; then
    echo "control document failed, cannot judge:" >&2
    cat control.out >&2
    exit 2
fi

if "$SCRUT" test --no-color last.md >last.out 2>&1; then
    echo "ok: MSG read back as \"hello\\n\" (6 characters)"
    exit 0
else
    echo "VIOLATION: front-matter value \"hello\\n\" was read back without its final newline:"
    cat last.out
    exit 1
fi
