#!/bin/bash
# An inline configuration that is followed by anything (or that is `{}`) is dropped from
# the opening line, together with what follows; the fence length is not kept either.
. "$(dirname "$0")/_lib.sh"
printf '```scrut {timeout: 3s} <!-- slow -->\n$ echo a\nb\n```\n\n````scrut {}\n$ echo a\na\n````\n' > "$TMP/d.md"
update "$TMP/d.md" || { cat "$TMP/log"; exit 2; }
grep -qF '{timeout: 3s}' "$TMP/d.md" || violation "opening line lost its configuration: '$(sed -n 1p "$TMP/d.md")'"
grep -qxF '````scrut {}' "$TMP/d.md" || violation "opening line of the passing block changed: '$(sed -n 6p "$TMP/d.md")'"
echo ok; exit 0
