#!/bin/bash
# A test block that is not closed (extends to the end of the document) gains a closing fence.
. "$(dirname "$0")/_lib.sh"
printf '# t\n\n```scrut\n$ echo a\nb\n' > "$TMP/d.md"
update "$TMP/d.md" || { cat "$TMP/log"; exit 2; }
[ "$(wc -l < "$TMP/d.md")" = 5 ] || violation "document has $(wc -l < "$TMP/d.md") lines instead of 5: last is '$(tail -n 1 "$TMP/d.md")'"
echo ok; exit 0
