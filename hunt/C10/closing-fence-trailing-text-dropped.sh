#!/bin/bash
# Text behind the closing fence of a test block (scrut closes the block at any line
# that starts with the fence) is lost.
. "$(dirname "$0")/_lib.sh"
printf '```scrut\n$ echo a\nb\n``` <!-- end of first test -->\nafter\n' > "$TMP/d.md"
update "$TMP/d.md" || { cat "$TMP/log"; exit 2; }
grep -qF 'end of first test' "$TMP/d.md" || violation "text behind the closing fence is gone: '$(sed -n 4p "$TMP/d.md")'"
echo ok; exit 0
