#!/bin/bash
# A detached test whose first expectation starts with `> ` behind an exit code line:
# after update the expectation has become a part of the shell expression.
. "$(dirname "$0")/_lib.sh"
printf '```scrut {detached: true}\n$ sleep 0\n[0]\n> x\n```\n\n```scrut\n$ echo a\nb\n```\n' > "$TMP/d.md"
update "$TMP/d.md" || { cat "$TMP/log"; exit 2; }
# the line behind the command line must not be a continuation line
[ "$(sed -n 3p "$TMP/d.md")" = '> x' ] && violation "command 'sleep 0' became 'sleep 0\\nx'"
echo ok; exit 0
