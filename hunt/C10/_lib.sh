# sourced by the repro scripts: $1 of the script = scrut binary
SCRUT=${1:?usage: $0 /path/to/scrut}
SCRUT=$(readlink -f "$SCRUT")
TMP=$(mktemp -d ${HUNT_BASE:-${HUNT_BASE:-/tmp/hunt-verif}}/repro-tmp.XXXXXX)
trap 'rm -rf "$TMP"' EXIT
update() { ( cd "$TMP" && "$SCRUT" update --replace --assume-yes "$@" >"$TMP/log" 2>&1 ); }
violation() { echo "VIOLATION: $*"; exit 1; }
