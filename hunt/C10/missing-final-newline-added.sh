#!/bin/bash
# A document whose last line (prose behind the last test) has no line feed gains one.
. "$(dirname "$0")/_lib.sh"
printf '```scrut\n$ echo a\nb\n```\n\nlast line' > "$TMP/d.md"
update "$TMP/d.md" || { cat "$TMP/log"; exit 2; }
[ "$(tail -c 9 "$TMP/d.md")" = "last line" ] && [ "$(tail -c 1 "$TMP/d.md" | od -An -c | tr -d ' ')" = "e" ] || violation "a line feed was added behind the last line"
echo ok; exit 0
