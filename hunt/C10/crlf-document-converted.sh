#!/bin/bash
# A document with CRLF line endings: every line outside of the updated block loses its CR.
. "$(dirname "$0")/_lib.sh"
printf 'title\r\n\r\n```scrut\r\n$ echo a\r\nb\r\n```\r\n\r\nlast\r\n' > "$TMP/d.md"
update "$TMP/d.md" || { cat "$TMP/log"; exit 2; }
head -c 7 "$TMP/d.md" | cmp -s - <(printf 'title\r\n') || violation "prose line 'title\\r\\n' was rewritten as $(head -n 1 "$TMP/d.md" | od -An -c | tr -s ' ')"
echo ok; exit 0
