#!/usr/bin/env bash
# C11: in unicode mode the text written for an output line must not contain
# control, format or unassigned code points. scrut writes unassigned code points
# (U+0378, U+FFFE, U+E0002) and format characters that were added after
# Unicode 8 (U+08E2, U+0890, U+110CD, U+13430) as they are, as `equal` lines.
# usage: unicode-unassigned-and-new-format-raw.sh <scrut binary>; exit 1 = violation present
set -u
SCRUT=$(readlink -f "$1")
WORK=$(mktemp -d ${HUNT_BASE:-/tmp/hunt-verif}/repro-tmp.XXXXXX) || exit 2
trap 'rm -rf "$WORK"' EXIT
cd "$WORK" || exit 2

# one output line per code point: a<cp>b
#   U+0378 cd b8 | U+FFFE ef bf be | U+E0002 f3 a0 80 82        (unassigned / noncharacter)
#   U+08E2 e0 a3 a2 | U+0890 e0 a2 90 | U+110CD f0 91 83 8d | U+13430 f0 93 90 b0  (format, Cf)
CMD='printf '"'"'a\xcd\xb8b\na\xef\xbf\xbeb\na\xf3\xa0\x80\x82b\na\xe0\xa3\xa2b\na\xe0\xa2\x90b\na\xf0\x91\x83\x8db\na\xf0\x93\x90\xb0b\n'"'"
"$SCRUT" create --escaping unicode -o t.md "$CMD" >/dev/null 2>create.err || { cat create.err; exit 2; }

# losslessness is fine (the test passes) ..
"$SCRUT" test t.md >/dev/null 2>&1 || { echo "generated document does not pass"; exit 1; }

# .. but the expectation lines (everything after the `$ ` line) hold the raw code points
found=0
for raw in $'\xcd\xb8' $'\xef\xbf\xbe' $'\xf3\xa0\x80\x82' $'\xe0\xa3\xa2' $'\xe0\xa2\x90' $'\xf0\x91\x83\x8d' $'\xf0\x93\x90\xb0'; do
    if sed '1,/^\$ /d' t.md | LC_ALL=C grep -qF -- "$raw"; then
        printf 'raw code point (bytes %s) in generated expectation\n' "$(printf '%s' "$raw" | od -An -tx1)"
        found=1
    fi
done
[ "$found" = 1 ] && exit 1
exit 0
