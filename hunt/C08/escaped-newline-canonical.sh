#!/bin/bash
# C08: an escaped (or escaped glob) expectation with a line feed byte (`\x0a`) is rendered as `\n`, which the
# escaped kind reads as a backslash and an `n`: the canonical form matches a line that the expectation does not.
# usage: escaped-newline-canonical.sh <path to scrut binary>; exit 1: violation present, exit 0: not present
bin="$(readlink -f "${1:?usage: $0 <scrut binary>}")"
tmp="$(mktemp -d ${HUNT_BASE:-/tmp/hunt-verif}/repro-tmp.XXXXXX)"
trap 'rm -rf "$tmp"' EXIT
cd "$tmp" || exit 2
export RUST_BACKTRACE=0
# the command prints: f o o backslash n, line feed
cat > a.md <<'DOC'
# t

```scrut
$ printf 'foo\\n\n'
foo\x0a (esc)
```
DOC
if "$bin" test a.md > a.out 2>&1; then
    echo "unexpected: 'foo\\x0a (esc)' matches the line 'foo\\n'"; exit 2
fi
# the canonical form of the expectation, as printed in the diff
canonical="$(sed -n 's/^[0-9 ]*| - //p' a.out | head -1)"
[ -n "$canonical" ] || { echo "no rendered expectation found"; cat a.out; exit 2; }
{
    printf '# t\n\n```scrut\n'
    printf '%s\n' "\$ printf 'foo\\\\n\\n'"
    printf '%s\n' "$canonical"
    printf '```\n'
} > b.md
if "$bin" test b.md > b.out 2>&1; then
    echo "VIOLATION: 'foo\\x0a (esc)' does not match the line 'foo\\n', but its canonical form '$canonical' does"
    exit 1
fi
echo "ok: the canonical form '$canonical' does not match either"
exit 0
