#!/bin/bash
# C08: braces that belong to an escape of the documented regex syntax (\p{..} \P{..} \x{..} \u{..} \b{..})
# are taken for misused repetition braces and escaped: `\p{L}+` becomes `\p\{L\}+`, which is a parse error
# for a well-formed regex.
# usage: regex-braced-escapes.sh <path to scrut binary>; exit 1: violation present, exit 0: not present
bin="$(readlink -f "${1:?usage: $0 <scrut binary>}")"
tmp="$(mktemp -d ${HUNT_BASE:-/tmp/hunt-verif}/repro-tmp.XXXXXX)"
trap 'rm -rf "$tmp"' EXIT
cd "$tmp" || exit 2
export RUST_BACKTRACE=0
cat > a.md <<'DOC'
# unicode class

```scrut
$ echo 'hello'
\p{L}+ (re)
```

# code point

```scrut
$ echo 'hello'
\x{68}\u{65}llo (re)
```
DOC
"$bin" test a.md > a.out 2>&1
code=$?
if grep -q "Failed to parse" a.out; then
    echo "VIOLATION: a well-formed regex does not parse:"; grep -A4 "parsing line" a.out
    exit 1
fi
if [ $code -ne 0 ]; then
    echo "VIOLATION: the regex parses, but does not match:"; cat a.out
    exit 1
fi
echo "ok"
exit 0
