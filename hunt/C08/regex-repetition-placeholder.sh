#!/bin/bash
# C08: the regex rule protects `{n}` / `{n,m}` with the textual placeholder `<<<<n>>>>` and restores it with
# the lazy pattern `<<<<(.+?)>>>>`: a regex that contains `<` in front of a repetition, or the placeholder
# text itself, is rewritten (`a<{1}` -> `a{<1}`: parse error; `x<<<<3>>>>` -> `x{3}`: matches `xxx`).
# usage: regex-repetition-placeholder.sh <path to scrut binary>; exit 1: violation present, exit 0: not present
bin="$(readlink -f "${1:?usage: $0 <scrut binary>}")"
tmp="$(mktemp -d ${HUNT_BASE:-/tmp/hunt-verif}/repro-tmp.XXXXXX)"
trap 'rm -rf "$tmp"' EXIT
cd "$tmp" || exit 2
export RUST_BACKTRACE=0
cat > a.md <<'DOC'
# a well-formed regex: `a`, then one `<`

```scrut
$ echo 'a<'
a<{1} (re)
```
DOC
cat > b.md <<'DOC'
# the literal text must not turn into a repetition

```scrut
$ echo 'xxx'
x<<<<3>>>> (re)
```
DOC
violation=0
"$bin" test a.md > a.out 2>&1
if grep -q "Failed to parse" a.out; then
    echo "VIOLATION: the well-formed regex 'a<{1} (re)' does not parse:"; grep -A4 "parsing line" a.out
    violation=1
fi
if "$bin" test b.md > b.out 2>&1; then
    echo "VIOLATION: 'x<<<<3>>>> (re)' is read as 'x{3}' and matches the line 'xxx'"
    violation=1
fi
[ $violation -eq 0 ] && echo "ok"
exit $violation
