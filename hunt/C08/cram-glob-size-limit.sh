#!/bin/bash
# C08: with the Cram glob rule (Cram documents, --cram-compat) a long glob expectation does not parse: the
# pattern is translated into a regex that is compiled with the default size limit of 10 MiB
# (about 400 000 literal characters or 15 000 wildcards).
# usage: cram-glob-size-limit.sh <path to scrut binary>; exit 1: violation present, exit 0: not present
bin="$(readlink -f "${1:?usage: $0 <scrut binary>}")"
tmp="$(mktemp -d ${HUNT_BASE:-/tmp/hunt-verif}/repro-tmp.XXXXXX)"
trap 'rm -rf "$tmp"' EXIT
cd "$tmp" || exit 2
export RUST_BACKTRACE=0
{
    echo "  \$ head -c 20000 /dev/zero | tr '\\0' a; echo"
    printf '  '; head -c 20000 /dev/zero | tr '\0' '?'; echo ' (glob)'
} > a.t
"$bin" test a.t > a.out 2>&1
if grep -q "Failed to parse" a.out; then
    echo "VIOLATION: a glob expectation of 20000 wildcards does not parse:"; grep -A3 "parsing line" a.out | cut -c1-160
    exit 1
fi
echo "ok"
exit 0
