#!/bin/bash
# C08: a glob expectation with a well-formed escaped annotation does not parse when the escape sequences
# give bytes that are not UTF-8 (`\xff* (esc) (glob)`), although `\xff (esc)` is fine and although the glob
# rule compares lossily decoded lines anyway.
# usage: glob-escaped-non-utf8.sh <path to scrut binary>; exit 1: violation present, exit 0: not present
bin="$(readlink -f "${1:?usage: $0 <scrut binary>}")"
tmp="$(mktemp -d ${HUNT_BASE:-/tmp/hunt-verif}/repro-tmp.XXXXXX)"
trap 'rm -rf "$tmp"' EXIT
cd "$tmp" || exit 2
export RUST_BACKTRACE=0
cat > a.md <<'DOC'
# t

```scrut
$ printf '\377abc\n'
\xff* (esc) (glob)
```
DOC
"$bin" test a.md > a.out 2>&1
if grep -q "Failed to parse" a.out; then
    echo "VIOLATION: the glob expectation does not parse:"; grep -A3 "parsing line" a.out
    exit 1
fi
echo "ok"
exit 0
