#!/bin/bash
# C08: a well-formed regex in verbose mode that ends in a comment does not parse, because the comment takes
# the `)$` of the anchoring `^(?:..)$` with it; and the escaped `\#` (the way to write a literal `#` in
# verbose mode) loses its backslash in cleanup_unrecognized_escape_sequences and then starts a comment.
# usage: regex-verbose-comment.sh <path to scrut binary>; exit 1: violation present, exit 0: not present
bin="$(readlink -f "${1:?usage: $0 <scrut binary>}")"
tmp="$(mktemp -d ${HUNT_BASE:-/tmp/hunt-verif}/repro-tmp.XXXXXX)"
trap 'rm -rf "$tmp"' EXIT
cd "$tmp" || exit 2
export RUST_BACKTRACE=0
cat > a.md <<'DOC'
# comment at the end

```scrut
$ echo 'foo'
(?x) f o o # that is foo (re)
```
DOC
cat > b.md <<'DOC'
# escaped number sign

```scrut
$ echo 'a#b'
(?x) a \# b (re)
```
DOC
violation=0
for doc in a b; do
    "$bin" test $doc.md > $doc.out 2>&1
    code=$?
    if grep -q "Failed to parse" $doc.out; then
        echo "VIOLATION ($doc.md): a well-formed regex does not parse:"; grep -A4 "parsing line" $doc.out
        violation=1
    elif [ $code -ne 0 ]; then
        echo "VIOLATION ($doc.md): the regex parses, but does not match:"; cat $doc.out
        violation=1
    fi
done
[ $violation -eq 0 ] && echo "ok"
exit $violation
