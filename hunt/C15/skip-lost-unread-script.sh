#!/bin/bash
# C15: a test case that ends the shell with the skip code (`exit 80`) while more
# than a pipe buffer (64 KiB on Linux) of the generated script is still unread:
# the document is reported as timed out (run fails, exit 50) instead of skipped.
# usage: skip-lost-unread-script.sh <path to scrut binary>
# exit 1: violation present, exit 0: not present
SCRUT=$(readlink -f "${1:?usage: $0 <scrut binary>}")
BASE=${HUNT_BASE:-/tmp/hunt-verif}
mkdir -p "$BASE"
DIR=$(mktemp -d "$BASE/repro.XXXXXX") || exit 2
trap 'rm -rf "$DIR"' EXIT
cd "$DIR" || exit 2

# (a) Cram document (single-script execution): skip in the first test case,
#     followed by 1500 small test cases (36 KB document, ~110 KB script)
{
    printf '  $ exit 80\n\n'
    for i in $(seq 1 1500); do
        printf '  $ echo %05d\n  %05d\n\n' "$i" "$i"
    done
} > long.t

# (b) Markdown document (one shell per test case): one test case of ~80 KB
#     that starts with `exit 80`, and a second test case
{
    printf '# long\n\n```scrut\n$ exit 80\n'
    for i in $(seq 1 1200); do
        printf '> : %05d xxxxxxxxxxxxxxxxxxxxxxxxxxxxxxxxxxxxxxxxxxxxxxxxxxxxxxxxxxxx\n' "$i"
    done
    printf '```\n\n```scrut\n$ echo b\nb\n```\n'
} > long.md

# an unrelated document that passes
printf '# other\n\n```scrut\n$ echo ok\nok\n```\n' > other.md

check() {
    # all test cases of "$1" must be skipped, all of other.md must pass, exit status 0
    "$SCRUT" test -r json --timeout-seconds 60 "$1" other.md > out.json 2> err.txt
    rc=$?
    python3 - "$1" "$rc" <<'PY'
import json, sys
doc, rc = sys.argv[1], int(sys.argv[2])
try:
    outcomes = json.load(open("out.json"))
except Exception as err:
    print("%s: no result (exit status %d): %s" % (doc, rc, err)); sys.exit(1)
kinds = {}
for o in outcomes:
    kinds.setdefault(o.get("location"), []).append(o["result"]["kind"])
mine = kinds.get(doc, [])
other = kinds.get("other.md", [])
bad = [k for k in mine if k != "skipped"]
ok = rc == 0 and mine and not bad and other == ["success"]
print("%s: exit status %d, %d test cases, not skipped: %s, other.md: %s" % (doc, rc, len(mine), sorted(set(bad)), other))
sys.exit(0 if ok else 1)
PY
}

violation=0
check long.t || violation=1
check long.md || violation=1
if [ $violation -eq 1 ]; then
    echo "VIOLATION: a test case exited with the skip code, but the document is not reported as skipped"
    exit 1
fi
echo "ok: documents are skipped"
exit 0
