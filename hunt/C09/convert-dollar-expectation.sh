#!/bin/bash
# C09: `scrut update --convert cram` keeps a Markdown expectation `$ ...` as it is:
# in Cram it starts a second test case (the output text is EXECUTED as a command)
# usage: convert-dollar-expectation.sh <scrut binary>; exit 1 = violation present
SCRUT=$(readlink -f "${1:?path of scrut binary}")
DIR=$(mktemp -d ${HUNT_BASE:-/tmp/hunt-verif}/repro-tmp.XXXXXX) || exit 2
trap 'rm -rf "$DIR"' EXIT
cd "$DIR" || exit 2
cat > a.md <<'DOC'
# Prompt lines

```scrut
$ printf '$ echo INJECTED\nnew\n'
$ echo INJECTED
old
```
DOC
# the test fails (old != new), so there is something to update
"$SCRUT" test a.md >/dev/null 2>&1 && { echo "setup: test unexpectedly passes"; exit 2; }
"$SCRUT" update --convert cram -y a.md >/dev/null 2>&1 || { echo "setup: update failed"; exit 2; }
[ -f a.t ] || { echo "setup: no a.t written"; exit 2; }
if "$SCRUT" test a.t > test.out 2>&1 && grep -q "with 1 testcase(s): 1 succeeded" test.out; then
    echo "ok: converted document has one test case that passes"
    exit 0
fi
echo "VIOLATION: converted document does not pass on the output it was generated from:"
cat a.t
tail -n 3 test.out
exit 1
