#!/bin/bash
# C09: `scrut update --convert` keeps matched glob expectations verbatim, but the
# Markdown glob (wildmatch: no escapes) and the Cram glob (`\*`, `\?`, `\\` are
# escapes) are two dialects: the kept line no longer matches the same output
# usage: convert-glob-dialect.sh <scrut binary>; exit 1 = violation present
SCRUT=$(readlink -f "${1:?path of scrut binary}")
DIR=$(mktemp -d ${HUNT_BASE:-/tmp/hunt-verif}/repro-tmp.XXXXXX) || exit 2
trap 'rm -rf "$DIR"' EXIT
cd "$DIR" || exit 2
bad=0

# Markdown -> Cram: `\\` is two backslashes in Markdown, one in Cram
cat > a.md <<'DOC'
# Glob

```scrut
$ printf 'C:\\\\dir\\\\file.txt\nnew\n'
C:\\dir\\* (glob)
old
```
DOC
"$SCRUT" test a.md >/dev/null 2>&1 && { echo "setup: a.md unexpectedly passes"; exit 2; }
"$SCRUT" update --convert cram -y a.md >/dev/null 2>&1 || { echo "setup: update a.md failed"; exit 2; }
if ! "$SCRUT" test a.t > a.out 2>&1; then
    echo "VIOLATION (markdown -> cram):"; cat a.t; tail -n 8 a.out; bad=1
fi

# Cram -> Markdown: `\*` is a literal star in Cram, backslash + wildcard in Markdown
cat > b.t <<'DOC'
Glob
  $ printf '2 * 3 = 6\nnew\n'
  2 \* 3 = ? (glob)
  old
DOC
"$SCRUT" test b.t >/dev/null 2>&1 && { echo "setup: b.t unexpectedly passes"; exit 2; }
"$SCRUT" update --convert markdown -y b.t >/dev/null 2>&1 || { echo "setup: update b.t failed"; exit 2; }
if ! "$SCRUT" test b.md > b.out 2>&1; then
    echo "VIOLATION (cram -> markdown):"; cat b.md; tail -n 8 b.out; bad=1
fi
[ $bad = 0 ] && echo "ok: converted documents pass"
exit $bad
