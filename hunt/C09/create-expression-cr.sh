#!/bin/bash
# C09: a shell expression with a CR in front of a line feed (or at its end) is
# written as it is; test documents are read with CRLF -> LF, so the test that is
# parsed back has a different shell expression and fails on the recorded output
# usage: create-expression-cr.sh <scrut binary>; exit 1 = violation present
SCRUT=$(readlink -f "${1:?path of scrut binary}")
DIR=$(mktemp -d ${HUNT_BASE:-/tmp/hunt-verif}/repro-tmp.XXXXXX) || exit 2
trap 'rm -rf "$DIR"' EXIT
cd "$DIR" || exit 2
EXPRESSION=$(printf 'echo "a\r\nb" | od -c | head -2')
"$SCRUT" create -o a.md -- "$EXPRESSION" >/dev/null 2>&1 || { echo "setup: create failed"; exit 2; }
if "$SCRUT" test a.md > a.out 2>&1; then
    echo "ok: created test passes"
    exit 0
fi
echo "VIOLATION: created test fails on the output it was created from:"
cat -A a.md
tail -n 10 a.out
exit 1
