#!/usr/bin/env python3
"""tools/merge_ws.py <workspace-verif-dir> <base-commit>: bring a sub-agent's scratch copy of /verif back.
Files the workspace changed relative to <base-commit> are copied when /verif did not change them since,
and merged with diff3 otherwise (conflicts are reported and left marked)."""
import os, subprocess, sys, shutil, tempfile
ws, base = sys.argv[1].rstrip('/'), sys.argv[2]
SKIP = ('.git/', 'lean/.lake/', 'harness/target/', '.build/', 'evidence/', 'replays/', 'MANIFEST.json', 'seeded/RESULTS.json', '__pycache__/')
def base_blob(rel):
    r = subprocess.run(['git', '-C', '/verif', 'show', f'{base}:{rel}'], capture_output=True)
    return r.stdout if r.returncode == 0 else None
for root, dirs, files in os.walk(ws):
    for f in files:
        p = os.path.join(root, f); rel = os.path.relpath(p, ws)
        if any(rel.startswith(s) or ('/' + s) in ('/' + rel) for s in SKIP): continue
        new = open(p, 'rb').read(); b = base_blob(rel)
        if rel == 'harness/Cargo.toml':  # the workspace points the path dependency at its own copy of the repository
            new = new.replace(ws.rsplit('/', 1)[0].encode() + b'/repo', b'/repo')
        if b == new: continue
        cur_p = os.path.join('/verif', rel)
        cur = open(cur_p, 'rb').read() if os.path.exists(cur_p) else None
        if cur == new: continue
        if cur is None or cur == b:
            os.makedirs(os.path.dirname(cur_p), exist_ok=True); open(cur_p, 'wb').write(new); print('copied ', rel); continue
        if b is None:
            print('BOTH-NEW', rel); continue
        with tempfile.NamedTemporaryFile(delete=False) as t: t.write(b)
        r = subprocess.run(['diff3', '-m', cur_p, t.name, p], capture_output=True)
        os.unlink(t.name)
        open(cur_p, 'wb').write(r.stdout)
        print('merged ' if r.returncode == 0 else 'CONFLICT', rel)
