#!/bin/bash
# tools/coverage.sh [props...]: which lines of /repo/src do the quick-tier correspondence/oracle runs execute?
# Builds the harness and /repo's binary with -C instrument-coverage (nightly toolchain, llvm-tools) into a
# scratch directory outside /repo and /verif, runs the harness streams of every property, merges the profiles and
# writes tools/COVERAGE.md (per file: lines, covered, %; and the uncovered functions). Not part of any registered
# check; a measurement of the tie between model/oracles and code (a line the harness never runs cannot be tied).
set -e
VERIF="$(cd "$(dirname "$0")/.." && pwd)"
S=${COV_SCRATCH:-/tmp/scrut-cov}
PROPS=${@:-C01 C04 C05 C06 C07 C08 C09 C10 C11 C12 C13 C14 C16 C17 C18 C19 C20}
BIN=$(rustc +nightly --print sysroot)/lib/rustlib/x86_64-unknown-linux-gnu/bin
export CARGO_NET_OFFLINE=true RUSTFLAGS="-C instrument-coverage"
rm -rf "$S/prof"; mkdir -p "$S/prof" "$S/tmp" "$S/buildprof"
export LLVM_PROFILE_FILE="$S/buildprof/b-%p-%8m.profraw"   # build scripts and proc macros are instrumented too: keep their profiles out of the source trees
(cd "$VERIF/harness" && cargo +nightly build --offline --target-dir "$S/target" 2>&1 | tail -1)
cargo +nightly build --offline --bin scrut --manifest-path /repo/Cargo.toml --target-dir "$S/target-bin" 2>&1 | tail -1
(cd "$VERIF/lean" && lake build driver >/dev/null)
for p in $PROPS; do
  LLVM_PROFILE_FILE="$S/prof/$p-%p-%8m.profraw" SCRUT_BIN="$S/target-bin/debug/scrut" TMPDIR="$S/tmp" VERIF_DIR="$VERIF" \
    "$S/target/debug/scrut-verif-harness" $p --tier quick --seed 1 --out "$S/rep-$p.json" --driver "$VERIF/lean/.lake/build/bin/driver" >/dev/null 2>&1 || echo "harness $p rc=$?"
done
"$BIN/llvm-profdata" merge -sparse "$S"/prof/*.profraw -o "$S/all.profdata"
"$BIN/llvm-cov" export -format=lcov -instr-profile "$S/all.profdata" "$S/target/debug/scrut-verif-harness" -object "$S/target-bin/debug/scrut" \
   --ignore-filename-regex='(\.cargo|rustc|harness/src|/verif/)' > "$S/all.lcov" 2>/dev/null
python3 "$VERIF/tools/lcov_report.py" "$S/all.lcov" > "$VERIF/tools/COVERAGE.md"
echo "written tools/COVERAGE.md"; head -60 "$VERIF/tools/COVERAGE.md"
