#!/usr/bin/env python3
"""Prints the seeded-changes table of DESIGN.md §12.5 from seeded/*/meta.json and seeded/RESULTS.json."""
import json, os
root = os.path.join(os.path.dirname(os.path.abspath(__file__)), "..", "seeded")
res = json.load(open(os.path.join(root, "RESULTS.json")))
print("| seeded change | needs, to manifest | oracle class(es) that report it | failing input |")
print("|---|---|---|---|")
for d in sorted(os.listdir(root)):
    m = os.path.join(root, d, "meta.json")
    if not os.path.exists(m):
        continue
    meta = json.load(open(m))
    r = res.get(d, {})
    if r.get("superseded"):
        cls, inp = "(superseded by a fix, see meta.json)", "—"
    elif not r.get("applied", False):
        cls, inp = "(patch does not apply)", "—"
    elif not r.get("caught"):
        cls, inp = "**MISSED**", "no"
    else:
        cls = ", ".join("`%s`" % c for c in r.get("failing_classes", [])) or "(correspondence only)"
        inp = "yes" if r.get("with_failing_input") else "no-failing-input-found"
    print("| %s | %s | %s | %s |" % (d, meta.get("needs_to_manifest", "").replace("|", "\\|"), cls, inp))
