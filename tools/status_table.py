#!/usr/bin/env python3
"""Prints the status table of DESIGN.md §12.6 from evidence/*.json, known_findings.txt and props_table.py."""
import json, os, sys
root = os.path.join(os.path.dirname(os.path.abspath(__file__)), "..")
sys.path.insert(0, root)
from props_table import PROPS, MANIFEST_TEXT
open_classes = {}
for line in open(os.path.join(root, "known_findings.txt")):
    line = line.strip()
    if line.startswith("{"):
        e = json.loads(line)
        if e.get("status") == "open":
            open_classes.setdefault(e["property"], []).append(e["class"].split(":", 1)[1])
print("| prop | theorems | quick-tier cases | exhaustive streams | claim | open findings |")
print("|---|---|---|---|---|---|")
for pid in sorted(PROPS):
    ev = json.load(open(os.path.join(root, "evidence", pid + ".json")))
    c = ev["coverage"]
    streams = c.get("streams", {})
    nex = sum(1 for s in streams.values() if s.get("exhaustive"))
    partial = MANIFEST_TEXT[pid]["text"].lstrip().upper().startswith("PARTIAL")
    print("| %s | %d | %s | %d/%d | %s | %s |" % (pid, c["obligations"], format(c["evaluations"], ","), nex, len(streams), "partial" if partial else "full", ", ".join(open_classes.get(pid, [])) or "—"))
