#!/bin/sh
# Build the framework offline from files on disk: Lean model + proofs + driver, Rust harness, /repo's binary.
set -e
cd "$(dirname "$0")"
export CARGO_NET_OFFLINE=true
mkdir -p .build evidence
(cd lean && lake build ScrutModel driver)
(cd harness && cargo build --offline)
cargo build --offline --bin scrut --manifest-path /repo/Cargo.toml --target-dir .build/repo-target
