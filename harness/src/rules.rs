//! C04 (pattern kinds): `glob` (wildmatch), the Cram-compat glob (anchored regex) and `regex`
//! (`^(?:e)$` wrap) — the real rules, reached through `ExpectationMaker::parse`, against the Lean
//! model (`Model/Glob.lean`, `Model/RegexWrap.lean`), plus direct oracles that do not involve the
//! model: reference wildcard matchers written from the documentation, and for `regex` the `regex`
//! crate itself compiled as `\A(?:e)\z`.
use crate::common::*;
use scrut::expectation::{Expectation, ExpectationMaker};
use scrut::rules::glob_cram::CramGlobRule;
use scrut::rules::registry::RuleRegistry;
use scrut::rules::rule::RuleMaker;

fn keep(prop: &str, fails: Vec<(String, String)>) -> Vec<(String, String)> {
    fails.into_iter().filter(|(c, _)| c.starts_with(prop)).collect()
}

/// the registry `scrut test` uses by default
fn default_maker() -> ExpectationMaker {
    ExpectationMaker::new(RuleRegistry::default())
}

/// the registry of `--cram-compat` / `.t` files: `src/bin/utils/file_parser.rs::make_expectation_maker(true)`
/// (that function is private to the binary; this is the same two statements)
fn cram_maker() -> ExpectationMaker {
    let mut registry = RuleRegistry::default();
    registry.register(CramGlobRule::make, &["glob", "gl"]);
    ExpectationMaker::new(registry)
}

/// all words over `alpha` of length `0..=maxlen`, by length, then lexicographically (first
/// character most significant) — the same order as `Driver.wordsUpTo`
fn words(alpha: &[char], maxlen: usize) -> Vec<String> {
    let mut out = vec![];
    let k = alpha.len();
    for len in 0..=maxlen {
        let total = k.pow(len as u32);
        for idx in 0..total {
            let mut s: Vec<char> = vec![' '; len];
            let mut r = idx;
            for pos in (0..len).rev() {
                s[pos] = alpha[r % k];
                r /= k;
            }
            out.push(s.into_iter().collect());
        }
    }
    out
}
fn n_words(k: usize, maxlen: usize) -> u64 {
    (0..=maxlen).map(|l| (k as u64).pow(l as u32)).sum()
}
fn word_at(alpha: &[char], mut idx: u64) -> String {
    let k = alpha.len() as u64;
    let mut len = 0u32;
    while idx >= k.pow(len) {
        idx -= k.pow(len);
        len += 1;
    }
    let mut s = vec![' '; len as usize];
    for pos in (0..len as usize).rev() {
        s[pos] = alpha[(idx % k) as usize];
        idx /= k;
    }
    s.into_iter().collect()
}

// ---------------------------------------------------------------- reference matchers (oracle)

/// documentation: "`?` matches exactly one character, `*` any run of characters", whole line
fn ref_glob(p: &[char], s: &[char]) -> bool {
    // m[i][j]: p[i..] matches s[j..]
    let (n, l) = (p.len(), s.len());
    let mut m = vec![vec![false; l + 1]; n + 1];
    m[n][l] = true;
    for i in (0..n).rev() {
        for j in (0..=l).rev() {
            m[i][j] = match p[i] {
                '*' => m[i + 1][j] || (j < l && m[i][j + 1]),
                '?' => j < l && m[i + 1][j + 1],
                c => j < l && s[j] == c && m[i + 1][j + 1],
            };
        }
    }
    m[0][0]
}

#[derive(Clone, Copy, PartialEq)]
enum GT {
    Lit(char),
    One,
    Many,
}
/// Cram's glob: additionally `\*`, `\?`, `\\` stand for the literal character
fn ref_cram(p: &[char], s: &[char]) -> bool {
    let mut toks = vec![];
    let mut i = 0;
    while i < p.len() {
        if p[i] == '\\' && i + 1 < p.len() && matches!(p[i + 1], '*' | '?' | '\\') {
            toks.push(GT::Lit(p[i + 1]));
            i += 2;
            continue;
        }
        toks.push(match p[i] {
            '*' => GT::Many,
            '?' => GT::One,
            c => GT::Lit(c),
        });
        i += 1;
    }
    let (n, l) = (toks.len(), s.len());
    let mut m = vec![vec![false; l + 1]; n + 1];
    m[n][l] = true;
    for i in (0..n).rev() {
        for j in (0..=l).rev() {
            m[i][j] = match toks[i] {
                GT::Many => m[i + 1][j] || (j < l && m[i][j + 1]),
                GT::One => j < l && m[i + 1][j + 1],
                GT::Lit(c) => j < l && s[j] == c && m[i + 1][j + 1],
            };
        }
    }
    m[0][0]
}

/// "final newline ignored"
fn drop_final_newline(s: &str) -> &str {
    s.strip_suffix('\n').unwrap_or(s)
}

// ---------------------------------------------------------------- glob

fn alpha_str(a: &[char]) -> String {
    hex(a.iter().collect::<String>().as_bytes())
}

/// one pattern against the whole enumeration of lines
fn glob_case(prop: &str, mk: &ExpectationMaker, cram: bool, pat: &str, line_alpha: &[char], maxlen: usize, nl: usize, lines: &[String], tag: &str) -> CaseRec {
    let opname = if cram { "cglob" } else { "glob" };
    let op = format!("{} {} {} {} {}", opname, hex(pat.as_bytes()), alpha_str(line_alpha), maxlen, nl);
    let parsed: Result<anyhow::Result<Expectation>, String> = guarded(|| mk.parse(&format!("{pat} (glob)")));
    let mut fails = vec![];
    let mut tags = vec![format!("{opname}:{tag}")];
    let pchars: Vec<char> = pat.chars().collect();
    let impl_out = match parsed {
        Err(_) => "crash".to_string(),
        Ok(Err(_)) => "parse-error".to_string(),
        Ok(Ok(exp)) => {
            let mut bits = String::with_capacity(lines.len());
            let suffix = "\n".repeat(nl);
            let (mut yes, mut no) = (0u64, 0u64);
            let mut crashed = false;
            for l in lines {
                let full = format!("{l}{suffix}");
                match guarded(|| exp.matches(full.as_bytes())) {
                    Ok(b) => {
                        bits.push(if b { '1' } else { '0' });
                        if b { yes += 1 } else { no += 1 }
                        if nl <= 1 {
                            // a line as `split_at_newline` produces it: the documented meaning applies
                            let s: Vec<char> = drop_final_newline(&full).chars().collect();
                            let doc = ref_glob(&pchars, &s);
                            if cram {
                                let want = ref_cram(&pchars, &s);
                                if want != b && fails.len() < 3 {
                                    let cl = if pat.contains('\\') { "C04:cram-glob-escape-mismatch" } else { "C04:cram-glob-doc-mismatch" };
                                    fails.push((cl.to_string(), format!("cram glob `{pat}` on line {:?}: rule says {b}, documented meaning {want}", full)));
                                }
                            } else if doc != b && fails.len() < 3 {
                                fails.push(("C04:glob-doc-mismatch".to_string(), format!("glob `{pat}` on line {:?}: rule says {b}, documented meaning {doc}", full)));
                            }
                        }
                    }
                    Err(_) => {
                        bits.push('!');
                        crashed = true;
                    }
                }
            }
            if crashed {
                fails.push(("C04:glob-crash".into(), format!("glob `{pat}`: matches panicked")));
            }
            tags.push(format!("{opname}:matching-lines={}", bucket(yes)));
            tags.push(format!("{opname}:stars={} qmarks={}", pat.matches('*').count().min(3), pat.matches('?').count().min(3)));
            let _ = no;
            if cram {
                bits
            } else {
                let (kind, expr) = exp.rule.unmake();
                if kind != "glob" {
                    fails.push(("C04:glob-kind".into(), format!("`{pat} (glob)` parsed as kind {kind}")));
                }
                format!("{bits} u={}", hex(&expr))
            }
        }
    };
    let nontrivial = impl_out.contains('1') && impl_out.contains('0') && (pat.contains('*') || pat.contains('?'));
    CaseRec { op, impl_out, oracle_fail: keep(prop, fails), nontrivial, tags }
}

fn bucket(n: u64) -> &'static str {
    match n {
        0 => "0",
        1 => "1",
        2..=9 => "2-9",
        10..=99 => "10-99",
        _ => "100+",
    }
}

/// one (pattern, line) pair with arbitrary (valid UTF-8) text, both glob rules at once
fn glob_line_case(prop: &str, dmk: &ExpectationMaker, cmk: &ExpectationMaker, pat: &str, line: &str) -> CaseRec {
    let op = format!("globl {} {}", hex(pat.as_bytes()), hex(line.as_bytes()));
    let mut fails = vec![];
    let pchars: Vec<char> = pat.chars().collect();
    let is_line = !drop_final_newline(line).contains('\n');
    let s: Vec<char> = drop_final_newline(line).chars().collect();
    let one = |mk: &ExpectationMaker| -> String {
        match guarded(|| mk.parse(&format!("{pat} (glob)")).map(|e| e.matches(line.as_bytes()))) {
            Err(_) => "crash".into(),
            Ok(Err(_)) => "parse-error".into(),
            Ok(Ok(b)) => (if b { "1" } else { "0" }).into(),
        }
    };
    let g = one(dmk);
    let c = one(cmk);
    if is_line {
        let want = if ref_glob(&pchars, &s) { "1" } else { "0" };
        if g != want {
            fails.push(("C04:glob-doc-mismatch".to_string(), format!("glob {:?} on line {:?}: rule says {g}, documented meaning {want}", pat, line)));
        }
        let wantc = if ref_cram(&pchars, &s) { "1" } else { "0" };
        if c != wantc {
            let cl = if pat.contains('\\') { "C04:cram-glob-escape-mismatch" } else { "C04:cram-glob-doc-mismatch" };
            fails.push((cl.to_string(), format!("cram glob {:?} on line {:?}: rule says {c}, documented meaning {wantc}", pat, line)));
        }
    }
    let tags = vec![format!("globl:glob={g} cram={c}"), format!("globl:non-ascii={}", !pat.is_ascii() || !line.is_ascii())];
    CaseRec { op, impl_out: format!("g={g} w={g} c={c}"), oracle_fail: keep(prop, fails), nontrivial: (pat.contains('*') || pat.contains('?')) && (g == "1" || c == "1"), tags }
}

const POOL: [char; 16] = ['a', 'b', 'c', '*', '?', '\\', 'é', '日', '😀', '.', '[', ']', ' ', '-', 'A', '\u{301}'];

fn random_glob_pair(rng: &mut Rng) -> (String, String) {
    // a line, then a pattern derived from it by generalising pieces (so that matches are frequent),
    // then optionally perturbed
    let n = rng.range(0, 8);
    let line: Vec<char> = (0..n).map(|_| *rng.pick(&POOL)).collect();
    let mut pat = String::new();
    let mut i = 0;
    while i < line.len() {
        match rng.below(8) {
            0 => {
                pat.push('*');
                i += rng.range(0, 3);
            }
            1 => {
                pat.push('?');
                i += 1;
            }
            2 if matches!(line[i], '*' | '?' | '\\') => {
                pat.push('\\');
                pat.push(line[i]);
                i += 1;
            }
            3 => {
                pat.push(*rng.pick(&POOL));
                i += 1;
            }
            _ => {
                pat.push(line[i]);
                i += 1;
            }
        }
    }
    if rng.chance(1, 6) {
        pat.push('*');
    }
    if rng.chance(1, 10) {
        pat.push(*rng.pick(&POOL));
    }
    // `parse` trims nothing, but an expression ending in ` (esc)` would be decoded: never generated (no parentheses in POOL)
    let mut l: String = line.into_iter().collect();
    match rng.below(4) {
        0 => {}
        1 | 2 => l.push('\n'),
        _ => l.push_str("\n\n"),
    }
    (pat, l)
}

// ---------------------------------------------------------------- regex fragment

#[derive(Clone, Debug, PartialEq)]
enum Re {
    Chr(char),
    Any,
    Eps,
    Seq(Box<Re>, Box<Re>),
    Alt(Box<Re>, Box<Re>),
    Star(Box<Re>),
    Group(Box<Re>),
    Bol,
    Eol,
}
impl Re {
    fn polish(&self, out: &mut String) {
        match self {
            Re::Chr(c) => out.push(*c),
            Re::Any => out.push('.'),
            Re::Eps => out.push('e'),
            Re::Seq(a, b) => {
                out.push(';');
                a.polish(out);
                b.polish(out);
            }
            Re::Alt(a, b) => {
                out.push('|');
                a.polish(out);
                b.polish(out);
            }
            Re::Star(a) => {
                out.push('*');
                a.polish(out);
            }
            Re::Group(a) => {
                out.push('(');
                a.polish(out);
            }
            Re::Bol => out.push('^'),
            Re::Eol => out.push('$'),
        }
    }
}

/// (text, ast, has-anchor) of every expression with exactly `n` nodes, by syntactic level, so that
/// the printed text parses back to exactly this AST under the regex grammar's precedence:
/// atom < item (atom or atom*) < concatenation < alternation
#[derive(Clone)]
struct Ex {
    text: String,
    ast: Re,
}
struct Gen {
    atom: Vec<Vec<Ex>>,
    item: Vec<Vec<Ex>>,
    concat: Vec<Vec<Ex>>,
    /// alternations with 1, 2, 3 alternatives
    alt: Vec<Vec<Ex>>,
}
fn gen(max: usize, with_anchors: bool) -> Gen {
    let mut g = Gen { atom: vec![vec![]], item: vec![vec![]], concat: vec![vec![]], alt: vec![vec![]] };
    // size 0: the empty concatenation counts as one node (`eps`), see below
    for n in 1..=max {
        // atoms
        let mut atoms = vec![];
        if n == 1 {
            atoms.push(Ex { text: "a".into(), ast: Re::Chr('a') });
            atoms.push(Ex { text: "b".into(), ast: Re::Chr('b') });
            atoms.push(Ex { text: ".".into(), ast: Re::Any });
            if with_anchors {
                atoms.push(Ex { text: "^".into(), ast: Re::Bol });
                atoms.push(Ex { text: "$".into(), ast: Re::Eol });
            }
        } else {
            for e in &g.alt[n - 1] {
                atoms.push(Ex { text: format!("(?:{})", e.text), ast: Re::Group(Box::new(e.ast.clone())) });
            }
        }
        // items
        let mut items = atoms.clone();
        if n >= 2 {
            for e in &g.atom[n - 1] {
                if e.ast != Re::Bol && e.ast != Re::Eol {
                    items.push(Ex { text: format!("{}*", e.text), ast: Re::Star(Box::new(e.ast.clone())) });
                }
            }
        }
        g.atom.push(atoms);
        g.item.push(items);
        // concatenations: eps (1 node), a single item, or item · concat (1 node for the seq)
        let mut concats = vec![];
        if n == 1 {
            concats.push(Ex { text: String::new(), ast: Re::Eps });
        }
        concats.extend(g.item[n].iter().cloned());
        for k in 1..n.saturating_sub(1) {
            let rest = n - 1 - k;
            for a in &g.item[k] {
                for b in &g.concat[rest] {
                    if b.ast == Re::Eps {
                        continue; // `x` followed by nothing prints like `x`
                    }
                    concats.push(Ex { text: format!("{}{}", a.text, b.text), ast: Re::Seq(Box::new(a.ast.clone()), Box::new(b.ast.clone())) });
                }
            }
        }
        g.concat.push(concats);
        // alternations: 1..=3 alternatives, right nested
        let mut alts: Vec<Ex> = g.concat[n].clone();
        for k in 1..n.saturating_sub(1) {
            let rest = n - 1 - k;
            for a in &g.concat[k] {
                for b in &g.concat[rest] {
                    alts.push(Ex { text: format!("{}|{}", a.text, b.text), ast: Re::Alt(Box::new(a.ast.clone()), Box::new(b.ast.clone())) });
                }
            }
        }
        for k1 in 1..n {
            for k2 in 1..n {
                if k1 + k2 + 2 >= n {
                    continue;
                }
                let k3 = n - 2 - k1 - k2;
                for a in &g.concat[k1] {
                    for b in &g.concat[k2] {
                        for c in &g.concat[k3] {
                            alts.push(Ex {
                                text: format!("{}|{}|{}", a.text, b.text, c.text),
                                ast: Re::Alt(Box::new(a.ast.clone()), Box::new(Re::Alt(Box::new(b.ast.clone()), Box::new(c.ast.clone())))),
                            });
                        }
                    }
                }
            }
        }
        g.alt.push(alts);
    }
    g
}

/// `\A(?:e)\z` compiled by the regex crate itself: the documented meaning of "the whole line matches e"
/// the expression has to be a regular expression by itself (`)(` is none, although `\A(?:)()\z` compiles)
fn whole_line_oracle(expr: &str) -> Option<regex::bytes::Regex> {
    regex::bytes::Regex::new(expr).ok()?;
    regex::bytes::Regex::new(&format!(r"\A(?:{})\z", expr)).ok()
}

struct RegexEval {
    impl_bits: String,
    cleaned: String,
    fails: Vec<(String, String)>,
    tags: Vec<String>,
}

/// The two open findings about the clean-up passes have known root causes, and only expressions that can reach
/// them keep the finding's class: a `]` that another `]` follows (escape_misused_character_class) or a `<<<<` written
/// by the user (the restore pass of escape_misused_repetition_quantifier). A change of meaning of any other
/// expression is a different violation and gets a class of its own.
fn cleanup_class(base: &str, text: &str) -> String {
    // (the restore pass also bites when a `<` of the user's stands directly in front of a protected quantifier:
    // `<{1}` is protected as `<<<<<1>>>>`, in which the first four `<` are taken for the opening of the placeholder)
    let known_root_cause = text.matches(']').count() >= 2 || text.contains("<<<<") || text.contains("<{") || text.contains("}>");
    if known_root_cause { base.to_string() } else { format!("{base}-elsewhere") }
}

/// the real `regex` rule for `text` on `lines` (complete byte strings incl. newlines), and the oracle
fn regex_eval(mk: &ExpectationMaker, text: &str, lines: &[Vec<u8>]) -> Result<RegexEval, String> {
    let exp = match guarded(|| mk.parse(&format!("{text} (regex)"))) {
        Err(_) => return Err("crash".into()),
        Ok(Err(_)) => return Err("parse-error".into()),
        Ok(Ok(e)) => e,
    };
    let (kind, expr) = exp.rule.unmake();
    let cleaned = String::from_utf8_lossy(&expr).to_string();
    let mut fails = vec![];
    let mut tags = vec![];
    if kind != "regex" {
        fails.push(("C04:regex-kind".to_string(), format!("`{text} (regex)` parsed as kind {kind} with expression {cleaned:?}")));
        return Ok(RegexEval { impl_bits: "kind".into(), cleaned, fails, tags });
    }
    // `plain` of Lemmas/RegexCleanup.lean (without backslash the pair condition is void): C04_cleanup_identity
    let plain = !text.contains(['\\', '{', '}', '[', ']']) && !text.contains("<<<<");
    if plain && cleaned != text {
        fails.push(("C04:regex-cleanup-altered-plain-expression".to_string(), format!("{text:?} became {cleaned:?}")));
    }
    tags.push(format!("regex:cleanup-changed-text={}", cleaned != text));
    // what is compiled has to be a regular expression by itself: inside the anchoring group unbalanced parentheses
    // would otherwise change what is anchored (`a)|(b` as `^(?:a)|(b)$` matches every line that starts with a)
    if regex::bytes::Regex::new(&cleaned).is_err() {
        fails.push(("C04:regex-invalid-expression-accepted".to_string(), format!("`{text} (regex)` is accepted although {cleaned:?} is no regular expression")));
    }
    let oracle = whole_line_oracle(&cleaned);
    let orig = if cleaned != text { whole_line_oracle(text) } else { None };
    if oracle.is_none() {
        tags.push("regex:oracle-does-not-compile".into());
    }
    let mut bits = String::new();
    let mut cleanup_fails = 0;
    for l in lines {
        let b = match guarded(|| exp.matches(l)) {
            Ok(b) => b,
            Err(_) => {
                bits.push('!');
                fails.push(("C04:regex-crash".into(), format!("{text:?} on {:?}", String::from_utf8_lossy(l))));
                continue;
            }
        };
        bits.push(if b { '1' } else { '0' });
        let nl = l.iter().rev().take_while(|c| **c == b'\n').count();
        if nl > 1 {
            continue; // not a line of `split_at_newline`
        }
        let body = &l[..l.len() - nl];
        if let Some(o) = &oracle {
            let want = o.is_match(body);
            if want != b && fails.len() < 3 {
                let how = if b { "matches although the whole line does not" } else { "does not match although the whole line does" };
                fails.push(("C04:regex-not-whole-line".to_string(), format!("regex {cleaned:?} (written {text:?}) on line {:?}: rule {how}", String::from_utf8_lossy(l))));
            }
        }
        if let Some(o) = &orig {
            // the expression as written is itself a valid regex, and the clean-up changed its text
            let want = o.is_match(body);
            if want != b {
                tags.push("regex:cleanup-changed-meaning-of-valid-regex".into());
                if text.contains("\\<") || text.contains("\\>") {
                    // deliberate (unit test `foo\<bar\>` -> `foo<bar>`): Python/Cram reads `\<` as a literal `<`,
                    // the regex crate (>= 1.10) as a word-start assertion. Recorded, not failed.
                    tags.push("regex:cleanup-literalises-word-boundary-escape".into());
                } else if cleaned.matches("\\[").count() > text.matches("\\[").count() {
                    // deliberate (documented misuse case 3 of escape_misused_character_class, unit test
                    // `f[[]]o`): a `[` inside a class is read as a literal, the regex crate reads a nested class
                    tags.push("regex:cleanup-nested-bracket-as-literal".into());
                } else if cleanup_fails < 2 {
                    cleanup_fails += 1;
                    fails.push((
                        cleanup_class("C04:regex-cleanup-changes-valid-regex", text),
                        format!("{text:?} is a valid regex of the regex crate and {} the line {:?}, but the rule compiles {cleaned:?} and says {b}", if want { "matches" } else { "does not match" }, String::from_utf8_lossy(l)),
                    ));
                }
            }
        }
    }
    Ok(RegexEval { impl_bits: bits, cleaned, fails, tags })
}

fn lines_with_nl(words: &[String], nl: usize) -> Vec<Vec<u8>> {
    words.iter().map(|w| format!("{w}{}", "\n".repeat(nl)).into_bytes()).collect()
}

fn regex_fragment_case(prop: &str, mk: &ExpectationMaker, ex: &Ex, ab_words: &[String], maxlen: usize, nl: usize) -> CaseRec {
    let mut pol = String::new();
    ex.ast.polish(&mut pol);
    let op = format!("rx {} {} {} {}", pol, alpha_str(&['a', 'b']), maxlen, nl);
    let lines = lines_with_nl(ab_words, nl);
    let mut tags = vec![];
    let nalts = {
        let mut n = 1;
        let mut cur = &ex.ast;
        while let Re::Alt(_, b) = cur {
            n += 1;
            cur = b;
        }
        n
    };
    tags.push(format!("rx:top-level-alternatives={nalts}"));
    tags.push(format!("rx:anchors-inside={}", ex.text.contains('^') || ex.text.contains('$')));
    match regex_eval(mk, &ex.text, &lines) {
        Err(e) => CaseRec { op, impl_out: e, oracle_fail: vec![], nontrivial: false, tags },
        Ok(ev) => {
            tags.extend(ev.tags);
            tags.push(format!("rx:matching-lines={}", bucket(ev.impl_bits.matches('1').count() as u64)));
            let nontrivial = nalts >= 2 && ev.impl_bits.contains('1') && ev.impl_bits.contains('0');
            CaseRec { op, impl_out: ev.impl_bits, oracle_fail: keep(prop, ev.fails), nontrivial, tags }
        }
    }
}

const RX_POOL: [&str; 30] = [
    "a", "b", "a", "b", "c", ".", "*", "+", "?", "|", "|", "(", ")", "(?:", "[", "]", "{", "}", "\\", "^", "$", "-", ",", "1", "2", "\\d", "\\w", "\\_", "é", "\\<",
];
const RX_LINE_POOL: [&str; 16] = ["a", "b", "a", "b", "c", "1", "2", "_", "{", "}", "[", "]", "<", "é", "-", "|"];

fn regex_arbitrary_case(prop: &str, mk: &ExpectationMaker, rng: &mut Rng, ab_words: &[String]) -> CaseRec {
    let n = rng.range(1, 9);
    let text: String = (0..n).map(|_| *rng.pick(&RX_POOL)).collect();
    let mut lines: Vec<Vec<u8>> = ab_words.iter().map(|w| w.clone().into_bytes()).collect();
    for _ in 0..12 {
        let k = rng.range(0, 5);
        let mut l: String = (0..k).map(|_| *rng.pick(&RX_LINE_POOL)).collect();
        if rng.chance(1, 2) {
            l.push('\n');
        }
        lines.push(l.into_bytes());
    }
    // the expression's own literal characters, and pieces of it, as candidate lines
    let lits: String = text.chars().filter(|c| c.is_alphanumeric() || "_{}[]<-,".contains(*c)).collect();
    lines.push(lits.clone().into_bytes());
    lines.push(format!("{lits}\n").into_bytes());
    lines.push(format!("{lits}x\n").into_bytes());
    lines.push(format!("x{lits}\n").into_bytes());
    let hexlines: Vec<String> = lines.iter().map(|l| hex(l)).collect();
    let op = format!("oracle-only rx {} {}", hex(text.as_bytes()), hexlines.join(","));
    regex_oracle_only(prop, mk, op, &text, &lines)
}

fn regex_oracle_only(prop: &str, mk: &ExpectationMaker, op: String, text: &str, lines: &[Vec<u8>]) -> CaseRec {
    match regex_eval(mk, text, lines) {
        Err(e) => {
            let mut tags = vec![format!("rx-arbitrary:{e}")];
            let mut fails = vec![];
            if e == "parse-error" && whole_line_oracle(text).is_some() {
                tags.push("regex:valid-regex-rejected".into());
                fails.push((cleanup_class("C04:regex-valid-regex-rejected", text), format!("{text:?} is a valid regex of the regex crate but `{text} (regex)` does not parse")));
            }
            CaseRec { op, impl_out: "oracle-only".into(), oracle_fail: keep(prop, fails), nontrivial: false, tags }
        }
        Ok(ev) => {
            let mut tags = ev.tags;
            tags.push("rx-arbitrary:accepted".into());
            tags.push(format!("rx-arbitrary:matching-lines={}", bucket(ev.impl_bits.matches('1').count() as u64)));
            let nontrivial = text.contains('|') && ev.impl_bits.contains('1');
            let _ = ev.cleaned;
            CaseRec { op, impl_out: "oracle-only".into(), oracle_fail: keep(prop, ev.fails), nontrivial, tags }
        }
    }
}


// ---------------------------------------------------------------- regex clean-up passes

/// the expression `RegexRule` stores after its three clean-up passes: `unmake()` when the rule
/// compiles; when it does not, the regex crate's syntax error quotes the pattern it was given
/// (`^(?:<cleaned>)$`, on the line after "regex parse error:", indented by four spaces) and the
/// cleaned expression is read from there. `None` = not observable (size-limit errors, panics).
fn cleaned_of(res: Result<anyhow::Result<Box<dyn scrut::rules::rule::Rule>>, String>) -> (Option<String>, &'static str) {
    match res {
        Err(_) => (None, "crash"),
        Ok(Ok(rule)) => {
            let (_, expr) = rule.unmake();
            (String::from_utf8(expr).ok(), "compiles")
        }
        Ok(Err(e)) => {
            let msg = format!("{e:#}");
            let mut lines = msg.lines();
            while let Some(l) = lines.next() {
                if l.trim_end() == "regex parse error:" {
                    if let Some(pl) = lines.next() {
                        if let Some(body) = pl.strip_prefix("    ").and_then(|x| x.strip_prefix("^(?:")).and_then(|x| x.strip_suffix(")$")) {
                            return (Some(body.to_string()), "rejected");
                        }
                    }
                }
            }
            (None, "rejected-unobservable")
        }
    }
}

/// a batch of expressions through the real `RegexRule::make` (directly, or through
/// `ExpectationMaker::parse("<e> (regex)")`) against the model's `regexClean`
fn cleanup_case(prop: &str, mk: Option<&ExpectationMaker>, exprs: &[String], tag: &str) -> Option<CaseRec> {
    use scrut::rules::regex::RegexRule;
    let mut sent = vec![];
    let mut outs = vec![];
    let mut tags = vec![];
    let mut fails = vec![];
    let (mut changed, mut same) = (0u64, 0u64);
    for e in exprs {
        let res = match mk {
            Some(mk) => guarded(|| mk.parse(&format!("{e} (regex)")).map(|x| x.rule)),
            None => guarded(|| RegexRule::make(e)),
        };
        let (cleaned, how) = cleaned_of(res);
        tags.push(format!("rxclean:{tag}:{how}"));
        if how == "crash" {
            fails.push(("C04:regex-crash".to_string(), format!("RegexRule::make panicked on {e:?}")));
        }
        if let Some(c) = cleaned {
            if &c != e { changed += 1 } else { same += 1 }
            sent.push(hex(e.as_bytes()));
            outs.push(hex(c.as_bytes()));
        }
    }
    if sent.is_empty() {
        return None;
    }
    tags.push(format!("rxclean:{tag}:batch changed={} unchanged={}", bucket(changed), bucket(same)));
    Some(CaseRec { op: format!("rxclean {}", sent.join(",")), impl_out: outs.join(","), oracle_fail: keep(prop, fails), nontrivial: changed > 0, tags })
}

const CLEAN_ALPHA: [char; 12] = ['a', '\\', '{', '}', '[', ']', '1', ',', '-', '<', '>', '|'];
const CLEAN_POOL: [&str; 36] = [
    "a", "b", "\\", "\\", "{", "}", "[", "]", "1", "2", "0", "9", ",", "-", "<", ">", "|", "(", ")", ".", "*", "+", "?", "^", "$", "\\d", "\\w", "\\_", "\\<", "é", " ", "<<<<", ">>>>", "{1,2}", "{3}", "\\\\",
];

const BRACKET_ALPHA: [char; 6] = ['a', 'b', '[', ']', '\\', '-'];
/// all lines over the bracket alphabet up to length 3
fn bracket_lines() -> Vec<Vec<u8>> {
    words(&BRACKET_ALPHA, 3).into_iter().map(|w| w.into_bytes()).collect()
}

/// lines that are not valid UTF-8: outside the theorems' hypothesis; what the rules do is recorded
fn invalid_utf8_case(dmk: &ExpectationMaker, cmk: &ExpectationMaker, idx: u64) -> CaseRec {
    let pats = ["?", "*", "a?", "??", "a*b", "\u{fffd}", "???"];
    let lines: [&[u8]; 6] = [b"\xff", b"a\xff", b"\xc3", b"\xc3\x28", b"a\xffb", b"\xe6\x97"];
    let p = pats[(idx as usize) % pats.len()];
    let l = lines[(idx as usize / pats.len()) % lines.len()];
    let g = dmk.parse(&format!("{p} (glob)")).map(|e| e.matches(l)).unwrap_or(false);
    let c = cmk.parse(&format!("{p} (glob)")).map(|e| e.matches(l)).unwrap_or(false);
    let r = dmk.parse(&format!("{} (regex)", p.replace('?', ".").replace('*', ".*"))).map(|e| e.matches(l)).unwrap_or(false);
    CaseRec {
        op: format!("oracle-only invalid-utf8 {} {}", hex(p.as_bytes()), hex(l)),
        impl_out: "oracle-only".into(),
        oracle_fail: vec![],
        nontrivial: false,
        tags: vec![format!("invalid-utf8-line: pattern `{p}` glob={g} cram-glob={c} regex={r}")],
    }
}

/// Which glob rule a document gets is decided by ITS format (Markdown: wildmatch, a backslash is a backslash; Cram:
/// `\*`, `\?`, `\\` are literals) -- not by what else is parsed in the same run. One run of the binary over a Cram
/// and a Markdown document in both orders (and each alone); the tests are chosen so that the two rules disagree.
fn e2e_mixed_formats_case(prop: &str, idx: u64) -> CaseRec {
    let order = idx % 4; // 0: t, md   1: md, t   2: md alone   3: t alone
    let root = std::env::temp_dir().join(format!("scrut-verif-rules-e2e-{}-{idx}", std::process::id()));
    let _ = std::fs::remove_dir_all(&root);
    std::fs::create_dir_all(root.join("tmp")).unwrap();
    // Cram: `\*` is a literal star
    std::fs::write(root.join("c.t"), "cram-literal-star\n  $ echo 'star * here'\n  star \\* h* (glob)\n\ncram-star-needs-star\n  $ echo 'star x here'\n  star \\* h* (glob)\n").unwrap();
    // Markdown: `\*` is a backslash followed by a wildcard
    std::fs::write(root.join("m.md"), "# md-backslash-wildcard\n\n```scrut\n$ printf 'C:\\\\Users\\\\me\\n'\nC:\\* (glob)\n```\n\n# md-needs-backslash\n\n```scrut\n$ echo 'total: *'\ntotal: \\* (glob)\n```\n").unwrap();
    let mut cmd = std::process::Command::new(std::env::var("SCRUT_BIN").unwrap_or("/verif/.build/repo-target/debug/scrut".into()));
    cmd.arg("test").arg("-r").arg("json");
    match order {
        0 => { cmd.arg("c.t").arg("m.md"); }
        1 => { cmd.arg("m.md").arg("c.t"); }
        2 => { cmd.arg("m.md"); }
        _ => { cmd.arg("c.t"); }
    }
    let out = cmd.current_dir(&root).env("TMPDIR", root.join("tmp")).env("NO_COLOR", "1").output().expect("run scrut");
    let stdout = String::from_utf8_lossy(&out.stdout).to_string();
    let json: Option<serde_json::Value> = stdout.find('[').and_then(|p| serde_json::from_str(&stdout[p..]).ok());
    let mut got: Vec<(String, String)> = vec![];
    if let Some(serde_json::Value::Array(items)) = &json {
        for it in items {
            let title = it.get("title").and_then(|t| t.as_str()).or_else(|| it.pointer("/testcase/title").and_then(|t| t.as_str())).unwrap_or("").to_string();
            let kind = it.pointer("/result/kind").and_then(|k| k.as_str()).unwrap_or("?").to_string();
            got.push((title, kind));
        }
    }
    let want_of = |t: &str| match t {
        "cram-literal-star" | "md-backslash-wildcard" => "success",
        _ => "malformed_output",
    };
    let mut fails = vec![];
    let expected_titles: Vec<&str> = match order {
        0 => vec!["cram-literal-star", "cram-star-needs-star", "md-backslash-wildcard", "md-needs-backslash"],
        1 => vec!["md-backslash-wildcard", "md-needs-backslash", "cram-literal-star", "cram-star-needs-star"],
        2 => vec!["md-backslash-wildcard", "md-needs-backslash"],
        _ => vec!["cram-literal-star", "cram-star-needs-star"],
    };
    let want: Vec<(String, String)> = expected_titles.iter().map(|t| (t.to_string(), want_of(t).to_string())).collect();
    if got != want {
        fails.push(("C04:glob-kind-depends-on-other-documents".to_string(), format!("documents in order {:?}: verdicts {:?}, expected {:?} (stderr {})", ["c.t m.md", "m.md c.t", "m.md", "c.t"][order as usize], got, want, String::from_utf8_lossy(&out.stderr).chars().take(200).collect::<String>())));
    }
    let _ = std::fs::remove_dir_all(&root);
    CaseRec { op: "noop".into(), impl_out: "ok".into(), oracle_fail: fails.into_iter().filter(|(c, _)| c.starts_with(prop)).collect(), nontrivial: true, tags: vec![format!("e2e-mixed-formats:order={order}")] }
}

pub fn run(ctx: &Ctx, prop: &str) {
    let seed = ctx.seed;
    let dmk = default_maker();
    let cmk = cram_maker();
    // the binary: the glob rule of a document follows its own format, whatever else is parsed in the run
    ctx.run_stream("e2e-mixed-formats-exhaustive", 4, true, |idx| Some(e2e_mixed_formats_case(prop, idx)));

    // ---- glob, exhaustive: patterns over {a,b,*,?} up to 5 x lines over {a,b,*,?} up to 6
    let ga = ['a', 'b', '*', '?'];
    let (pmax, lmax) = if ctx.thorough { (6, 6) } else { (5, 6) };
    let lines = words(&ga, lmax);
    let npat = n_words(4, pmax);
    ctx.note(format!("glob exhaustive scope: {} patterns over {{a,b,*,?}} (length <= {pmax}) x {} lines over the same alphabet (length <= {lmax}), both registries", npat, lines.len()));
    ctx.run_stream("glob-exhaustive", npat, true, |idx| Some(glob_case(prop, &dmk, false, &word_at(&ga, idx), &ga, lmax, 0, &lines, "ascii")));
    ctx.run_stream("cram-glob-exhaustive", npat, true, |idx| Some(glob_case(prop, &cmk, true, &word_at(&ga, idx), &ga, lmax, 0, &lines, "ascii")));
    // ---- trailing newlines 1, 2 (smaller scope)
    let lines4 = words(&ga, 4);
    let npat4 = n_words(4, 4);
    ctx.run_stream("glob-newlines-exhaustive", npat4 * 2, true, |idx| Some(glob_case(prop, &dmk, false, &word_at(&ga, idx / 2), &ga, 4, 1 + (idx % 2) as usize, &lines4, "newlines")));
    ctx.run_stream("cram-glob-newlines-exhaustive", npat4 * 2, true, |idx| Some(glob_case(prop, &cmk, true, &word_at(&ga, idx / 2), &ga, 4, 1 + (idx % 2) as usize, &lines4, "newlines")));
    // ---- one multi-byte character
    let ma = ['a', 'é', '*', '?'];
    let mlines = words(&['a', 'é', '?'], 5);
    ctx.run_stream("glob-multibyte-exhaustive", npat4 * 2, true, |idx| Some(glob_case(prop, &dmk, false, &word_at(&ma, idx / 2), &['a', 'é', '?'], 5, (idx % 2) as usize, &mlines, "multibyte")));
    ctx.run_stream("cram-glob-multibyte-exhaustive", npat4 * 2, true, |idx| Some(glob_case(prop, &cmk, true, &word_at(&ma, idx / 2), &['a', 'é', '?'], 5, (idx % 2) as usize, &mlines, "multibyte")));
    // ---- Cram escapes: patterns over {a,*,?,\} x lines over {a,*,?,\}
    let ca = ['a', '*', '?', '\\'];
    let clines = words(&ca, 5);
    let ncp = n_words(4, 5);
    ctx.run_stream("cram-glob-escapes-exhaustive", ncp, true, |idx| Some(glob_case(prop, &cmk, true, &word_at(&ca, idx), &ca, 5, 0, &clines, "escapes")));
    ctx.run_stream("glob-backslash-exhaustive", n_words(4, 4), true, |idx| Some(glob_case(prop, &dmk, false, &word_at(&ca, idx), &ca, 5, 0, &clines, "backslash")));
    // ---- seeded random pairs with arbitrary text
    let nrand = if ctx.thorough { 400_000 } else { 20_000 };
    ctx.run_stream("glob-random", nrand, false, |idx| {
        let mut rng = Rng::fork(seed, 41, idx);
        let (p, l) = random_glob_pair(&mut rng);
        Some(glob_line_case(prop, &dmk, &cmk, &p, &l))
    });
    ctx.run_stream("invalid-utf8-observed", 42, true, |idx| Some(invalid_utf8_case(&dmk, &cmk, idx)));

    // ---- regex fragment, exhaustive up to size 5 (thorough 6), lines <= 4 over {a,b}
    let size = if ctx.thorough { 6 } else { 5 };
    let g = gen(size, true);
    let all: Vec<Ex> = (1..=size).flat_map(|n| g.alt[n].iter().cloned()).collect();
    let ab = words(&['a', 'b'], 4);
    ctx.note(format!("regex fragment: {} expressions with <= {size} nodes (atoms a b . ^ $, (?:..), *, concatenation, <= 3 alternatives at every level) x {} lines over {{a,b}} (length <= 4)", all.len(), ab.len()));
    ctx.run_stream("regex-fragment-exhaustive", all.len() as u64, true, |idx| Some(regex_fragment_case(prop, &dmk, &all[idx as usize], &ab, 4, 0)));
    let small: Vec<Ex> = (1..=4).flat_map(|n| g.alt[n].iter().cloned()).collect();
    let ab3 = words(&['a', 'b'], 3);
    ctx.run_stream("regex-fragment-newlines-exhaustive", small.len() as u64 * 2, true, |idx| Some(regex_fragment_case(prop, &dmk, &small[(idx / 2) as usize], &ab3, 3, 1 + (idx % 2) as usize)));
    // ---- character-class clean-up (escape_misused_character_class) on every bracket expression: oracle only
    let blines = bracket_lines();
    let nb = n_words(6, if ctx.thorough { 6 } else { 5 });
    ctx.run_stream("regex-brackets-oracle-exhaustive", nb, true, |idx| {
        let text = word_at(&BRACKET_ALPHA, idx);
        let op = format!("oracle-only rxb {}", hex(text.as_bytes()));
        Some(regex_oracle_only(prop, &dmk, op, &text, &blines))
    });
    ctx.note("regex clean-up passes (not modelled): whenever the expression as written is itself a valid regex of the regex crate, the rule is also compared with `\\A(?:written)\\z`. Deliberate deviations are only counted in the histogram (`\\<`/`\\>` read as literals; `[` inside a class read as a literal instead of a nested class); any other change of meaning is reported as C04:regex-cleanup-changes-valid-regex, a valid regex that no longer parses as C04:regex-valid-regex-rejected".to_string());
    // ---- the three clean-up passes against the model `regexClean` (cleaned text, also for rejected expressions)
    let clen = if ctx.thorough { 6 } else { 5 };
    let ntot = n_words(12, clen);
    const BATCH: u64 = 128;
    ctx.note(format!("regex clean-up: every expression over {{a \\ {{ }} [ ] 1 , - < > |}} up to length {clen} ({ntot} expressions, in batches of {BATCH}) through RegexRule::make, all up to length 3 and seeded random token strings through ExpectationMaker::parse"));
    ctx.run_stream("regex-cleanup-exhaustive", (ntot + BATCH - 1) / BATCH, true, |idx| {
        let exprs: Vec<String> = (idx * BATCH..((idx + 1) * BATCH).min(ntot)).map(|i| word_at(&CLEAN_ALPHA, i)).collect();
        cleanup_case(prop, None, &exprs, "exhaustive")
    });
    let nsmall = n_words(12, 3);
    ctx.run_stream("regex-cleanup-parse-exhaustive", (nsmall + 15) / 16, true, |idx| {
        let exprs: Vec<String> = (idx * 16..((idx + 1) * 16).min(nsmall)).map(|i| word_at(&CLEAN_ALPHA, i)).collect();
        cleanup_case(prop, Some(&dmk), &exprs, "parse")
    });
    // `<<<<…>>>>` written by the user (pass 2.3 rewrites it): prefix <=1, body <=3, suffix <=1 over 7 characters
    let aa = ['a', '<', '>', '1', '{', '}', '\\'];
    let (w1, w3) = (words(&aa, 1), words(&aa, 3));
    ctx.run_stream("regex-cleanup-angle-exhaustive", (w1.len() * w1.len()) as u64, true, |idx| {
        let (pre, suf) = (&w1[idx as usize / w1.len()], &w1[idx as usize % w1.len()]);
        let exprs: Vec<String> = w3.iter().map(|m| format!("{pre}<<<<{m}>>>>{suf}")).collect();
        cleanup_case(prop, None, &exprs, "angle")
    });
    // the same rewriting judged by the written-expression oracle (meaning, not text)
    let mids = words(&['a', '1'], 2);
    ctx.run_stream("regex-angle-oracle-exhaustive", (mids.len() * 2) as u64, true, |idx| {
        let pre = if idx % 2 == 0 { "" } else { "x" };
        let mid = &mids[(idx / 2) as usize];
        let text = format!("{pre}<<<<{mid}>>>>");
        let lines: Vec<Vec<u8>> = [text.clone(), pre.to_string(), format!("{pre}{pre}"), format!("{pre}{mid}"), format!("{pre}{{{mid}}}")].into_iter().map(|l| l.into_bytes()).collect();
        let hexlines: Vec<String> = lines.iter().map(|l| hex(l)).collect();
        let op = format!("oracle-only rx {} {}", hex(text.as_bytes()), hexlines.join(","));
        Some(regex_oracle_only(prop, &dmk, op, &text, &lines))
    });
    // repetition quantifiers as the regex crate reads them: a{X} and ba{X}c for every X over {1 2 ,} up to length 3
    // ({1} {1,2} {1,} are quantifiers; {,1} {2,1} {,} are not valid there and say nothing)
    let qs = words(&['1', '2', ','], 3);
    let angle_quant = ["<{1}", "a<{2}", "\\<{1}", "\\\\<{1}", "a{1}>", "a)|(b", ")(", "a)(b", "(a))|((b)"];
    ctx.run_stream("regex-quantifier-oracle-exhaustive", (qs.len() * 2 + angle_quant.len()) as u64, true, |idx| {
        if idx as usize >= qs.len() * 2 {
            // a literal `<` / `>` next to a quantifier: the placeholder of the restore pass collides with it (open finding)
            let text = angle_quant[idx as usize - qs.len() * 2].to_string();
            let lines: Vec<Vec<u8>> = ["<", "<<", "a<", "a<<", "a", "a>", ""].iter().map(|l| l.as_bytes().to_vec()).collect();
            let hexlines: Vec<String> = lines.iter().map(|l| hex(l)).collect();
            let op = format!("oracle-only rx {} {}", hex(text.as_bytes()), hexlines.join(","));
            return Some(regex_oracle_only(prop, &dmk, op, &text, &lines));
        }
        let q = &qs[(idx / 2) as usize];
        let (pre, suf) = if idx % 2 == 0 { ("", "") } else { ("b", "c") };
        let text = format!("{pre}a{{{q}}}{suf}");
        let mut lines: Vec<Vec<u8>> = (0..=5).map(|k| format!("{pre}{}{suf}", "a".repeat(k)).into_bytes()).collect();
        lines.push(text.clone().into_bytes());
        lines.push(format!("{pre}a{q}{suf}").into_bytes());
        let hexlines: Vec<String> = lines.iter().map(|l| hex(l)).collect();
        let op = format!("oracle-only rx {} {}", hex(text.as_bytes()), hexlines.join(","));
        Some(regex_oracle_only(prop, &dmk, op, &text, &lines))
    });
    let nclean = if ctx.thorough { 400_000 } else { 20_000 };
    ctx.run_stream("regex-cleanup-random", nclean / 8, false, |idx| {
        let mut rng = Rng::fork(seed, 43, idx);
        let exprs: Vec<String> = (0..8).map(|_| { let n = rng.range(1, 12); (0..n).map(|_| *rng.pick(&CLEAN_POOL)).collect::<String>() }).collect();
        cleanup_case(prop, Some(&dmk), &exprs, "random")
    });
    // ---- arbitrary expressions: oracle only
    let narb = if ctx.thorough { 1_000_000 } else { 40_000 };
    let ab2 = words(&['a', 'b'], 3);
    ctx.run_stream("regex-arbitrary-oracle", narb, false, |idx| {
        let mut rng = Rng::fork(seed, 42, idx);
        Some(regex_arbitrary_case(prop, &dmk, &mut rng, &ab2))
    });
}

/// replay of one op line of this module
pub fn replay(prop: &str, op: &str) -> bool {
    let parts: Vec<&str> = op.split_whitespace().collect();
    let text = |h: &str| String::from_utf8_lossy(&unhex(h)).to_string();
    let c = match parts.as_slice() {
        [name @ ("glob" | "cglob"), pat, alpha, maxlen, nl] => {
            let a: Vec<char> = text(alpha).chars().collect();
            let maxlen: usize = maxlen.parse().unwrap_or(0);
            let lines = words(&a, maxlen);
            let cram = *name == "cglob";
            let mk = if cram { cram_maker() } else { default_maker() };
            glob_case(prop, &mk, cram, &text(pat), &a, maxlen, nl.parse().unwrap_or(0), &lines, "replay")
        }
        ["globl", pat, line] => glob_line_case(prop, &default_maker(), &cram_maker(), &text(pat), &text(line)),
        ["oracle-only", "rx", expr, lines] => {
            let ls: Vec<Vec<u8>> = lines.split(',').map(unhex).collect();
            regex_oracle_only(prop, &default_maker(), op.to_string(), &text(expr), &ls)
        }
        ["rxclean", es] => {
            let exprs: Vec<String> = es.split(',').map(|h| text(h)).collect();
            match cleanup_case(prop, None, &exprs, "replay") {
                Some(c) => c,
                None => {
                    eprintln!("nothing observable");
                    return true;
                }
            }
        }
        ["oracle-only", "rxb", expr] => regex_oracle_only(prop, &default_maker(), op.to_string(), &text(expr), &bracket_lines()),
        ["rx", pol, alpha, maxlen, nl] => {
            // rebuild the expression text from the polish form by searching the generated fragment
            let g = gen(6, true);
            let a: Vec<char> = text(alpha).chars().collect();
            let maxlen: usize = maxlen.parse().unwrap_or(0);
            let ws = words(&a, maxlen);
            let found = (1..=6).flat_map(|n| g.alt[n].iter()).find(|e| {
                let mut s = String::new();
                e.ast.polish(&mut s);
                s == *pol
            });
            match found {
                Some(ex) => regex_fragment_case(prop, &default_maker(), ex, &ws, maxlen, nl.parse().unwrap_or(0)),
                None => {
                    eprintln!("expression not in the generated fragment");
                    return false;
                }
            }
        }
        _ => {
            eprintln!("unsupported replay op");
            return false;
        }
    };
    println!("impl: {}", c.impl_out);
    for (cl, d) in &c.oracle_fail {
        println!("oracle-failure {cl}: {d}");
    }
    c.oracle_fail.is_empty()
}
