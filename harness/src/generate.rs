//! C09 / C10: test generation (`create`, `update`, `--convert`) against the property itself on the
//! real code: real generator → real parser → real `validate`; `update`: line-level preservation
//! of everything outside scrut blocks, block count/order, idempotence, same commands.
//! The Lean model (`Model/Generate.lean`) is compared on the text that `generate_testcase`
//! produces for the `create` path (op `gen`) and, for tests with expectations and the real diff, for
//! the `update` path (op `genupd`, streams `update-generate-testcase-*`).
use crate::common::*;
use scrut::config::TestCaseConfig;
use scrut::escaping::Escaper;
use scrut::expectation::ExpectationMaker;
use scrut::generators::cram::{CramTestCaseGenerator, CramUpdateGenerator};
use scrut::generators::generator::{TestCaseGenerator, UpdateGenerator};
use scrut::generators::markdown::{MarkdownTestCaseGenerator, MarkdownUpdateGenerator};
use scrut::outcome::Outcome;
use scrut::output::{ExitStatus, Output};
use scrut::parsers::cram::{CramParser, DEFAULT_CRAM_INDENTION};
use scrut::parsers::markdown::{MarkdownParser, DEFAULT_MARKDOWN_LANGUAGES};
use scrut::parsers::parser::{Parser, ParserType};
use scrut::rules::registry::RuleRegistry;
use scrut::testcase::TestCase;
use std::sync::Arc;

pub(crate) fn keep(prop: &str, fails: Vec<(String, String)>) -> Vec<(String, String)> {
    fails.into_iter().filter(|(c, _)| c.starts_with(prop)).collect()
}

fn maker() -> Arc<ExpectationMaker> {
    Arc::new(ExpectationMaker::new(RuleRegistry::default()))
}

fn parse(fmt: ParserType, text: &str) -> Result<Vec<TestCase>, String> {
    let r = guarded(|| match fmt {
        ParserType::Markdown => MarkdownParser::new(maker(), DEFAULT_MARKDOWN_LANGUAGES, None).parse(text),
        ParserType::Cram => CramParser::new(maker(), DEFAULT_CRAM_INDENTION).parse(text),
    });
    match r {
        Err(p) => Err(format!("parser panicked: {p}")),
        Ok(Err(e)) => Err(format!("parse error: {}", format!("{e:#}").chars().take(160).collect::<String>())),
        Ok(Ok((_, tcs))) => Ok(tcs),
    }
}

fn esc_name(e: &Escaper) -> &'static str {
    match e {
        Escaper::Ascii => "a",
        Escaper::Unicode => "u",
    }
}

/// collision class of an output line (what makes it look like test syntax), for classification
fn line_class(line: &[u8], first: bool, cram: bool) -> Option<&'static str> {
    let t = String::from_utf8_lossy(line);
    let t = t.trim_end_matches('\n');
    if t.starts_with("> ") && first {
        return Some("continuation-shaped-first-line");
    }
    if t.starts_with("$ ") && cram {
        return Some("command-shaped-line-in-cram");
    }
    let ends_mod = {
        if let (Some(start), true) = (t.rfind('('), t.ends_with(')')) {
            let inner = &t[start + 1..t.len() - 1];
            let inner = inner.strip_suffix(['*', '+', '?']).unwrap_or(inner);
            t[..start].ends_with(char::is_whitespace) && inner.chars().all(|c| c.is_ascii_lowercase() || c == '-')
        } else {
            false
        }
    };
    if ends_mod {
        return Some("modifier-shaped-line");
    }
    if t.starts_with('[') && t.ends_with(']') && t.len() > 2 && t[1..t.len() - 1].chars().all(|c| c.is_ascii_digit()) {
        return Some("exit-code-shaped-line");
    }
    None
}

/// the command name decides on which stream the payload arrives (`on-stderr` → stderr, noise on stdout)
fn mk_output(cmd: &str, out: &[u8], code: i32) -> Output {
    if cmd.contains("on-stderr") {
        Output { stdout: b"noise on stdout\n".to_vec().into(), stderr: out.to_vec().into(), exit_code: ExitStatus::Code(code) }
    } else {
        Output { stdout: out.to_vec().into(), stderr: vec![].into(), exit_code: ExitStatus::Code(code) }
    }
}

/// `create`: an outcome as src/bin/commands/create.rs builds it
fn create_outcome(fmt: ParserType, escaper: &Escaper, cmd: &str, out: &[u8], code: i32) -> Outcome {
    create_outcome_from(fmt, fmt, escaper, cmd, out, code)
}

/// `update --convert`: the outcome carries the format (and default configuration) of the document it was read
/// from (`src`), the generator of the other format (`fmt`) writes it (src/bin/commands/update.rs, `convert_test`)
fn create_outcome_from(src: ParserType, _fmt: ParserType, escaper: &Escaper, cmd: &str, out: &[u8], code: i32) -> Outcome {
    let fmt = src;
    let config = match fmt {
        ParserType::Markdown => TestCaseConfig::default_markdown(),
        ParserType::Cram => TestCaseConfig::default_cram(),
    };
    let config = if cmd.contains("on-stderr") { TestCaseConfig { output_stream: Some(scrut::config::OutputStreamControl::Stderr), ..config } } else { config };
    let testcase = TestCase { title: "".into(), shell_expression: cmd.into(), expectations: vec![], exit_code: None, line_number: 0, config };
    let output = mk_output(cmd, out, code);
    let result = testcase.validate(&output);
    Outcome { location: None, output, testcase, escaping: escaper.clone(), format: fmt, result }
}

fn create_case(prop: &str, fmt: ParserType, escaper: Escaper, cmd: &str, out: &[u8], code: i32, tag: &str) -> CaseRec {
    create_case_from(prop, fmt, fmt, escaper, cmd, out, code, tag)
}

/// `src` = format of the document the outcome was read from, `fmt` = format that is written (differs for `--convert`)
#[allow(clippy::too_many_arguments)]
pub(crate) fn create_case_from(prop: &str, src: ParserType, fmt: ParserType, escaper: Escaper, cmd: &str, out: &[u8], code: i32, tag: &str) -> CaseRec {
    let mut fails = vec![];
    let cram = fmt == ParserType::Cram;
    let outcome = create_outcome_from(src, fmt, &escaper, cmd, out, code);
    let generated = guarded(|| match fmt {
        ParserType::Markdown => MarkdownTestCaseGenerator::default().generate_testcases(&[&outcome]),
        ParserType::Cram => CramTestCaseGenerator::default().generate_testcases(&[&outcome]),
    });
    let crashed = false;
    let text = match generated {
        Err(p) => {
            fails.push(("C09:generator-panic".to_string(), p));
            None
        }
        Ok(Err(e)) => {
            fails.push(("C09:generator-error".to_string(), format!("{e:#}").chars().take(200).collect()));
            None
        }
        Ok(Ok(t)) => Some(t),
    };
    let mut verdict = "none".to_string();
    if let Some(text) = &text {
        // classify what the output holds, to name the failure class precisely
        let lines: Vec<&[u8]> = out.split_inclusive(|b| *b == b'\n').collect();
        let mut classes: Vec<&'static str> = vec![];
        for l in lines.iter() {
            // regression class of fix 9b34612: a printable line led by `$ ` / `> ` whose text ends in ` (no-eol)`
            // was written `\x24… (no-eol) (escaped)` without the `\x20(no-eol)` guard
            let t = l.strip_suffix(b"\n").unwrap_or(l);
            if (t.starts_with(b"$ ") || t.starts_with(b"> ")) && t.ends_with(b" (no-eol)") && !escaper.has_unprintable(t) {
                classes.push("first-char-escape-drops-no-eol-guard");
            }
        }
        for (i, l) in lines.iter().enumerate() {
            if let Some(c) = line_class(l, i == 0, cram) {
                classes.push(c);
            }
        }
        if cram && (out.ends_with(b"\n\n") || lines.last().map_or(false, |l| String::from_utf8_lossy(l).trim_end_matches('\n').ends_with([' ', '\t']))) {
            classes.push("cram-trailing-whitespace-trimmed");
        }
        let class_of = |generic: &str| -> String {
            match classes.first() {
                Some(c) => format!("C09:{c}"),
                None => format!("C09:{generic}"),
            }
        };
        match parse(fmt, text) {
            Err(e) => {
                verdict = "parse-error".into();
                fails.push((class_of("generated-does-not-parse"), format!("generated {:?} -> {e}", text.chars().take(200).collect::<String>())));
            }
            Ok(tcs) => {
                if tcs.len() != 1 {
                    verdict = format!("tests={}", tcs.len());
                    fails.push((class_of("generated-test-count"), format!("generated document holds {} tests: {:?}", tcs.len(), text.chars().take(200).collect::<String>())));
                } else {
                    let tc = &tcs[0];
                    if tc.shell_expression != cmd {
                        fails.push((class_of("command-changed"), format!("command {:?} reads back as {:?}", cmd, tc.shell_expression)));
                    }
                    let output = mk_output(cmd, out, code);
                    match tc.validate(&output) {
                        Ok(()) => verdict = "pass".into(),
                        Err(e) => {
                            verdict = "fail".into();
                            fails.push((class_of("generated-test-fails"), format!("generated {:?} fails on its own output: {}", text.chars().take(200).collect::<String>(), format!("{e:?}").chars().take(120).collect::<String>())));
                        }
                    }
                }
            }
        }
    }
    // the code points of the valid-UTF-8 lines for which the real `char::is_other()` holds
    let mut others: Vec<u32> = vec![];
    for l in out.split_inclusive(|b| *b == b'\n') {
        if let Ok(s) = std::str::from_utf8(l) {
            others.extend(s.chars().filter(|c| unicode_other(*c)).map(|c| c as u32));
        }
    }
    others.sort();
    others.dedup();
    let others = if others.is_empty() { "-".to_string() } else { others.iter().map(|c| format!("{c:x}")).collect::<Vec<_>>().join(",") };
    CaseRec {
        op: format!("gen {} {} {} {} {} {} {}", if cram { "c" } else { "m" }, esc_name(&escaper), code, hex(cmd.as_bytes()), hex(out), others, if cmd.contains("on-stderr") { "e" } else if src == ParserType::Cram && fmt == ParserType::Markdown { "c" } else { "o" }),
        impl_out: if crashed { "crash".into() } else { text.map(|t| hex(t.as_bytes())).unwrap_or("error".into()) },
        oracle_fail: keep(prop, fails),
        nontrivial: out.len() >= 2,
        tags: vec![tag.to_string(), format!("verdict={verdict}"), format!("fmt={}", if cram { "cram" } else { "md" }), format!("converted={}", src != fmt)],
    }
}

/// general category `Other` (control, format, private use, surrogate, UNASSIGNED) by the tables of the regex crate --
/// a source that is independent of the code: until fix fbc0b98 the code and this function both asked `unicode_categories`
/// 0.1.1, whose tables end at Unicode 8 and hold no unassigned code points (hunt round, C11)
pub(crate) fn unicode_other(c: char) -> bool {
    static OTHER: std::sync::OnceLock<regex::Regex> = std::sync::OnceLock::new();
    let mut buf = [0u8; 4];
    OTHER.get_or_init(|| regex::Regex::new(r"\p{C}").unwrap()).is_match(c.encode_utf8(&mut buf))
}

pub(crate) const LINE_ALPHABET: [&[u8]; 24] = [
    // exit code look-alikes at the edge of i32: an OUTPUT line of this form is written as `[..] (equal)`
    b"[2147483648]", b"[99999999999]", b"[2147483647]", b"[0002147483647]",
    "total\u{a0}(glob)".as_bytes(), "x\u{3000}(?)".as_bytes(), b"foo", b"foo (glob)", b"foo (?)", b"foo ()", b"[1]", b"$ x", b"> x", b"```", b"", b"  ", b"x\x01", b"a\\tb", b"a\\tb\x01", "é".as_bytes(), b"\xff", b"# c", b"foo (no-eol)", b"x\x01 (no-eol)",
];

/// lines assembled from syntax fragments (PRE ++ MID ++ SUF): every combination of the first-character escape with the
/// suffix logic (shared with the end-to-end streams of cli.rs)
pub(crate) const PRE: [&[u8]; 7] = [b"$ ", b"> ", b"", b"[", b" ", b"$", b"```"];
pub(crate) const MID: [&[u8]; 8] = [b"foo", b"x\x01", b"a\\b", "\u{e9}".as_bytes(), b"12", b"", b"\xff", b"\\"];
pub(crate) const SUF: [&[u8]; 14] = ["\u{a0}(glob)".as_bytes(), "\u{2003}(equal)".as_bytes(), "\u{3000}(no-eol)".as_bytes(), "\u{1680}(*)".as_bytes(), b"", b" (no-eol)", b" (glob)", b" (escaped)", b" (equal)", b"]", b" ", b"\\", b" (no-eol) (escaped)", b"\t(*)"];

/// `update`: a document whose tests are perturbed; oracle = C09 (rewritten blocks pass) and C10
fn update_case(prop: &str, rng: &mut Rng, idx: u64) -> CaseRec {
    let _ = idx;
    let mut fails = vec![];
    // build a document: prose, foreign blocks, scrut blocks
    let n_items = rng.range(1, 6);
    let mut doc = String::new();
    let mut outputs: Vec<(Vec<u8>, i32)> = vec![];
    let mut outside: Vec<String> = vec![];
    let crlf = rng.chance(1, 10);
    if rng.chance(1, 4) {
        let fm = "---\ntotal_timeout: 10s\n---\n";
        doc.push_str(fm);
        outside.extend(fm.lines().map(|l| l.to_string()));
    }
    let mut n_blocks = 0;
    let mut unterminated = false;
    for i in 0..n_items {
        match rng.below(7) {
            0 => {
                let l = *rng.pick(&["Some prose.", "", "# Heading", "``inline`` code", "text with ``` inside", "> quote", "    indented"]);
                doc.push_str(l);
                doc.push('\n');
                outside.push(l.to_string());
            }
            1 => {
                let b = "```python\nprint(1)\n$ not a test\n```\n";
                doc.push_str(b);
                outside.extend(b.lines().map(|l| l.to_string()));
            }
            2 if i + 1 == n_items && rng.chance(1, 3) => {
                // unterminated foreign block at the end of the document
                let b = "```text\nnever closed\nmore\n";
                doc.push_str(b);
                outside.extend(b.lines().map(|l| l.to_string()));
                unterminated = true;
            }
            _ => {
                // a scrut block with expectations; the "actual" output is a perturbation
                let nexp = rng.range(0, 3);
                let mut exp_lines: Vec<String> = vec![];
                let mut out: Vec<u8> = vec![];
                for _ in 0..nexp {
                    match rng.below(5) {
                        0 => {
                            exp_lines.push("line * (glob)".into());
                            out.extend_from_slice(b"line 1\n");
                        }
                        1 => {
                            exp_lines.push("a.*b (regex+)".into());
                            out.extend_from_slice(b"axb\nayb\n");
                        }
                        2 => {
                            exp_lines.push("maybe (?)".into());
                        }
                        _ => {
                            exp_lines.push("plain".into());
                            out.extend_from_slice(b"plain\n");
                        }
                    }
                }
                let mut code = 0;
                let mut expected_code_line = String::new();
                // perturb: pass / changed output / changed exit code
                match rng.below(4) {
                    0 => {} // pass
                    1 => out.extend_from_slice(*rng.pick(&LINE_ALPHABET)),
                    2 => {
                        let l = rng.pick(&LINE_ALPHABET).to_vec();
                        let mut o = l;
                        o.push(b'\n');
                        o.extend_from_slice(&out);
                        out = o;
                    }
                    _ => {
                        code = 3;
                        if rng.chance(1, 2) {
                            expected_code_line = "[2]\n".into();
                        }
                    }
                }
                let cfg = if rng.chance(1, 4) { *rng.pick(&[" {timeout: 5s}", " {timeout: 5s}", " { \ttimeout: 5s}", " {\u{a0}timeout: 5s}"]) } else { "" };
                let comment = if rng.chance(1, 4) { "# a comment\n" } else { "" };
                let fence = if rng.chance(1, 5) { "````" } else { "```" };
                doc.push_str(&format!("# t{i}\n\n{fence}scrut{cfg}\n{comment}$ cmd{i}\n"));
                outside.push(format!("# t{i}"));
                outside.push(String::new());
                for e in &exp_lines {
                    doc.push_str(e);
                    doc.push('\n');
                }
                doc.push_str(&expected_code_line);
                doc.push_str(fence);
                doc.push('\n');
                outputs.push((out, code));
                n_blocks += 1;
            }
        }
    }
    if crlf {
        doc = doc.replace('\n', "\r\n");
    }
    let mut impl_out = "skip".to_string();
    let mut c10_op: Option<(String, String)> = None;
    let parsed = parse(ParserType::Markdown, &doc);
    if let Ok(tcs) = &parsed {
        if tcs.len() == outputs.len() && !tcs.is_empty() {
            let escaper = if rng.chance(1, 2) { Escaper::Unicode } else { Escaper::Ascii };
            let mk_outcomes = |tcs: &Vec<TestCase>| -> Vec<Outcome> {
                tcs.iter()
                    .zip(outputs.iter())
                    .map(|(tc, (out, code))| {
                        let output = Output { stdout: out.clone().into(), stderr: vec![].into(), exit_code: ExitStatus::Code(*code) };
                        let result = tc.validate(&output);
                        Outcome { location: None, output, testcase: tc.clone(), escaping: escaper.clone(), format: ParserType::Markdown, result }
                    })
                    .collect()
            };
            let outcomes = mk_outcomes(tcs);
            let refs: Vec<&Outcome> = outcomes.iter().collect();
            let passing: Vec<bool> = outcomes.iter().map(|o| o.result.is_ok()).collect();
            if prop == "C10" {
                c10_op = Some(c10_correspondence(&doc, &refs));
            }
            match guarded(|| MarkdownUpdateGenerator::default().generate_update(&doc, &refs)) {
                Err(p) => fails.push(("C10:update-panic".into(), p)),
                Ok(Err(e)) => fails.push(("C10:update-error".into(), format!("{e:#}").chars().take(200).collect())),
                Ok(Ok(updated)) => {
                    impl_out = "updated".into();
                    // (a) lines outside scrut blocks preserved in order
                    let upd_outside: Vec<String> = outside_lines(&updated);
                    if upd_outside != outside && !unterminated {
                        fails.push(("C10:outside-lines-changed".into(), format!("outside lines {:?} became {:?}", outside, upd_outside).chars().take(300).collect()));
                    }
                    if unterminated && !updated.contains("never closed\nmore") {
                        fails.push(("C10:truncated".into(), "text of an unterminated block at the end of the document was lost".into()));
                    }
                    // (b) same number of blocks, same commands
                    match parse(ParserType::Markdown, &updated) {
                        Err(e) => fails.push(("C10:updated-does-not-parse".into(), format!("{e}; updated: {:?}", updated.chars().take(200).collect::<String>()))),
                        Ok(tcs2) => {
                            if tcs2.len() != tcs.len() {
                                fails.push(("C10:block-count-changed".into(), format!("{} tests became {}", tcs.len(), tcs2.len())));
                            } else {
                                for (k, (a, b)) in tcs.iter().zip(tcs2.iter()).enumerate() {
                                    if a.shell_expression != b.shell_expression {
                                        fails.push(("C10:command-changed".into(), format!("test {k}: {:?} -> {:?}", a.shell_expression, b.shell_expression)));
                                    }
                                    if a.config != b.config {
                                        fails.push(("C10:config-changed".into(), format!("test {k}")));
                                    }
                                    if passing[k] {
                                        let ea: Vec<String> = a.expectations.iter().map(|e| e.original_string()).collect();
                                        let eb: Vec<String> = b.expectations.iter().map(|e| e.original_string()).collect();
                                        if ea != eb || a.exit_code != b.exit_code {
                                            fails.push(("C10:passing-test-rewritten".into(), format!("test {k}: {:?} -> {:?}", ea, eb)));
                                        }
                                    }
                                    // C09: the rewritten block passes on the output it was written from
                                    let output = Output { stdout: outputs[k].0.clone().into(), stderr: vec![].into(), exit_code: ExitStatus::Code(outputs[k].1) };
                                    if let Err(e) = b.validate(&output) {
                                        let out = &outputs[k].0;
                                        let lines: Vec<&[u8]> = out.split_inclusive(|x| *x == b'\n').collect();
                                        let cls = lines.iter().enumerate().find_map(|(i, l)| line_class(l, i == 0, false));
                                        let has_quant = a.expectations.iter().any(|e| e.optional || e.multiline);
                                        let class = match cls {
                                            Some(c) => format!("C09:{c}"),
                                            None if has_quant => "C09:update-retained-quantified-expectations".to_string(),
                                            None => "C09:updated-test-fails".to_string(),
                                        };
                                        fails.push((class, format!("test {k} after update fails on the output it was updated from: {}", format!("{e:?}").chars().take(100).collect::<String>())));
                                    }
                                }
                                // (c) idempotence
                                let outcomes2 = mk_outcomes(&tcs2);
                                let refs2: Vec<&Outcome> = outcomes2.iter().collect();
                                if let Ok(Ok(updated2)) = guarded(|| MarkdownUpdateGenerator::default().generate_update(&updated, &refs2)) {
                                    if updated2 != updated {
                                        let quant = tcs.iter().any(|t| t.expectations.iter().any(|e| e.optional || e.multiline));
                                        let collide = outputs.iter().any(|(o, _)| o.split_inclusive(|x| *x == b'\n').enumerate().any(|(i, l)| line_class(l, i == 0, false).is_some()));
                                        let class = if collide { "C10:not-idempotent-syntax-collision" } else if quant { "C10:not-idempotent-retained-quantified-expectations" } else { "C10:not-idempotent" };
                                        fails.push((class.into(), format!("second update changes the document again: {:?} vs {:?}", updated.chars().take(120).collect::<String>(), updated2.chars().take(120).collect::<String>())));
                                    }
                                }
                            }
                        }
                    }
                }
            }
        }
    }
    if prop == "C10" {
        // correspondence: the model has to reproduce the whole updated document from the original
        // document and the text generated per outcome
        let (op, out) = c10_op.unwrap_or(("oracle-only upd-skip".to_string(), "oracle-only".to_string()));
        return CaseRec { op, impl_out: out, oracle_fail: keep(prop, fails), nontrivial: n_blocks >= 1, tags: vec![format!("update:blocks={n_blocks}"), format!("update:crlf={crlf}")] };
    }
    // C09 runs only the oracles of the update streams: a no-op both sides agree on
    let _ = impl_out;
    CaseRec { op: "noop".to_string(), impl_out: "ok".to_string(), oracle_fail: keep(prop, fails), nontrivial: n_blocks >= 1, tags: vec![format!("update:blocks={n_blocks}"), format!("update:crlf={crlf}")] }
}

/// fixed update witnesses: (document, outputs per test)
fn update_witness(prop: &str, name: &str, doc: &str, outputs: Vec<(Vec<u8>, i32)>) -> CaseRec {
    let mut fails = vec![];
    let mut impl_out = "skip".to_string();
    let mut c10_op: Option<(String, String)> = None;
    if let Ok(tcs) = parse(ParserType::Markdown, doc) {
        let mk = |tcs: &Vec<TestCase>| -> Vec<Outcome> {
            tcs.iter().zip(outputs.iter()).map(|(tc, (out, code))| {
                let output = Output { stdout: out.clone().into(), stderr: vec![].into(), exit_code: ExitStatus::Code(*code) };
                let result = tc.validate(&output);
                Outcome { location: None, output, testcase: tc.clone(), escaping: Escaper::Unicode, format: ParserType::Markdown, result }
            }).collect()
        };
        let outcomes = mk(&tcs);
        let refs: Vec<&Outcome> = outcomes.iter().collect();
        if prop == "C10" {
            c10_op = Some(c10_correspondence(doc, &refs));
        }
        if let Ok(Ok(updated)) = guarded(|| MarkdownUpdateGenerator::default().generate_update(doc, &refs)) {
            impl_out = "updated".into();
            if let Ok(tcs2) = parse(ParserType::Markdown, &updated) {
                for (k, b) in tcs2.iter().enumerate() {
                    let output = Output { stdout: outputs[k].0.clone().into(), stderr: vec![].into(), exit_code: ExitStatus::Code(outputs[k].1) };
                    if b.validate(&output).is_err() {
                        fails.push(("C09:update-retained-quantified-expectations".to_string(), format!("{name}: the updated block still fails on the output it was updated from: {:?}", updated.chars().take(200).collect::<String>())));
                    }
                }
                let o2 = mk(&tcs2);
                let r2: Vec<&Outcome> = o2.iter().collect();
                if let Ok(Ok(updated2)) = guarded(|| MarkdownUpdateGenerator::default().generate_update(&updated, &r2)) {
                    if updated2 != updated {
                        fails.push(("C10:not-idempotent-retained-quantified-expectations".to_string(), format!("{name}: a second update changes the document again")));
                    }
                }
            }
        }
    }
    if prop == "C10" {
        let (op, out) = c10_op.unwrap_or(("oracle-only upd-skip".to_string(), "oracle-only".to_string()));
        return CaseRec { op, impl_out: out, oracle_fail: keep(prop, fails), nontrivial: true, tags: vec![format!("update:witness={name}")] };
    }
    let _ = impl_out;
    CaseRec { op: "noop".to_string(), impl_out: "ok".to_string(), oracle_fail: keep(prop, fails), nontrivial: true, tags: vec![format!("update:witness={name}")] }
}

// ------------------------------------------------------------------------------------------------
// C09, `update`: correspondence of `Outcome::generate_testcase` for a test WITH expectations with
// the Lean model `Gen.generateTestcaseUpd` (op `genupd`): the real diff is sent, the texts are compared
// ------------------------------------------------------------------------------------------------

/// `diff.lines` in the encoding of the `genupd` op; `Err` if a line carried by the diff is not the line
/// of that index of the output (the encoding would lose it)
fn upd_encode_diff(d: &scrut::diff::Diff, lines: &[&[u8]]) -> Result<String, String> {
    use scrut::diff::DiffLine;
    let idx = |ls: &Vec<(usize, Vec<u8>)>| -> Result<String, String> {
        for (i, bytes) in ls {
            if lines.get(*i).map_or(true, |l| *l != bytes.as_slice()) {
                return Err(format!("diff line {i} holds {:?}", String::from_utf8_lossy(bytes)));
            }
        }
        Ok(ls.iter().map(|(i, _)| i.to_string()).collect::<Vec<_>>().join("."))
    };
    if d.lines.is_empty() {
        return Ok("_".into());
    }
    let mut v = vec![];
    for l in &d.lines {
        v.push(match l {
            DiffLine::MatchedExpectation { index, lines, .. } => format!("m{}:{}", index, idx(lines)?),
            DiffLine::UnmatchedExpectation { index, .. } => format!("u{index}"),
            DiffLine::UnexpectedLines { lines } => format!("x{}", idx(lines)?),
        });
    }
    Ok(v.join(","))
}

/// one outcome of a test with the expectations `exps` (texts as a document holds them), expected exit code
/// `expected`, on the output `out` / `code`; `on_stderr`: the test validates stderr
#[allow(clippy::too_many_arguments)]
fn update_generate_case(prop: &str, esc: Escaper, cmd: &str, exps: &[&str], expected: Option<i32>, out: &[u8], code: i32, on_stderr: bool, tag: &str) -> Option<CaseRec> {
    use scrut::testcase::TestCaseError;
    let mk = ExpectationMaker::new(RuleRegistry::default());
    let mut expectations = vec![];
    for e in exps {
        expectations.push(mk.parse(e).ok()?);
    }
    let quantified = expectations.iter().any(|e| e.optional || e.multiline);
    let config = TestCaseConfig::default_markdown();
    let config = if on_stderr { TestCaseConfig { output_stream: Some(scrut::config::OutputStreamControl::Stderr), ..config } } else { config };
    let testcase = TestCase { title: "".into(), shell_expression: cmd.into(), expectations, exit_code: expected, line_number: 0, config };
    let output = if on_stderr {
        Output { stdout: b"noise on stdout\n".to_vec().into(), stderr: out.to_vec().into(), exit_code: ExitStatus::Code(code) }
    } else {
        Output { stdout: out.to_vec().into(), stderr: vec![].into(), exit_code: ExitStatus::Code(code) }
    };
    let result = testcase.validate(&output);
    let outcome = Outcome { location: None, output: output.clone(), testcase, escaping: esc.clone(), format: ParserType::Markdown, result };
    let mut fails: Vec<(String, String)> = vec![];
    let lines: Vec<&[u8]> = out.split_inclusive(|b| *b == b'\n').collect();
    // the open finding is about quantified expectations that the diff reports as matched (they are written back)
    let retained_quantified = match &outcome.result {
        Err(TestCaseError::MalformedOutput(d)) => d.lines.iter().any(|l| matches!(l, scrut::diff::DiffLine::MatchedExpectation { expectation, .. } if expectation.optional || expectation.multiline)),
        _ => false,
    };
    let (kind, diff, shape) = match &outcome.result {
        Ok(()) => ("ok".to_string(), "_".to_string(), "ok".to_string()),
        Err(TestCaseError::MalformedOutput(d)) => {
            let enc = match upd_encode_diff(d, &lines) {
                Ok(e) => e,
                Err(e) => {
                    fails.push(("C09:diff-lines-not-of-output".into(), e));
                    "_".into()
                }
            };
            let count = |c: char| enc.split(',').filter(|x| x.starts_with(c)).count().min(3);
            ("mal".to_string(), enc.clone(), format!("mal:m{}u{}x{}", count('m'), count('u'), count('x')))
        }
        Err(TestCaseError::InvalidExitCode { actual, .. }) => (format!("inv:{actual}"), "_".to_string(), if *actual == 0 { "inv:zero".into() } else { "inv:nonzero".into() }),
        Err(_) => return None,
    };
    let text = c10_generated_text(&outcome);
    let impl_out = match &text {
        Some(t) => hex(t.as_bytes()),
        None => "error".to_string(),
    };
    // direct oracle (the property): the document written for this outcome reads back as one test with the same
    // command that passes on the output it was written from
    let mut verdict = "none";
    if text.is_some() {
        if let Ok(Ok(doc)) = guarded(|| MarkdownTestCaseGenerator::default().generate_testcases(&[&outcome])) {
            let cls = lines.iter().enumerate().find_map(|(i, l)| line_class(l, i == 0, false));
            let class_of = |generic: &str| -> String {
                if retained_quantified {
                    "C09:update-retained-quantified-expectations".to_string()
                } else {
                    match cls {
                        Some(c) => format!("C09:{c}"),
                        None => format!("C09:{generic}"),
                    }
                }
            };
            match parse(ParserType::Markdown, &doc) {
                Err(e) => {
                    verdict = "parse-error";
                    fails.push((class_of("updated-does-not-parse"), format!("written {:?} -> {e}", doc.chars().take(200).collect::<String>())));
                }
                Ok(tcs) if tcs.len() != 1 => {
                    verdict = "test-count";
                    fails.push((class_of("updated-test-count"), format!("written document holds {} tests: {:?}", tcs.len(), doc.chars().take(200).collect::<String>())));
                }
                Ok(tcs) => {
                    if tcs[0].shell_expression != cmd {
                        fails.push((class_of("command-changed"), format!("command {:?} reads back as {:?}", cmd, tcs[0].shell_expression)));
                    }
                    match tcs[0].validate(&output) {
                        Ok(()) => verdict = "pass",
                        Err(e) => {
                            verdict = "fail";
                            fails.push((class_of("updated-test-fails"), format!("expectations {:?} on {:?} (exit code {code}, expected {expected:?}) are written as {:?}, which fails on that output: {}", exps, String::from_utf8_lossy(out), doc.chars().take(200).collect::<String>(), format!("{e:?}").chars().take(120).collect::<String>())));
                        }
                    }
                }
            }
        }
    }
    let mut others: Vec<u32> = vec![];
    for l in &lines {
        if let Ok(s) = std::str::from_utf8(l) {
            others.extend(s.chars().filter(|c| unicode_other(*c)).map(|c| c as u32));
        }
    }
    others.sort();
    others.dedup();
    let others = if others.is_empty() { "-".to_string() } else { others.iter().map(|c| format!("{c:x}")).collect::<Vec<_>>().join(",") };
    let origs = if outcome.testcase.expectations.is_empty() {
        "_".to_string()
    } else {
        outcome.testcase.expectations.iter().map(|e| hex(e.original_string().as_bytes())).collect::<Vec<_>>().join(",")
    };
    Some(CaseRec {
        op: format!("genupd {} {} {} {} {} {} {} {}", esc_name(&esc), others, hex(cmd.as_bytes()), origs, kind, diff, hex(out), code),
        impl_out,
        oracle_fail: keep(prop, fails),
        nontrivial: !exps.is_empty() && !lines.is_empty(),
        tags: vec![tag.to_string(), format!("upd-gen:result={shape}"), format!("upd-gen:expectations={}", exps.len().min(4)), format!("upd-gen:quantified={quantified}"), format!("upd-gen:verdict={verdict}")],
    })
}

/// expectations of every quantifier and of several kinds, chosen to (mis)match the lines of `UPD_OUT`
const UPD_EXP: [&str; 7] = ["foo", "bar", "ba* (glob)", "foo (?)", "b* (glob+)", "f.* (regex*)", "> x"];
/// output lines: matched by one / several / none of `UPD_EXP`; two that look like test syntax
const UPD_OUT: [&[u8]; 7] = [b"foo", b"bar", b"baz", b"[1]", b"[2147483648]", b"$ x\x01", b"> x"];
const UPD_EXP_MORE: [&str; 17] = ["[2147483648] (equal)","> x", "> * (glob)", "foo", "bar", "baz", "ba* (glob)", "foo (?)", "b* (glob+)", "f.* (regex*)", "foo (no-eol)", "a\\tb (escaped)", "[1] (equal)", "* (glob*)", "x\\x01 (escaped)", "foo (glob) (equal)", "  "];

fn update_generate_run(ctx: &Ctx, prop: &str) {
    let seed = ctx.seed;
    let (ne, no) = (UPD_EXP.len() as u64, UPD_OUT.len() as u64);
    let max_e: u32 = if ctx.thorough { 3 } else { 2 };
    let max_o: u32 = if ctx.thorough { 4 } else { 3 };
    // (number of expectations, number of lines) → offset
    let mut offs = vec![];
    let mut total = 0u64;
    for le in 0..=max_e {
        for lo in 0..=max_o {
            offs.push((le, lo, total));
            total += ne.pow(le) * no.pow(lo) * 2;
        }
    }
    let build = |le: u32, lo: u32, mut r: u64| -> (Vec<&'static str>, Vec<u8>, u64) {
        let final_nl = r % 2 == 0;
        r /= 2;
        let mut h = r;
        let mut exps = vec![];
        for _ in 0..le {
            exps.push(UPD_EXP[(r % ne) as usize]);
            r /= ne;
        }
        let mut out = vec![];
        for k in 0..lo {
            out.extend_from_slice(UPD_OUT[(r % no) as usize]);
            r /= no;
            if k + 1 < lo || final_nl {
                out.push(b'\n');
            }
        }
        h = h.wrapping_mul(0x9E3779B97F4A7C15) >> 33;
        (exps, out, h)
    };
    // the test passes its exit-code gate: `Ok` or `MalformedOutput` with the real diff
    ctx.run_stream("update-generate-testcase-exhaustive", total, true, |idx| {
        let (le, lo, base) = *offs.iter().rev().find(|(_, _, b)| *b <= idx).unwrap();
        let (exps, out, h) = build(le, lo, idx - base);
        let esc = if h % 2 == 0 { Escaper::Unicode } else { Escaper::Ascii };
        let (expected, code) = if (h / 2) % 3 == 0 { (Some(3), 3) } else { (None, 0) };
        update_generate_case(prop, esc, "the command", &exps, expected, &out, code, false, "update-generate-exhaustive")
    });
    // the exit-code gate fails: every line is regenerated whatever the expectations are
    let mut offs2 = vec![];
    let mut total2 = 0u64;
    for le in 0..=1u32 {
        for lo in 0..=max_o.min(2) {
            offs2.push((le, lo, total2));
            total2 += ne.pow(le) * no.pow(lo) * 2;
        }
    }
    ctx.run_stream("update-generate-testcase-exit-code-exhaustive", total2 * 2, true, |idx| {
        let (expected, code) = if idx % 2 == 0 { (None, 1) } else { (Some(2), 0) };
        let idx = idx / 2;
        let (le, lo, base) = *offs2.iter().rev().find(|(_, _, b)| *b <= idx).unwrap();
        let (exps, out, h) = build(le, lo, idx - base);
        let esc = if h % 2 == 0 { Escaper::Unicode } else { Escaper::Ascii };
        update_generate_case(prop, esc, "the command", &exps, expected, &out, code, false, "update-generate-exit-code")
    });
    ctx.run_stream("update-generate-testcase-random", if ctx.thorough { 100_000 } else { 3_000 }, false, |idx| {
        let mut rng = Rng::fork(seed, 54, idx);
        let ne = rng.range(0, 5);
        let exps: Vec<&str> = (0..ne).map(|_| *rng.pick(&UPD_EXP_MORE)).collect();
        let nl = rng.range(0, 6);
        let mut out: Vec<u8> = vec![];
        for k in 0..nl {
            match rng.below(8) {
                0 => out.extend_from_slice(*rng.pick(&LINE_ALPHABET)),
                1 => {
                    let len = rng.range(0, 8);
                    out.extend((0..len).map(|_| match rng.below(5) { 0 => b'\\', 1 => b' ', 2 => rng.below(32) as u8, _ => rng.below(256) as u8 }).filter(|b| *b != b'\n'));
                }
                2 => out.extend_from_slice(b"a\tb"),
                _ => out.extend_from_slice(*rng.pick(&UPD_OUT)),
            }
            if k + 1 < nl || rng.chance(4, 5) {
                out.push(b'\n');
            }
        }
        let esc = if rng.chance(1, 2) { Escaper::Unicode } else { Escaper::Ascii };
        let cmd = *rng.pick(&["the command", "the command", "multi\nline cmd", "caf\u{e9} 'a  b'", "", "ends in a line feed\n", "two\n\n"]);
        let (expected, code) = *rng.pick(&[(None, 0), (None, 0), (None, 0), (Some(3), 3), (None, 2), (Some(2), 0), (Some(1), 255)]);
        update_generate_case(prop, esc, cmd, &exps, expected, &out, code, rng.chance(1, 6), "update-generate-random")
    });
}

/// lines of a Markdown document that are outside scrut blocks (foreign blocks count as outside)
fn outside_lines(doc: &str) -> Vec<String> {
    let mut v = vec![];
    let mut in_scrut: Option<String> = None;
    let mut in_other: Option<String> = None;
    for l in doc.lines() {
        if let Some(f) = &in_scrut {
            if l.starts_with(f.as_str()) {
                in_scrut = None;
            }
            continue;
        }
        if let Some(f) = &in_other {
            v.push(l.to_string());
            if l.starts_with(f.as_str()) {
                in_other = None;
            }
            continue;
        }
        let ticks = l.chars().take_while(|c| *c == '`').count();
        if ticks >= 3 {
            let info = l[ticks..].trim();
            let lang = info.split(['{', ' ']).next().unwrap_or("");
            if lang == "scrut" {
                in_scrut = Some("`".repeat(ticks));
                continue;
            }
            in_other = Some("`".repeat(ticks));
        }
        v.push(l.to_string());
    }
    v
}

pub fn run(ctx: &Ctx, prop: &str) {
    if prop == "C10" {
        // C10 is about `update` only: the `create` streams are C09's
        return c10_run(ctx, prop);
    }
    let seed = ctx.seed;
    let na = LINE_ALPHABET.len() as u64;
    let maxl = if ctx.thorough { 3 } else { 2 };
    // all outputs of up to `maxl` lines over the collision alphabet x final newline x format x escaper x code
    let mut offs = vec![];
    let mut total = 0u64;
    for len in 0..=maxl {
        offs.push((len, total));
        total += na.pow(len) * 2 * 2 * 2 * 3;
    }
    ctx.run_stream("create-collision-alphabet-exhaustive", total, true, |idx| {
        let (len, base) = *offs.iter().rev().find(|(_, b)| *b <= idx).unwrap();
        let mut r = idx - base;
        let final_nl = r % 2 == 0;
        r /= 2;
        let fmt = if r % 2 == 0 { ParserType::Markdown } else { ParserType::Cram };
        r /= 2;
        let esc = if r % 2 == 0 { Escaper::Unicode } else { Escaper::Ascii };
        r /= 2;
        let code = [0, 1, 255][(r % 3) as usize];
        r /= 3;
        let mut out = vec![];
        for k in 0..len {
            out.extend_from_slice(LINE_ALPHABET[(r % na) as usize]);
            r /= na;
            if k + 1 < len || final_nl {
                out.push(b'\n');
            }
        }
        Some(create_case(prop, fmt, esc, "the command", &out, code, "create-alphabet"))
    });
    let n = if ctx.thorough { 200_000 } else { 10_000 };
    ctx.run_stream("create-random-bytes", n, false, |idx| {
        let mut rng = Rng::fork(seed, 51, idx);
        let len = rng.range(0, 24);
        let out: Vec<u8> = (0..len).map(|_| match rng.below(6) { 0 => b'\n', 1 => b'\\', 2 => b' ', 3 => rng.below(32) as u8, _ => rng.below(256) as u8 }).collect();
        let fmt = if rng.chance(1, 2) { ParserType::Markdown } else { ParserType::Cram };
        let esc = if rng.chance(1, 2) { Escaper::Unicode } else { Escaper::Ascii };
        let cmd = *rng.pick(&["the command", "multi\nline cmd", "echo 'a  b'", "payload on-stderr"]);
        // a Cram document cannot carry an inline output_stream: the stderr variant is Markdown only
        let fmt = if cmd.contains("on-stderr") { ParserType::Markdown } else { fmt };
        let src = if rng.chance(3, 4) || cmd.contains("on-stderr") { fmt } else if fmt == ParserType::Markdown { ParserType::Cram } else { ParserType::Markdown };
        Some(create_case_from(prop, src, fmt, esc, cmd, &out, *rng.pick(&[0, 0, 2]), "create-random"))
    });
    // lines assembled from syntax fragments: every combination of the first-character escape with the suffix logic
    let nfrag = (PRE.len() * MID.len() * SUF.len()) as u64;
    ctx.run_stream("create-fragment-lines-exhaustive", nfrag * 2 * 2 * 2 * 2 * 2, true, |idx| {
        let mut r = idx;
        let final_nl = r % 2 == 0;
        r /= 2;
        // `update --convert`: the outcome comes from a document of the other format
        let converted = r % 2 == 1;
        r /= 2;
        let fmt = if r % 2 == 0 { ParserType::Markdown } else { ParserType::Cram };
        r /= 2;
        let esc = if r % 2 == 0 { Escaper::Unicode } else { Escaper::Ascii };
        r /= 2;
        let second = r % 2 == 0;
        r /= 2;
        let mut line = vec![];
        line.extend_from_slice(PRE[(r % PRE.len() as u64) as usize]);
        r /= PRE.len() as u64;
        line.extend_from_slice(MID[(r % MID.len() as u64) as usize]);
        r /= MID.len() as u64;
        line.extend_from_slice(SUF[(r % SUF.len() as u64) as usize]);
        let mut out = if second { b"first\n".to_vec() } else { vec![] };
        out.extend_from_slice(&line);
        if final_nl {
            out.push(b'\n');
        }
        let src = if !converted { fmt } else if fmt == ParserType::Markdown { ParserType::Cram } else { ParserType::Markdown };
        Some(create_case_from(prop, src, fmt, esc, "the command", &out, if second { 3 } else { 0 }, "create-fragments"))
    });
    ctx.run_stream("create-commands", 9, true, |idx| {
        let cmd = ["", "a\n\nb", "caf\u{e9}\n\u{e9}t\u{e9}", "x\ny", "$ y", "> z\n> w", "a\n", "a\n\n", "\n"][idx as usize];
        Some(create_case(prop, ParserType::Markdown, Escaper::Unicode, cmd, b"out\n", 0, "create-commands"))
    });
    ctx.run_stream("update-documents-random", if ctx.thorough { 100_000 } else { 6_000 }, false, |idx| {
        let mut rng = Rng::fork(seed, 52, idx);
        Some(update_case(prop, &mut rng, idx))
    });
    ctx.run_stream("update-witnesses", 1, true, |_| {
        Some(update_witness(
            prop,
            "greedy-run-yields-to-new-neighbour",
            "# t\n\n```scrut\n$ cmd\na* (glob+)\nzzz\n*2 (glob)\n```\n",
            vec![(b"a1\na2\nb2\n".to_vec(), 0)],
        ))
    });
    update_generate_run(ctx, prop);
    let _ = CramUpdateGenerator::default; // the Cram update generator regenerates the whole document; covered by create
}

pub fn replay(prop: &str, op: &str) -> bool {
    let parts: Vec<&str> = op.split_whitespace().collect();
    match parts.first() {
        Some(&"gen") if parts.len() >= 6 => {
            let fmt = if parts[1] == "c" { ParserType::Cram } else { ParserType::Markdown };
            let esc = if parts[2] == "a" { Escaper::Ascii } else { Escaper::Unicode };
            let c = create_case(prop, fmt, esc, &String::from_utf8_lossy(&unhex(parts[4])), &unhex(parts[5]), parts[3].parse().unwrap_or(0), "replay");
            println!("generated: {:?}", String::from_utf8_lossy(&unhex(&c.impl_out)));
            for (cl, d) in &c.oracle_fail {
                println!("oracle-failure {cl}: {d}");
            }
            c.oracle_fail.is_empty()
        }
        Some(&"genupd") if parts.len() == 9 => {
            // the op holds everything but the expected exit code, which only decides the branch: rebuilt from the result kind
            let esc = if parts[1] == "a" { Escaper::Ascii } else { Escaper::Unicode };
            let cmd = String::from_utf8_lossy(&unhex(parts[3])).to_string();
            let origs: Vec<String> = if parts[4] == "_" { vec![] } else { parts[4].split(',').map(|h| String::from_utf8_lossy(&unhex(h)).to_string()).collect() };
            let exps: Vec<&str> = origs.iter().map(|s| s.as_str()).collect();
            let code: i32 = parts[8].parse().unwrap_or(0);
            let expected = if parts[5].starts_with("inv") { Some(if code == 7 { 8 } else { 7 }) } else if code == 0 { None } else { Some(code) };
            match update_generate_case(prop, esc, &cmd, &exps, expected, &unhex(parts[7]), code, false, "replay") {
                None => {
                    println!("an expectation does not parse: {:?}", exps);
                    false
                }
                Some(c) => {
                    println!("expectations: {:?}\noutput: {:?}\nop rebuilt: {}", exps, String::from_utf8_lossy(&unhex(parts[7])), c.op);
                    println!("generated: {:?}", if c.impl_out.chars().all(|x| x.is_ascii_hexdigit()) { String::from_utf8_lossy(&unhex(&c.impl_out)).to_string() } else { c.impl_out.clone() });
                    for (cl, d) in &c.oracle_fail {
                        println!("oracle-failure {cl}: {d}");
                    }
                    c.oracle_fail.is_empty()
                }
            }
        }
        Some(&"upd") if prop == "C10" && parts.len() == 3 => c10_replay(parts[1], parts[2]),
        _ => {
            eprintln!("replay of `upd` ops: re-run the stream with the same VERIF_SEED");
            false
        }
    }
}

// ------------------------------------------------------------------------------------------------
// C10: correspondence of `generate_update` with the Lean model (`Model/Update.lean`, op `upd`) and
// direct oracles on arbitrary (also malformed) documents with synthetic outcomes
// ------------------------------------------------------------------------------------------------

/// the text `Outcome::generate_testcase` returns (crate-private), obtained through the public
/// `create` generator, which wraps exactly that text into a fence: `[# title\n\n]<fence line>\n<text><backticks>\n`
pub(crate) fn c10_generated_text(o: &Outcome) -> Option<String> {
    let text = match guarded(|| MarkdownTestCaseGenerator::default().generate_testcases(&[o])) {
        Ok(Ok(t)) => t,
        _ => return None,
    };
    let prefix = if o.testcase.title.is_empty() { String::new() } else { format!("# {}\n\n", o.testcase.title) };
    let rest = text.strip_prefix(prefix.as_str())?;
    let n = rest.chars().take_while(|c| *c == '`').count();
    let first_nl = rest.find('\n')?;
    let end = rest.len().checked_sub(n + 1)?;
    if end < first_nl + 1 || !rest.is_char_boundary(end) {
        return None;
    }
    Some(rest[first_nl + 1..end].to_string())
}

/// canonical result of the real `generate_update`
fn c10_canon(r: &Result<anyhow::Result<String>, String>) -> String {
    match r {
        Err(_) => "crash".into(),
        Ok(Ok(t)) => format!("ok {}", hex(t.as_bytes())),
        Ok(Err(e)) => {
            // the outermost context names the test: "no outcome for testcase number N" / "testcase number N"
            let top = e.to_string();
            let num = |s: &str| s.trim().parse::<usize>().ok().and_then(|n| n.checked_sub(1));
            if let Some(n) = top.strip_prefix("no outcome for testcase number ").and_then(num) {
                format!("err no-outcome {n}")
            } else if let Some(n) = top.strip_prefix("testcase number ").and_then(num) {
                format!("err generate {n}")
            } else {
                "err other".into()
            }
        }
    }
}

fn c10_gens(outcomes: &[&Outcome]) -> String {
    if outcomes.is_empty() {
        return "-".into();
    }
    outcomes
        .iter()
        .map(|o| match c10_generated_text(o) {
            None => "!".to_string(),
            Some(t) if t.is_empty() => "e".to_string(),
            Some(t) => hex(t.as_bytes()),
        })
        .collect::<Vec<_>>()
        .join(",")
}

/// (op, impl_out)
pub(crate) fn c10_correspondence(doc: &str, outcomes: &[&Outcome]) -> (String, String) {
    let r = guarded(|| MarkdownUpdateGenerator::default().generate_update(doc, outcomes));
    (format!("upd {} {}", hex(doc.as_bytes()), c10_gens(outcomes)), c10_canon(&r))
}

/// Reference reading of a Markdown document, written from the documentation: front-matter is
/// `---` … `---` in front of any content; a code block starts at a line of >= 3 backticks + info
/// string and ends at the first line that starts with those backticks; the language is the info
/// string up to a `{`, trimmed; everything unterminated extends to the end.
#[derive(Debug, Clone, PartialEq)]
pub(crate) enum RefSeg {
    Line(String),
    Front { body: Vec<String>, closed: bool },
    Foreign(Vec<String>),
    Scrut { opener: String, body: Vec<String>, closed: bool },
}

fn c10_fence(l: &str) -> Option<(usize, String)> {
    let ticks = l.chars().take_while(|c| *c == '`').count();
    if ticks < 3 {
        return None;
    }
    let info = &l[ticks..];
    let lang = info.split('{').next().unwrap_or("").trim();
    Some((ticks, lang.to_string()))
}

pub(crate) fn c10_ref_segments(doc: &str) -> Vec<RefSeg> {
    let lines: Vec<&str> = doc.lines().collect();
    let mut segs = vec![];
    let mut content = false;
    let mut i = 0;
    while i < lines.len() {
        let l = lines[i];
        i += 1;
        if !content && l == "---" {
            let mut body = vec![];
            let mut closed = false;
            while i < lines.len() {
                let x = lines[i];
                i += 1;
                if x == "---" {
                    closed = true;
                    break;
                }
                body.push(x.to_string());
            }
            segs.push(RefSeg::Front { body, closed });
        } else if let Some((ticks, lang)) = c10_fence(l) {
            content = true;
            let fence = "`".repeat(ticks);
            let mut body = vec![];
            let mut closed = false;
            let mut closer = None;
            while i < lines.len() {
                let x = lines[i];
                i += 1;
                if x.starts_with(&fence) {
                    closed = true;
                    closer = Some(x.to_string());
                    break;
                }
                body.push(x.to_string());
            }
            if lang == "scrut" {
                segs.push(RefSeg::Scrut { opener: l.to_string(), body, closed });
            } else {
                let mut all = vec![l.to_string()];
                all.extend(body);
                all.extend(closer);
                segs.push(RefSeg::Foreign(all));
            }
        } else {
            if !l.trim().is_empty() {
                content = true;
            }
            segs.push(RefSeg::Line(l.to_string()));
        }
    }
    segs
}

/// lines outside scrut blocks; front-matter delimiters as written (`normal_front`: every
/// front-matter closed, which is what `update` writes)
pub(crate) fn c10_outside(segs: &[RefSeg], normal_front: bool) -> Vec<String> {
    let mut v = vec![];
    for s in segs {
        match s {
            RefSeg::Line(l) => v.push(l.clone()),
            RefSeg::Foreign(ls) => v.extend(ls.iter().cloned()),
            RefSeg::Front { body, closed } => {
                v.push("---".into());
                v.extend(body.iter().cloned());
                if *closed || normal_front {
                    v.push("---".into());
                }
            }
            RefSeg::Scrut { .. } => {}
        }
    }
    v
}

fn c10_comments(body: &[String]) -> Vec<String> {
    body.iter().take_while(|l| l.starts_with('#')).cloned().collect()
}

/// synthetic outcomes; `kind` selects the situation
fn c10_outcome(kind: u64, mk: &ExpectationMaker) -> Outcome {
    use scrut::testcase::TestCaseError;
    let (cmd, exps, out, code): (&str, Vec<&str>, &[u8], i32) = match kind {
        0 => ("cmd", vec!["foo"], b"foo\n", 0),                       // pass
        1 => ("cmd", vec!["foo"], b"bar\n", 0),                       // changed output
        2 => ("cmd", vec!["foo"], b"foo\n", 3),                       // changed exit code
        3 => ("multi\nline", vec!["a* (glob+)", "opt (?)"], b"a1\na2\n", 0), // pass, quantifiers kept
        4 => ("cmd", vec![], b"````\nx\n`````y", 0),                  // backtick lines, no final newline
        5 => ("cmd", vec!["foo"], b"foo\n", 0),                       // timeout (forced below)
        6 => ("cmd", vec![], b"", 0),                                 // pass, no expectations
        7 => ("cmd", vec!["```"], b"```\n", 0),                       // pass, expectation is a fence
        _ => ("cmd", vec!["foo"], b"# not a comment\n---\n", 0),      // output that looks like Markdown
    };
    let testcase = TestCase {
        title: "".into(),
        shell_expression: cmd.into(),
        expectations: exps.iter().map(|e| mk.parse(e).expect("expectation")).collect(),
        exit_code: None,
        line_number: 0,
        config: TestCaseConfig::default_markdown(),
    };
    let output = Output { stdout: out.to_vec().into(), stderr: vec![].into(), exit_code: ExitStatus::Code(code) };
    let result = match kind {
        5 => Err(TestCaseError::Timeout),
        _ => testcase.validate(&output),
    };
    Outcome { location: None, output, testcase, escaping: Escaper::Unicode, format: ParserType::Markdown, result }
}

/// arbitrary document + synthetic outcomes: correspondence + oracles (same outcomes twice)
fn c10_case(prop: &str, doc: &str, kinds: &[u64], tag: &str) -> CaseRec {
    let mk = ExpectationMaker::new(RuleRegistry::default());
    let outcomes: Vec<Outcome> = kinds.iter().map(|k| c10_outcome(*k, &mk)).collect();
    let refs: Vec<&Outcome> = outcomes.iter().collect();
    let mut fails: Vec<(String, String)> = vec![];
    let r = guarded(|| MarkdownUpdateGenerator::default().generate_update(doc, &refs));
    let impl_out = c10_canon(&r);
    // guard `GenOK` of C10_idempotent / C10_same_commands: every generated text ends in LF and
    // does not start with a comment line
    for o in &refs {
        if let Some(t) = c10_generated_text(o) {
            if !t.ends_with('\n') || t.lines().next().map_or(true, |l| l.starts_with('#')) {
                fails.push(("C10:generated-text-not-GenOK".into(), format!("{:?}", t)));
            }
        }
    }
    let segs = c10_ref_segments(doc);
    let n_scrut = segs.iter().filter(|s| matches!(s, RefSeg::Scrut { .. })).count();
    let n_code = segs.iter().filter(|s| matches!(s, RefSeg::Scrut { body, .. } if body.len() > c10_comments(body).len())).count();
    let mut verdict = "error";
    match &r {
        Err(p) => fails.push(("C10:update-panic".into(), format!("{p} on {:?}", doc))),
        Ok(Err(_)) => {
            // legitimate only when an outcome is missing or cannot be rendered
            let expected = !kinds.is_empty() && (kinds.len() < n_code || kinds.iter().take(n_code).any(|k| *k == 5));
            if !expected {
                fails.push(("C10:update-error".into(), format!("{impl_out} on {:?} with {} outcomes", doc, kinds.len())));
            }
        }
        Ok(Ok(updated)) if kinds.is_empty() => {
            verdict = "untouched";
            if updated != doc {
                fails.push(("C10:no-outcomes-changed-document".into(), format!("{:?}", doc)));
            }
        }
        Ok(Ok(updated)) => {
            verdict = "updated";
            let segs2 = c10_ref_segments(updated);
            // (a) lines outside scrut blocks
            let stray_cr = doc.lines().any(|l| l.ends_with('\r'));
            let o1 = c10_outside(&segs, false);
            let o2 = c10_outside(&segs2, false);
            if o1 != o2 {
                // the only change: `---` appended after a front-matter that is never closed
                let front_open = segs.iter().any(|s| matches!(s, RefSeg::Front { closed: false, .. }));
                let class = if front_open && c10_outside(&segs, true) == o2 {
                    "C10:front-matter-unterminated-gains-delimiter"
                } else if stray_cr {
                    "C10:stray-carriage-return-dropped"
                } else {
                    "C10:outside-lines-changed"
                };
                fails.push((class.into(), format!("document {:?}: outside lines {:?} became {:?}", doc, o1, o2).chars().take(300).collect()));
            }
            // (b) blocks: count, order, language + config, comments
            let b1: Vec<&RefSeg> = segs.iter().filter(|s| matches!(s, RefSeg::Scrut { .. })).collect();
            let b2: Vec<&RefSeg> = segs2.iter().filter(|s| matches!(s, RefSeg::Scrut { .. })).collect();
            if b1.len() != b2.len() {
                if !stray_cr {
                    fails.push(("C10:block-count-changed".into(), format!("document {:?}: {} scrut blocks became {}", doc, b1.len(), b2.len())));
                }
            } else {
                for (k, (x, y)) in b1.iter().zip(b2.iter()).enumerate() {
                    if let (RefSeg::Scrut { opener: oa, body: ba, .. }, RefSeg::Scrut { opener: ob, body: bb, closed }) = (x, y) {
                        let info = |o: &str| -> (String, Option<String>) {
                            let t = o.trim_start_matches('`');
                            match t.find('{') {
                                Some(p) => {
                                    let c = t[p..].trim_end();
                                    let inner = c.strip_prefix('{').and_then(|c| c.strip_suffix('}')).filter(|c| !c.is_empty());
                                    (t[..p].trim().to_string(), inner.map(|c| c.trim_start().to_string()))
                                }
                                None => (t.trim().to_string(), None),
                            }
                        };
                        let (ia, ib) = (info(oa), info(ob));
                        if ia.0 != ib.0 {
                            fails.push(("C10:block-language-changed".into(), format!("block {k}: {:?} -> {:?}", oa, ob)));
                        } else if ia.1 != ib.1 {
                            let blank = ia.1.as_deref() == Some("") && ib.1.is_none();
                            if !blank {
                                fails.push(("C10:block-config-changed".into(), format!("block {k}: {:?} -> {:?}", oa, ob)));
                            }
                        }
                        let ca = c10_comments(ba);
                        if bb.len() < ca.len() || bb[..ca.len()] != ca[..] {
                            if !stray_cr {
                                fails.push(("C10:block-comments-changed".into(), format!("block {k}: {:?} -> {:?}", ba, bb)));
                            }
                        }
                        if !closed {
                            fails.push(("C10:block-unterminated-after-update".into(), format!("block {k} of {:?}", updated)));
                        }
                    }
                }
            }
            // (d) idempotence under the same generated texts: the same outcomes once more
            match guarded(|| MarkdownUpdateGenerator::default().generate_update(updated, &refs)) {
                Ok(Ok(again)) => {
                    if &again != updated {
                        let blank_cfg = segs.iter().any(|s| match s {
                            RefSeg::Scrut { opener, .. } => {
                                let t = opener.trim_end();
                                match t.find('{') {
                                    Some(p) => t.ends_with('}') && t.len() > p + 2 && t[p + 1..t.len() - 1].trim().is_empty(),
                                    None => false,
                                }
                            }
                            _ => false,
                        });
                        let class = if stray_cr {
                            "C10:not-idempotent-stray-carriage-return"
                        } else if blank_cfg {
                            "C10:not-idempotent-blank-inline-config"
                        } else {
                            "C10:not-idempotent-same-outcomes"
                        };
                        fails.push((class.into(), format!("document {:?}: first update {:?}, second update {:?}", doc, updated, again).chars().take(400).collect()));
                    }
                }
                other => fails.push(("C10:second-update-fails".into(), format!("document {:?}: {}", doc, c10_canon(&other)))),
            }
        }
    }
    // A document with a stray carriage return (a line that still ends in CR after `str::lines()`) is the open finding
    // C10:stray-carriage-return-dropped / C10:not-idempotent-stray-carriage-return: the CR is lost when the line is
    // written back, so a fence line `...\r` can change what it is on the next reading (block structure, configuration,
    // termination, the second update). Whatever the oracles report on such a document is attributed to that finding --
    // and, so that nothing else hides behind it, the same oracles are run on the document without the stray CRs, whose
    // failures are reported under their own classes.
    if doc.lines().any(|l| l.ends_with('\r')) {
        for f in fails.iter_mut() {
            if !f.0.contains("stray-carriage-return") && f.0 != "C10:front-matter-unterminated-gains-delimiter" {
                f.1 = format!("[{}] {}", f.0, f.1);
                f.0 = if f.0.contains("idempotent") || f.0.contains("second-update") { "C10:not-idempotent-stray-carriage-return".to_string() } else { "C10:stray-carriage-return-dropped".to_string() };
            }
        }
        let norm: String = doc.split_inclusive('\n').map(|l| {
            let (body, nl) = match l.strip_suffix('\n') { Some(b) => (b, "\n"), None => (l, "") };
            // keep one CR in front of LF (a plain CRLF terminator), drop the others at the line end
            let trimmed = body.trim_end_matches('\r');
            let crlf = nl == "\n" && body.ends_with('\r');
            format!("{trimmed}{}{nl}", if crlf { "\r" } else { "" })
        }).collect();
        if norm != doc && !norm.lines().any(|l| l.ends_with('\r')) {
            let sub = c10_case(prop, &norm, kinds, tag);
            fails.extend(sub.oracle_fail.into_iter().map(|(c, d)| (c, format!("(on the document without its stray CRs) {d}"))));
        }
    }
    CaseRec {
        op: format!("upd {} {}", hex(doc.as_bytes()), c10_gens(&refs)),
        impl_out,
        oracle_fail: keep(prop, fails),
        nontrivial: n_scrut >= 1 && !kinds.is_empty(),
        tags: vec![tag.to_string(), format!("c10:verdict={verdict}"), format!("c10:scrut-blocks={}", n_scrut.min(4)), format!("c10:outcomes={}", kinds.len())],
    }
}

/// lines that hit every branch of the tokenizer and of the block writer
const C10_LINES: [&str; 12] = ["---", "```scrut", "```", "````scrut {timeout: 5s}", "# c", "$ x", "out", "", "```py", "```scrut {  }", "``` scrut  {a: 1} ", "````"];
const C10_LINES_MORE: [&str; 17] = ["[2147483648]","```scrut {\u{a0}a: 1}", "```scrut { \u{3000} }", "--- ", " ---", "`````", "```scrut {a: 1} trailing", "é```", "```scrut\u{a0}{x}", "~~~", "#", "> y", "[1]", "\t", "```scrutx", "``", "```scrut{timeout: 1s}"];
const C10_KINDS: [&[u64]; 6] = [&[1, 4], &[0, 2, 3], &[], &[8], &[7, 5], &[6, 1, 0, 4]];

fn c10_run(ctx: &Ctx, prop: &str) {
    let seed = ctx.seed;
    let na = C10_LINES.len() as u64;
    let maxl: u32 = if ctx.thorough { 5 } else { 4 };
    let mut offs = vec![];
    let mut total = 0u64;
    for len in 0..=maxl {
        offs.push((len, total));
        total += na.pow(len) * 2;
    }
    ctx.run_stream("update-any-document-exhaustive", total, true, |idx| {
        let (len, base) = *offs.iter().rev().find(|(_, b)| *b <= idx).unwrap();
        let mut r = idx - base;
        let variant = r % 2;
        r /= 2;
        let mut doc = String::new();
        let mut h = 0u64;
        for _ in 0..len {
            doc.push_str(C10_LINES[(r % na) as usize]);
            doc.push('\n');
            h = h.wrapping_mul(31).wrapping_add(r % na);
            r /= na;
        }
        let kinds = C10_KINDS[((h + variant * 3) % C10_KINDS.len() as u64) as usize];
        Some(c10_case(prop, &doc, kinds, "any-exhaustive"))
    });
    ctx.run_stream("update-any-document-random", if ctx.thorough { 300_000 } else { 20_000 }, false, |idx| {
        let mut rng = Rng::fork(seed, 53, idx);
        let n = rng.range(0, 14);
        let mut doc = String::new();
        let style = rng.below(8);
        for k in 0..n {
            let l = if rng.chance(2, 3) { *rng.pick(&C10_LINES) } else { *rng.pick(&C10_LINES_MORE) };
            doc.push_str(l);
            let last = k + 1 == n;
            match style {
                0 => doc.push_str("\r\n"),
                1 if rng.chance(1, 6) => doc.push_str("\r\r\n"),
                2 if rng.chance(1, 4) => doc.push_str("\r\n"),
                3 if last => {}
                4 if last => doc.push('\r'),
                _ => doc.push('\n'),
            }
        }
        let nk = rng.range(0, 5);
        let kinds: Vec<u64> = (0..nk).map(|_| if rng.chance(1, 12) { 5 } else { *rng.pick(&[0u64, 1, 2, 3, 4, 6, 7, 8]) }).collect();
        Some(c10_case(prop, &doc, &kinds, "any-random"))
    });
    ctx.run_stream("update-documents-random", if ctx.thorough { 100_000 } else { 6_000 }, false, |idx| {
        let mut rng = Rng::fork(seed, 52, idx);
        Some(update_case(prop, &mut rng, idx))
    });
    ctx.run_stream("update-witnesses", 1, true, |_| {
        Some(update_witness(
            prop,
            "greedy-run-yields-to-new-neighbour",
            "# t\n\n```scrut\n$ cmd\na* (glob+)\nzzz\n*2 (glob)\n```\n",
            vec![(b"a1\na2\nb2\n".to_vec(), 0)],
        ))
    });
}

fn c10_replay(doc: &str, gens: &str) -> bool {
    let doc = String::from_utf8_lossy(&unhex(doc)).to_string();
    println!("document: {:?}", doc);
    for (i, g) in gens.split(',').enumerate() {
        match g {
            "-" => println!("no outcomes"),
            "!" => println!("generated {i}: <generate_testcase fails>"),
            "e" => println!("generated {i}: \"\""),
            g => println!("generated {i}: {:?}", String::from_utf8_lossy(&unhex(g))),
        }
    }
    // the outcomes themselves are not part of the op: replay the reference reading
    println!("reference segments: {:?}", c10_ref_segments(&doc));
    true
}
