//! C09 / C10 end to end: the command-line glue of `scrut create` (src/bin/commands/create.rs) and
//! `scrut update` (src/bin/commands/update.rs) around the library generators.
//!
//! The in-process streams of generate.rs tie `generate_testcases` / `generate_update` to the Lean
//! model; nothing there executes the two command files (reading the expression, running it with
//! the real executor, building the `Outcome`, zip of test cases and outputs, detached handling,
//! `without_environment`, choice of the generator for `--convert`, where the file is written).
//! The streams here drive the real binary (`$SCRUT_BIN`) on commands whose output is KNOWN
//! (`cat <payload file>; (exit N)`) and compare what the binary WRITES with
//!   * the property itself (`scrut test` on the written document exits 0; lines outside scrut
//!     blocks, block count, passing tests, idempotence),
//!   * the Lean model (`gen` op for `create`, `upd` op for `update` under C10) and
//!   * the library generators called in-process with the known outputs.
use crate::common::*;
use crate::generate::{c10_correspondence, c10_generated_text, c10_outside, c10_ref_segments, create_case_from, keep, RefSeg, LINE_ALPHABET, MID, PRE, SUF};
use scrut::escaping::Escaper;
use scrut::expectation::ExpectationMaker;
use scrut::generators::cram::{CramTestCaseGenerator, CramUpdateGenerator};
use scrut::generators::generator::{TestCaseGenerator, UpdateGenerator};
use scrut::generators::markdown::{MarkdownTestCaseGenerator, MarkdownUpdateGenerator};
use scrut::newline::replace_crlf;
use scrut::outcome::Outcome;
use scrut::output::{ExitStatus, Output};
use scrut::parsers::cram::{CramParser, DEFAULT_CRAM_INDENTION};
use scrut::parsers::markdown::{MarkdownParser, DEFAULT_MARKDOWN_LANGUAGES};
use scrut::parsers::parser::{Parser, ParserType};
use scrut::rules::glob_cram::CramGlobRule;
use scrut::rules::registry::RuleRegistry;
use scrut::rules::rule::RuleMaker;
use scrut::testcase::TestCase;
use std::io::Write;
use std::path::{Path, PathBuf};
use std::sync::Arc;

const STREAM_CREATE: u64 = 61;
const STREAM_UPDATE: u64 = 62;
/// the title `scrut create` gives the test when `--title` is absent (create.rs, `default_value`)
const DEFAULT_TITLE: &str = "Command executes successfully";

fn scrut_bin() -> String {
    std::env::var("SCRUT_BIN").unwrap_or("/verif/.build/repo-target/debug/scrut".into())
}

/// root of the per-case directories; the path becomes part of the generated documents (inside the command), so it
/// must be free of characters that need care in a shell expression or in the document syntax
fn tmproot(what: &str) -> PathBuf {
    let base = std::env::temp_dir();
    let ok = base.to_str().map_or(false, |s| s.starts_with('/') && s.chars().all(|c| c.is_ascii_alphanumeric() || "/_-.".contains(c)));
    let base = if ok { base } else { PathBuf::from("/tmp") };
    base.join(format!("scrut-verif-cli-{what}-{}", std::process::id()))
}

pub(crate) struct Ran {
    /// None: killed by a signal
    pub(crate) code: Option<i32>,
    pub(crate) stdout: Vec<u8>,
    pub(crate) stderr: Vec<u8>,
}

impl Ran {
    pub(crate) fn show(&self) -> String {
        format!("exit {:?}, stderr {:?}", self.code, String::from_utf8_lossy(&self.stderr).chars().take(300).collect::<String>())
    }
    /// a Rust panic ends the process with 101, an abort with a signal
    pub(crate) fn crashed(&self) -> bool {
        self.code.is_none() || self.code == Some(101)
    }
}

/// one run of the binary: working directory = `cwd`, private TMPDIR `<case dir>/tmp`
pub(crate) fn scrut(case_dir: &Path, cwd: &Path, args: &[String], stdin: Option<&[u8]>) -> Ran {
    let mut cmd = std::process::Command::new(scrut_bin());
    cmd.args(args).current_dir(cwd).env("TMPDIR", case_dir.join("tmp")).env("NO_COLOR", "1").stdout(std::process::Stdio::piped()).stderr(std::process::Stdio::piped());
    cmd.stdin(if stdin.is_some() { std::process::Stdio::piped() } else { std::process::Stdio::null() });
    let mut child = cmd.spawn().expect("run scrut");
    if let Some(bytes) = stdin {
        let mut si = child.stdin.take().unwrap();
        let _ = si.write_all(bytes);
    }
    let out = child.wait_with_output().expect("wait for scrut");
    Ran { code: out.status.code(), stdout: out.stdout, stderr: out.stderr }
}

pub(crate) fn sv(xs: &[&str]) -> Vec<String> {
    xs.iter().map(|s| s.to_string()).collect()
}

pub(crate) fn fresh_dir(root: &Path, name: String) -> PathBuf {
    let dir = root.join(name);
    let _ = std::fs::remove_dir_all(&dir);
    std::fs::create_dir_all(dir.join("tmp")).unwrap();
    dir
}

fn fmt_name(f: ParserType) -> &'static str {
    match f {
        ParserType::Markdown => "markdown",
        ParserType::Cram => "cram",
    }
}

fn esc_flag(e: &Escaper) -> &'static str {
    match e {
        Escaper::Ascii => "ascii",
        Escaper::Unicode => "unicode",
    }
}

fn short(s: &str, n: usize) -> String {
    s.chars().take(n).collect()
}

// ------------------------------------------------------------------------------------------------
// 1. cli-create-e2e
// ------------------------------------------------------------------------------------------------

#[derive(Clone, Copy, PartialEq, Debug)]
enum ExprVia {
    /// `scrut create … -- '<expression>'`
    OneArg,
    /// `scrut create … -- 'cat <file>;' '(exit N)'`: create.rs joins the arguments with one blank
    TwoArgs,
    /// `scrut create … -`, the expression on STDIN
    Stdin,
}

struct CreateParams {
    out: Vec<u8>,
    code: i32,
    fmt: ParserType,
    esc: Escaper,
    /// `--output -` (document on STDOUT) instead of `--output <file>`
    to_stdout: bool,
    via: ExprVia,
    /// `--title`
    title: Option<&'static str>,
    payload_kind: &'static str,
}

fn create_params(seed: u64, idx: u64) -> CreateParams {
    let mut rng = Rng::fork(seed, STREAM_CREATE, idx);
    let (out, payload_kind): (Vec<u8>, &'static str) = match rng.below(10) {
        // lines of the collision alphabet, with or without final newline
        0..=4 => {
            let n = rng.range(1, 3);
            let mut o = vec![];
            for k in 0..n {
                o.extend_from_slice(*rng.pick(&LINE_ALPHABET));
                if k + 1 < n || rng.chance(2, 3) {
                    o.push(b'\n');
                }
            }
            (o, "alphabet")
        }
        // one line assembled from syntax fragments, alone or as second line
        5..=7 => {
            let mut o = if rng.chance(1, 2) { b"first\n".to_vec() } else { vec![] };
            o.extend_from_slice(*rng.pick(&PRE));
            o.extend_from_slice(*rng.pick(&MID));
            o.extend_from_slice(*rng.pick(&SUF));
            if rng.chance(1, 2) {
                o.push(b'\n');
            }
            (o, "fragments")
        }
        // random bytes (NUL, ESC, invalid UTF-8, CR, backslashes)
        _ => {
            let len = rng.range(0, 24);
            let mut o: Vec<u8> = (0..len).map(|_| match rng.below(6) { 0 => b'\n', 1 => b'\\', 2 => b' ', 3 => rng.below(32) as u8, _ => rng.below(256) as u8 }).collect();
            // CRLF line ending: the runner turns it into LF for Markdown, keeps it for Cram
            if rng.chance(1, 4) {
                if let Some(at) = o.iter().position(|b| *b == b'\n') {
                    o.insert(at, b'\r');
                }
            }
            (o, "random")
        }
    };
    let code = *rng.pick(&[0, 1, 3, 255]);
    let fmt = if rng.chance(1, 2) { ParserType::Markdown } else { ParserType::Cram };
    let esc = if rng.chance(1, 2) { Escaper::Unicode } else { Escaper::Ascii };
    let to_stdout = rng.chance(1, 6);
    let via = match rng.below(8) {
        0 => ExprVia::Stdin,
        1 | 2 => ExprVia::TwoArgs,
        _ => ExprVia::OneArg,
    };
    let title = if rng.chance(1, 6) { Some("Prints the payload") } else { None };
    CreateParams { out, code, fmt, esc, to_stdout, via, title, payload_kind }
}

fn create_e2e(prop: &str, p: &CreateParams, root: &Path, name: String) -> CaseRec {
    let dir = fresh_dir(root, name);
    let cram = p.fmt == ParserType::Cram;
    std::fs::write(dir.join("payload.bin"), &p.out).unwrap();
    // the command is part of the generated document: absolute path without blanks, nothing that needs care
    let cmd = format!("cat {}/payload.bin; (exit {})", dir.display(), p.code);
    // library level: the same case as generate.rs evaluates it (op for the Lean model, text of the library generator,
    // the in-process C09 oracles)
    // The KNOWN output is what the runner hands to create.rs, not the raw bytes of the payload: every runner passes
    // the captured streams through `TestCase::render_output` (subprocess_runner.rs), which turns CRLF into LF unless
    // `keep_crlf` is set (Markdown default: unset, Cram default: true). The real function is applied with the
    // configuration create.rs builds; nothing else is canonicalised.
    let config = if cram { scrut::config::TestCaseConfig::default_cram() } else { scrut::config::TestCaseConfig::default_markdown() };
    let known: Vec<u8> = TestCase { config, ..Default::default() }.render_output(&p.out).expect("render_output").into_owned();
    let mut rec = create_case_from(prop, p.fmt, p.fmt, p.esc.clone(), &cmd, &known, p.code, "cli-create");
    let lib_text = rec.impl_out.clone();
    let mut fails: Vec<(String, String)> = vec![];
    let doc_path = dir.join(if cram { "doc.t" } else { "doc.md" });
    let mut args = sv(&["create", "--format", fmt_name(p.fmt), "-e", esc_flag(&p.esc), "--output"]);
    args.push(if p.to_stdout { "-".to_string() } else { doc_path.display().to_string() });
    if let Some(t) = p.title {
        args.push("--title".into());
        args.push(t.into());
    }
    let mut stdin: Option<Vec<u8>> = None;
    match p.via {
        ExprVia::OneArg => {
            args.push("--".into());
            args.push(cmd.clone());
        }
        ExprVia::TwoArgs => {
            args.push("--".into());
            args.push(format!("cat {}/payload.bin;", dir.display()));
            args.push(format!("(exit {})", p.code));
        }
        ExprVia::Stdin => {
            args.push("-".into());
            stdin = Some(cmd.clone().into_bytes());
        }
    }
    let shown = format!("scrut {} (payload.bin = {})", args.join(" "), hex(&p.out));
    let ran = scrut(&dir, &dir, &args, stdin.as_deref());
    let mut test_exit = "none".to_string();
    let mut impl_out = "error".to_string();
    if ran.code != Some(0) {
        fails.push(("C09:cli-create-error".into(), format!("{shown}: {}{}", ran.show(), if ran.crashed() { " (crash)" } else { "" })));
    } else {
        // with `--output -` STDOUT carries the document and nothing else (progress goes to STDERR)
        let written: Option<Vec<u8>> = if p.to_stdout { Some(ran.stdout.clone()) } else { std::fs::read(&doc_path).ok() };
        match written {
            None => fails.push(("C09:cli-create-error".into(), format!("{shown}: exit 0 but {} was not written", doc_path.display()))),
            Some(bytes) => {
                if p.to_stdout {
                    std::fs::write(&doc_path, &bytes).unwrap();
                } else if !ran.stdout.is_empty() {
                    fails.push(("C09:cli-create-error".into(), format!("{shown}: unexpected text on STDOUT {:?}", short(&String::from_utf8_lossy(&ran.stdout), 120))));
                }
                // (b) correspondence: the library-level case has the title "", the command line always gives one
                // (markdown.rs: `# <title>\n\n` in front of the fence; cram.rs: `<title>\n` in front of the indented
                // lines). Nothing else is canonicalised: the rest of the file is compared byte for byte.
                let title = p.title.unwrap_or(DEFAULT_TITLE);
                let prefix = if cram { format!("{title}\n") } else { format!("# {title}\n\n") };
                match bytes.strip_prefix(prefix.as_bytes()) {
                    None => {
                        fails.push(("C09:cli-create-title".into(), format!("{shown}: document does not start with {:?}: {:?}", prefix, short(&String::from_utf8_lossy(&bytes), 160))));
                        impl_out = format!("no-title {}", hex(&bytes));
                    }
                    Some(rest) => {
                        impl_out = hex(rest);
                        if impl_out != lib_text {
                            fails.push((
                                "C09:cli-create-differs-from-library".into(),
                                format!("{shown}: the binary wrote {:?}, the library generator (outcome as create.rs builds it, known output) gives {:?}", short(&String::from_utf8_lossy(rest), 300), short(&String::from_utf8_lossy(&unhex(&lib_text)), 300)),
                            ));
                        }
                    }
                }
                // (a) the property: the written test passes on the output it was created from
                let t = scrut(&dir, &dir, &sv(&["test", &doc_path.display().to_string()]), None);
                test_exit = format!("{:?}", t.code);
                if t.code != Some(0) {
                    fails.push((
                        "C09:cli-create-fails-on-own-output".into(),
                        format!("{shown}; then `scrut test {}`: exit {:?}; document {:?}", doc_path.display(), t.code, short(&String::from_utf8_lossy(&bytes), 300)),
                    ));
                }
            }
        }
    }
    let _ = std::fs::remove_dir_all(&dir);
    rec.impl_out = impl_out;
    rec.oracle_fail.extend(keep(prop, fails));
    rec.tags.extend([
        format!("cli-create:output={}", if p.to_stdout { "stdout" } else { "file" }),
        format!("cli-create:expression={:?}", p.via),
        format!("cli-create:title={}", if p.title.is_some() { "given" } else { "default" }),
        format!("cli-create:payload={}", p.payload_kind),
        format!("cli-create:code={}", p.code),
        format!("cli-create:crlf-in-payload={}", p.out.windows(2).any(|w| w == b"\r\n")),
        format!("cli-create:scrut-test-exit={test_exit}"),
    ]);
    rec
}

// ------------------------------------------------------------------------------------------------
// 2. cli-update-e2e
// ------------------------------------------------------------------------------------------------

#[derive(Clone, Copy, PartialEq, Debug)]
enum ExpKind {
    /// the written expectations match the payload (rendered the way scrut writes them)
    Correct,
    /// other lines
    Stale,
    /// none
    Missing,
}

#[derive(Clone, Copy, PartialEq, Debug)]
enum Branch {
    /// `update --replace --assume-yes`
    Replace,
    /// `update --assume-yes [--output-suffix S]`: `<doc>.<ext><S>` is written, the document stays
    Suffix,
    /// `update --convert <other format> --assume-yes`
    Convert,
}

struct TSpec {
    payload: Vec<u8>,
    code: i32,
    exp: ExpKind,
    code_ok: bool,
    cfg: Option<&'static str>,
    comment: bool,
    detached: bool,
    wide_fence: bool,
}

struct UpdParams {
    cram: bool,
    branch: Branch,
    /// `-e`; None = the default of the document's format (root.rs `output_escaping`)
    esc: Option<Escaper>,
    suffix: Option<&'static str>,
    /// Convert: the document lies in a sub directory of the working directory
    in_subdir: bool,
    front_matter: bool,
    final_newline: bool,
    tests: Vec<TSpec>,
    /// filler between the tests: indices into FILLERS, per gap (one more gap than tests)
    fillers: Vec<Vec<usize>>,
}

const PLAIN_LINES: [&[u8]; 6] = [b"alpha", b"beta gamma", b"line 3", b"  indented", b"tab\there", b"0123"];
const FILLERS_MD: [&str; 8] = ["Some prose.\n", "> quote\n", "    indented\n", "``inline`` code\n", "```python\nprint(1)\n$ not a test\n```\n", "### a heading\n", "text with ``` inside\n", "\n"];
const FILLERS_CRAM: [&str; 3] = ["A comment line.\n", "\n", "Another remark, not indented.\n"];

fn upd_params(seed: u64, idx: u64) -> UpdParams {
    let mut rng = Rng::fork(seed, STREAM_UPDATE, idx);
    let cram = rng.chance(1, 4);
    let branch = match rng.below(20) {
        0..=11 => Branch::Replace,
        12..=14 => Branch::Suffix,
        _ => Branch::Convert,
    };
    let esc = match rng.below(3) {
        0 => None,
        1 => Some(Escaper::Ascii),
        _ => Some(Escaper::Unicode),
    };
    let n = rng.range(1, 4);
    let mut tests: Vec<TSpec> = (0..n)
        .map(|_| {
            let nl = rng.range(0, 3);
            let mut payload = vec![];
            for k in 0..nl {
                // no quantified expectations anywhere (they are payload here, never expectation syntax); no CR (a
                // converted document has another keep_crlf default)
                let l: &[u8] = if rng.chance(1, 3) { *rng.pick(&LINE_ALPHABET) } else { *rng.pick(&PLAIN_LINES) };
                payload.extend_from_slice(l);
                if k + 1 < nl || rng.chance(7, 8) {
                    payload.push(b'\n');
                }
            }
            let code = *rng.pick(&[0, 0, 1, 3]);
            TSpec {
                payload,
                code,
                exp: *rng.pick(&[ExpKind::Correct, ExpKind::Correct, ExpKind::Stale, ExpKind::Missing]),
                // a wrong expected code for a command that exits 0 was the finding
                // C10:cli-update-not-idempotent-exit-code-zero-written (repaired by fix 4ef7b15; kept as a regression class)
                code_ok: rng.chance(2, 3),
                // inline configuration exists in Markdown only; a converted document cannot express it
                cfg: if !cram && branch != Branch::Convert && rng.chance(1, 5) { Some("{timeout: 5s}") } else { None },
                comment: !cram && rng.chance(1, 5),
                detached: false,
                wide_fence: rng.chance(1, 8),
            }
        })
        .collect();
    if !cram && branch != Branch::Convert && rng.chance(1, 3) {
        let at = rng.range(0, tests.len());
        tests.insert(at, TSpec { payload: vec![], code: 0, exp: ExpKind::Missing, code_ok: true, cfg: Some("{detached: true}"), comment: false, detached: true, wide_fence: false });
    }
    let nf = if cram { FILLERS_CRAM.len() } else { FILLERS_MD.len() };
    let fillers = (0..=tests.len()).map(|_| (0..rng.range(0, 2)).map(|_| rng.below(nf as u64) as usize).collect()).collect();
    UpdParams {
        cram,
        branch,
        esc,
        suffix: if rng.chance(1, 2) { Some(".upd") } else { None },
        in_subdir: rng.chance(1, 2),
        front_matter: !cram && rng.chance(1, 4),
        final_newline: rng.chance(7, 8),
        tests,
        fillers,
    }
}

fn maker(cram: bool) -> Arc<ExpectationMaker> {
    // file_parser.rs `make_expectation_maker`
    let mut registry = RuleRegistry::default();
    if cram {
        registry.register(CramGlobRule::make, &["glob", "gl"]);
    }
    Arc::new(ExpectationMaker::new(registry))
}

/// the way file_parser.rs reads a document (without `--cram-compat`): parser by file extension, default configurations
pub(crate) fn file_parse(fmt: ParserType, text: &str) -> Result<Vec<TestCase>, String> {
    let r = guarded(|| match fmt {
        ParserType::Markdown => MarkdownParser::new(maker(false), DEFAULT_MARKDOWN_LANGUAGES, None).parse(text),
        ParserType::Cram => CramParser::new(maker(true), DEFAULT_CRAM_INDENTION).parse(text),
    });
    match r {
        Err(p) => Err(format!("parser panicked: {p}")),
        Ok(Err(e)) => Err(format!("parse error: {}", short(&format!("{e:#}"), 200))),
        Ok(Ok((_, tcs))) => Ok(tcs),
    }
}

/// expectation and exit code lines that scrut itself writes for (payload, code): only used to build documents whose
/// tests pass although the payload collides with the syntax (whether a test passes is decided by `validate` below)
fn rendered_lines(fmt: ParserType, esc: &Escaper, cmd: &str, payload: &[u8], code: i32) -> Vec<String> {
    let config = match fmt {
        ParserType::Markdown => scrut::config::TestCaseConfig::default_markdown(),
        ParserType::Cram => scrut::config::TestCaseConfig::default_cram(),
    };
    let testcase = TestCase { title: "".into(), shell_expression: cmd.into(), expectations: vec![], exit_code: None, line_number: 0, config };
    let output = Output { stdout: payload.to_vec().into(), stderr: vec![].into(), exit_code: ExitStatus::Code(code) };
    let result = testcase.validate(&output);
    let o = Outcome { location: None, output, testcase, escaping: esc.clone(), format: fmt, result };
    let text = c10_generated_text(&o).unwrap_or_default();
    text.lines().skip(1).map(|l| l.to_string()).collect()
}

/// (document text, per test: command)
fn render_doc(p: &UpdParams, dir: &Path) -> (String, Vec<String>) {
    let fmt = if p.cram { ParserType::Cram } else { ParserType::Markdown };
    let doc_esc = p.esc.clone().unwrap_or(if p.cram { Escaper::Ascii } else { Escaper::Unicode });
    let mut doc = String::new();
    let mut cmds = vec![];
    if p.front_matter {
        doc.push_str("---\ntotal_timeout: 30s\n---\n");
    }
    doc.push_str(if p.cram { "A Cram document\n\n" } else { "# A document\n\nIntroduction.\n\n" });
    let fill = |doc: &mut String, gap: usize| {
        for f in &p.fillers[gap] {
            doc.push_str(if p.cram { FILLERS_CRAM[*f] } else { FILLERS_MD[*f] });
        }
        if !p.fillers[gap].is_empty() {
            doc.push('\n');
        }
    };
    for (k, t) in p.tests.iter().enumerate() {
        fill(&mut doc, k);
        let cmd = if t.detached { "sleep 0.01".to_string() } else { format!("cat {}/p{k}.bin; (exit {})", dir.display(), t.code) };
        let mut body: Vec<String> = vec![];
        if !t.detached {
            let mut correct = rendered_lines(fmt, &doc_esc, &cmd, &t.payload, t.code);
            if t.code != 0 {
                correct.pop(); // the `[N]` line: written below
            }
            match t.exp {
                ExpKind::Correct => body.extend(correct),
                ExpKind::Stale => body.extend(["an outdated line".to_string(), "another one".to_string()]),
                ExpKind::Missing => {}
            }
            match (t.code_ok, t.code) {
                (true, 0) => {}
                (true, c) => body.push(format!("[{c}]")),
                (false, c) => body.push(format!("[{}]", c + 2)),
            }
        }
        if p.cram {
            doc.push_str(&format!("Test number {k}\n  $ {cmd}\n"));
            for l in &body {
                doc.push_str(&format!("  {l}\n"));
            }
            doc.push('\n');
        } else {
            let ticks = body.iter().map(|l| l.chars().take_while(|c| *c == '`').count()).max().unwrap_or(0).max(2) + 1 + usize::from(t.wide_fence);
            let fence = "`".repeat(ticks);
            doc.push_str(&format!("## Test number {k}\n\n{fence}scrut{}\n", t.cfg.map(|c| format!(" {c}")).unwrap_or_default()));
            if t.comment {
                doc.push_str("# a comment\n");
            }
            doc.push_str(&format!("$ {cmd}\n"));
            for l in &body {
                doc.push_str(l);
                doc.push('\n');
            }
            doc.push_str(&format!("{fence}\n\n"));
        }
        cmds.push(cmd);
    }
    fill(&mut doc, p.tests.len());
    if !p.cram {
        doc.push_str("Text after the last test.\n");
    }
    if !p.final_newline {
        while doc.ends_with('\n') {
            doc.pop();
        }
    }
    (doc, cmds)
}

/// the outcomes as update.rs builds them, from the KNOWN outputs
fn known_outcomes(p: &UpdParams, tcs: &[TestCase], escaper: &Escaper, fmt: ParserType, location: &Path) -> Vec<Outcome> {
    tcs.iter()
        .zip(p.tests.iter())
        .map(|(tc, t)| {
            let output = if t.detached {
                Output { stdout: vec![].into(), stderr: vec![].into(), exit_code: ExitStatus::Detached }
            } else {
                Output { stdout: t.payload.clone().into(), stderr: vec![].into(), exit_code: ExitStatus::Code(t.code) }
            };
            // update.rs: a detached test case is kept as it is
            let result = if output.exit_code == ExitStatus::Detached { Ok(()) } else { tc.validate(&output) };
            // with_environment(env) followed by without_environment(env) is the identity for documents without an
            // `environment:` configuration (none is generated here)
            Outcome { location: Some(location.to_string_lossy().to_string()), output, testcase: tc.clone(), escaping: escaper.clone(), format: fmt, result }
        })
        .collect()
}

pub(crate) fn scrut_bodies(doc: &str) -> Vec<Vec<String>> {
    c10_ref_segments(doc).into_iter().filter_map(|s| if let RefSeg::Scrut { body, .. } = s { Some(body) } else { None }).collect()
}

fn update_e2e(prop: &str, seed: u64, idx: u64, root: &Path, name: String, verbose: bool) -> CaseRec {
    let p = upd_params(seed, idx);
    let dir = fresh_dir(root, name);
    let fmt = if p.cram { ParserType::Cram } else { ParserType::Markdown };
    let other = if p.cram { ParserType::Markdown } else { ParserType::Cram };
    let ext = if p.cram { "t" } else { "md" };
    for (k, t) in p.tests.iter().enumerate() {
        if !t.detached {
            std::fs::write(dir.join(format!("p{k}.bin")), &t.payload).unwrap();
        }
    }
    let (doc, cmds) = render_doc(&p, &dir);
    let doc_dir = if p.branch == Branch::Convert && p.in_subdir { dir.join("docs") } else { dir.clone() };
    std::fs::create_dir_all(&doc_dir).unwrap();
    let doc_path = doc_dir.join(format!("doc.{ext}"));
    std::fs::write(&doc_path, &doc).unwrap();
    let replay_hint = format!("replay: oracle-only cli-upd {seed} {idx}");
    let mut fails: Vec<(String, String)> = vec![];
    let mut tags: Vec<String> = vec![format!("cli-update:format={}", fmt_name(fmt)), format!("cli-update:branch={:?}", p.branch), format!("cli-update:tests={}", p.tests.len()), format!("cli-update:escaper={}", p.esc.as_ref().map_or("default", esc_flag))];
    if p.tests.iter().any(|t| t.detached) {
        tags.push("cli-update:with-detached-test".into());
    }

    // ---- in-process: what the library says ---------------------------------------------------------------------
    let content = String::from_utf8(replace_crlf(doc.as_bytes()).into()).expect("documents are UTF-8");
    let tcs = file_parse(fmt, &content).unwrap_or_else(|e| panic!("generated document does not parse: {e}: {doc:?}"));
    assert_eq!(tcs.len(), p.tests.len(), "generated document holds the planned tests: {doc:?}");
    for (tc, c) in tcs.iter().zip(cmds.iter()) {
        assert_eq!(&tc.shell_expression, c, "generated document holds the planned commands");
    }
    let escaper = p.esc.clone().unwrap_or(match fmt {
        ParserType::Markdown => Escaper::Unicode,
        ParserType::Cram => Escaper::Ascii,
    });
    let outcomes = known_outcomes(&p, &tcs, &escaper, fmt, &doc_path);
    let refs: Vec<&Outcome> = outcomes.iter().collect();
    let passing: Vec<bool> = outcomes.iter().map(|o| o.result.is_ok()).collect();
    for (t, ok) in p.tests.iter().zip(passing.iter()) {
        tags.push(format!("cli-update:test={}", if t.detached { "detached" } else if *ok { "passes" } else if t.exp == ExpKind::Correct && !t.code_ok { "wrong-exit-code" } else { "wrong-output" }));
    }
    let lib: Result<String, String> = match p.branch {
        Branch::Convert => guarded(|| match other {
            // update.rs `convert_test`
            ParserType::Cram => CramTestCaseGenerator::default().generate_testcases(&refs),
            ParserType::Markdown => MarkdownTestCaseGenerator::new(DEFAULT_MARKDOWN_LANGUAGES[0]).generate_testcases(&refs),
        }),
        // update.rs `update_test`
        _ => guarded(|| match fmt {
            ParserType::Markdown => MarkdownUpdateGenerator::new(DEFAULT_MARKDOWN_LANGUAGES).generate_update(&content, &refs),
            ParserType::Cram => CramUpdateGenerator::default().generate_update(&content, &refs),
        }),
    }
    .map_err(|p| format!("panic: {p}"))
    .and_then(|r| r.map_err(|e| format!("{e:#}")));
    // C10 correspondence with the Lean model (`upd`: document + text generated per outcome -> updated document)
    let model_op = if prop == "C10" && !p.cram && p.branch != Branch::Convert { Some(c10_correspondence(&content, &refs).0) } else { None };

    // ---- the binary -------------------------------------------------------------------------------------------
    let mut args = sv(&["update", "--assume-yes"]);
    match p.branch {
        Branch::Replace => args.push("--replace".into()),
        Branch::Suffix => {
            if let Some(s) = p.suffix {
                args.push("--output-suffix".into());
                args.push(s.into());
            }
        }
        Branch::Convert => {
            args.push("--convert".into());
            args.push(fmt_name(other).into());
        }
    }
    if let Some(e) = &p.esc {
        args.push("-e".into());
        args.push(esc_flag(e).into());
    }
    args.push(doc_path.display().to_string());
    let shown = format!("scrut {}", args.join(" "));
    let describe = |what: &str| -> String {
        let payloads: Vec<String> = p.tests.iter().enumerate().filter(|(_, t)| !t.detached).map(|(k, t)| format!("p{k}.bin={}", hex(&t.payload))).collect();
        format!("{what}; `{shown}` (working directory {}) on document {:?} with {} [{replay_hint}]", dir.display(), short(&doc, 700), payloads.join(" "))
    };
    let ran = scrut(&dir, &dir, &args, None);
    if verbose {
        println!("document {}:\n{doc}\n--\n$ {shown}\n{}\nstdout: {}", doc_path.display(), ran.show(), String::from_utf8_lossy(&ran.stdout));
    }
    let mut impl_out = "error".to_string();
    let mut verdict = "error";
    if ran.code != Some(0) {
        for pr in ["C09", "C10"] {
            fails.push((format!("{pr}:cli-update-error"), describe(&format!("{}{}", ran.show(), if ran.crashed() { " (crash)" } else { "" }))));
        }
    } else {
        let lib_text = match &lib {
            Ok(t) => t.clone(),
            Err(e) => {
                // the binary succeeded where the library, given the known outputs, does not
                fails.push((format!("{}:cli-update-differs-from-library", if p.branch == Branch::Convert { "C09" } else { "C10" }), describe(&format!("the binary exits 0, the library generator fails: {e}"))));
                String::new()
            }
        };
        let original_now = std::fs::read(&doc_path).unwrap_or_default();
        // where update.rs writes: conversion -> <file stem>.<extension of the other format>, a RELATIVE path (the
        // directory of the document is dropped: `file_stem()`), i.e. into the working directory; --replace -> the
        // document; else <document><suffix>
        let (after, after_path): (Vec<u8>, PathBuf) = match p.branch {
            Branch::Replace => {
                verdict = if original_now == doc.as_bytes() { "unchanged" } else { "rewritten" };
                // with --replace nothing but the document is written
                let others: Vec<String> = std::fs::read_dir(&doc_dir).map(|r| r.filter_map(|e| e.ok()).map(|e| e.file_name().to_string_lossy().to_string()).filter(|n| n.starts_with("doc.") && *n != format!("doc.{ext}")).collect()).unwrap_or_default();
                if !others.is_empty() {
                    fails.push(("C10:cli-update-wrong-output-path".into(), describe(&format!("with --replace the update was written to {:?}", others))));
                }
                (original_now.clone(), doc_path.clone())
            }
            Branch::Suffix => {
                let np = doc_dir.join(format!("doc.{ext}{}", p.suffix.unwrap_or(".new")));
                if original_now != doc.as_bytes() {
                    fails.push(("C10:cli-update-original-modified".into(), describe("without --replace the document itself was changed")));
                }
                match std::fs::read(&np) {
                    Ok(b) => {
                        verdict = "suffix-file-written";
                        (b, np)
                    }
                    Err(_) => {
                        verdict = "suffix-file-absent";
                        if lib.is_ok() && lib_text != content {
                            fails.push(("C10:cli-update-suffix-file-missing".into(), describe(&format!("the update changes the document but {} was not written", np.display()))));
                        }
                        let others: Vec<String> = std::fs::read_dir(&doc_dir).map(|r| r.filter_map(|e| e.ok()).map(|e| e.file_name().to_string_lossy().to_string()).filter(|n| n.starts_with("doc.") && *n != format!("doc.{ext}")).collect()).unwrap_or_default();
                        if !others.is_empty() {
                            fails.push(("C10:cli-update-suffix-file-missing".into(), describe(&format!("written to {:?} instead of {}", others, np.display()))));
                        }
                        (original_now.clone(), doc_path.clone())
                    }
                }
            }
            Branch::Convert => {
                let oext = if other == ParserType::Cram { "t" } else { "md" };
                if original_now != doc.as_bytes() {
                    fails.push(("C10:cli-update-original-modified".into(), describe("--convert changed the document it converts")));
                }
                let in_cwd = dir.join(format!("doc.{oext}"));
                let beside = doc_dir.join(format!("doc.{oext}"));
                if in_cwd.exists() {
                    tags.push(format!("cli-update:converted-file={}", if in_cwd == beside { "working-directory=document-directory" } else { "working-directory-not-document-directory" }));
                    verdict = "converted";
                    (std::fs::read(&in_cwd).unwrap_or_default(), in_cwd)
                } else if beside.exists() {
                    tags.push("cli-update:converted-file=document-directory".into());
                    verdict = "converted";
                    (std::fs::read(&beside).unwrap_or_default(), beside)
                } else {
                    verdict = "converted-file-absent";
                    fails.push(("C09:cli-convert-no-file".into(), describe(&format!("neither {} nor {} was written", in_cwd.display(), beside.display()))));
                    (vec![], in_cwd)
                }
            }
        };
        let after_text = String::from_utf8_lossy(&after).to_string();
        impl_out = format!("ok {}", hex(&after));
        // (d) binary vs library
        if lib.is_ok() && after != lib_text.as_bytes() && verdict != "converted-file-absent" {
            fails.push((
                format!("{}-differs-from-library", if p.branch == Branch::Convert { "C09:cli-convert" } else { "C10:cli-update" }),
                describe(&format!("the binary wrote {:?}, the library generator (outcomes as update.rs builds them, known outputs) gives {:?}", short(&after_text, 500), short(&lib_text, 500))),
            ));
        }
        if p.branch == Branch::Convert {
            // the converted document holds the same tests
            if verdict == "converted" {
                match file_parse(other, &after_text) {
                    Err(e) => fails.push(("C09:cli-convert-does-not-parse".into(), describe(&format!("{e}: {:?}", short(&after_text, 300))))),
                    Ok(t2) => {
                        let c2: Vec<&str> = t2.iter().map(|t| t.shell_expression.as_str()).collect();
                        if c2 != cmds.iter().map(|c| c.as_str()).collect::<Vec<_>>() {
                            fails.push(("C09:cli-convert-commands-changed".into(), describe(&format!("commands {:?} became {:?}", cmds, c2))));
                        }
                    }
                }
            }
        } else if !p.cram {
            // (b) C10 on the written Markdown document, line level, against the reference reading of generate.rs
            let (s1, s2) = (c10_ref_segments(&doc), c10_ref_segments(&after_text));
            let (o1, o2) = (c10_outside(&s1, false), c10_outside(&s2, false));
            if o1 != o2 {
                fails.push(("C10:cli-update-outside-lines-changed".into(), describe(&format!("lines outside scrut blocks {:?} became {:?}", o1, o2))));
            }
            let (b1, b2) = (scrut_bodies(&doc), scrut_bodies(&after_text));
            if b1.len() != b2.len() || b1.len() != p.tests.len() {
                fails.push(("C10:cli-update-block-count-changed".into(), describe(&format!("{} scrut blocks became {}", b1.len(), b2.len()))));
            } else {
                for (k, (x, y)) in b1.iter().zip(b2.iter()).enumerate() {
                    let cmd_line = format!("$ {}", cmds[k]);
                    if !y.contains(&cmd_line) {
                        fails.push(("C10:cli-update-block-count-changed".into(), describe(&format!("block {k} no longer holds its command: {:?}", y))));
                    }
                    if passing[k] && x != y {
                        fails.push(("C10:cli-update-passing-test-rewritten".into(), describe(&format!("test {k} passes, its block {:?} became {:?}", x, y))));
                    }
                }
            }
        } else {
            // Cram: the document is regenerated as a whole (titles + tests); the commands stay
            match file_parse(ParserType::Cram, &after_text) {
                Err(e) => fails.push(("C10:cli-update-block-count-changed".into(), describe(&format!("updated document: {e}")))),
                Ok(t2) => {
                    let c2: Vec<&str> = t2.iter().map(|t| t.shell_expression.as_str()).collect();
                    if c2 != cmds.iter().map(|c| c.as_str()).collect::<Vec<_>>() {
                        fails.push(("C10:cli-update-block-count-changed".into(), describe(&format!("commands {:?} became {:?}", cmds, c2))));
                    }
                }
            }
        }
        // (a) C09: the written document passes. A `<doc>.md.new` is not recognised as a test document by its name:
        // test a copy that carries the extension
        if verdict != "converted-file-absent" {
            let test_path = if p.branch == Branch::Suffix && verdict == "suffix-file-written" {
                let d = dir.join("written");
                std::fs::create_dir_all(&d).unwrap();
                let tp = d.join(format!("doc.{ext}"));
                std::fs::write(&tp, &after).unwrap();
                tp
            } else {
                after_path.clone()
            };
            let t = scrut(&dir, &dir, &sv(&["test", &test_path.display().to_string()]), None);
            tags.push(format!("cli-update:scrut-test-exit={:?}", t.code));
            if verbose {
                println!("written {}:\n{after_text}\n--\n$ scrut test {}\n{}\nstdout: {}", after_path.display(), test_path.display(), t.show(), String::from_utf8_lossy(&t.stdout));
            }
            if t.code != Some(0) {
                let class = if p.branch == Branch::Convert { "C09:cli-convert-fails-on-own-output" } else { "C09:cli-update-fails-on-own-output" };
                fails.push((class.into(), describe(&format!("`scrut test` on the written document exits {:?}: written {:?}; {}", t.code, short(&after_text, 500), short(&String::from_utf8_lossy(&t.stdout), 300)))));
            }
        }
        // (c) idempotence of the command: once more on the updated document
        if p.branch == Branch::Replace {
            let again = scrut(&dir, &dir, &args, None);
            let now = std::fs::read(&doc_path).unwrap_or_default();
            if again.code != Some(0) {
                fails.push(("C10:cli-update-not-idempotent".into(), describe(&format!("the second update fails: {}", again.show()))));
            } else if now != after {
                // REPAIRED by fix 4ef7b15 (library level, src/generators/outcome.rs), regression class: for a test that exits 0 where another exit code is
                // expected (`[2]`), InvalidExitCode{actual: 0} is rendered with the line `[0]`; the test then passes, and
                // a passing test is rendered without `[0]` (generate_testcase_exit_code writes only codes != 0), so the
                // second update removes the line again. Own narrow class; everything else stays in the generic one.
                let zero_written = p.tests.iter().any(|t| !t.detached && t.code == 0 && !t.code_ok);
                let class = if zero_written { "C10:cli-update-not-idempotent-exit-code-zero-written" } else { "C10:cli-update-not-idempotent" };
                fails.push((class.into(), describe(&format!("a second update changes the document again: {:?} became {:?}", short(&after_text, 400), short(&String::from_utf8_lossy(&now), 400)))));
                if zero_written {
                    // the finding must not mask anything else: from here on the document has to be a fixpoint
                    let third = scrut(&dir, &dir, &args, None);
                    let then = std::fs::read(&doc_path).unwrap_or_default();
                    if third.code != Some(0) || then != now {
                        fails.push(("C10:cli-update-not-idempotent".into(), describe(&format!("a third update changes the document once more ({}): {:?} became {:?}", third.show(), short(&String::from_utf8_lossy(&now), 400), short(&String::from_utf8_lossy(&then), 400)))));
                    }
                }
            }
        }
    }
    tags.push(format!("cli-update:verdict={verdict}"));
    let _ = std::fs::remove_dir_all(&dir);
    let (op, impl_out) = match model_op {
        Some(op) => (op, impl_out),
        // every other case runs the direct oracles only; the op names the case so that it can be replayed
        None => (format!("oracle-only cli-upd {seed} {idx}"), "oracle-only".to_string()),
    };
    CaseRec { op, impl_out, oracle_fail: keep(prop, fails), nontrivial: p.tests.iter().any(|t| !t.detached), tags }
}

// ------------------------------------------------------------------------------------------------
// 3. cli-update-languages-e2e: `--markdown-languages`
// ------------------------------------------------------------------------------------------------

/// `scrut update --markdown-languages …`: the languages that make a code block a test are a command-line choice; the
/// document is parsed, executed AND rewritten with the same list. Blocks in `scrut`, `sh` and `python`; for each
/// list, the blocks of the listed languages are tests (stale expectations get updated), all other blocks are kept byte
/// for byte; the written document equals what the library writes for that list and passes `scrut test` with it.
fn languages_e2e(prop: &str, idx: u64, root: &Path) -> CaseRec {
    let lists: [&[&str]; 4] = [&["sh"], &["scrut", "sh"], &["sh", "scrut"], &["scrut"]];
    let langs = lists[(idx % 4) as usize];
    let order = (idx / 4) % 6; // order of the three blocks
    let stale = (idx / 24) % 4; // which of scrut / sh blocks carry stale expectations (bit 0: scrut, bit 1: sh)
    let dir = fresh_dir(root, format!("l{idx}"));
    let blocks: [(&str, String); 3] = [
        ("scrut", format!("```scrut\n$ echo from-scrut\n{}\n```\n", if stale & 1 == 1 { "stale-scrut" } else { "from-scrut" })),
        ("sh", format!("```sh\n$ echo from-sh\n{}\n```\n", if stale & 2 == 2 { "stale-sh" } else { "from-sh" })),
        ("python", "```python\n$ echo not-a-test\nnever-updated\n```\n".to_string()),
    ];
    let perm: [[usize; 3]; 6] = [[0, 1, 2], [0, 2, 1], [1, 0, 2], [1, 2, 0], [2, 0, 1], [2, 1, 0]];
    let mut doc = String::from("# Languages\n\n");
    for k in perm[order as usize] {
        doc.push_str(&format!("## block {}\n\n{}\n", blocks[k].0, blocks[k].1));
    }
    let doc_path = dir.join("doc.md");
    std::fs::write(&doc_path, &doc).unwrap();
    let mut largs: Vec<String> = vec![];
    for l in langs {
        largs.push(format!("--markdown-languages={l}"));
    }
    let mut args = sv(&["update", "--replace", "--assume-yes"]);
    args.extend(largs.clone());
    args.push(doc_path.display().to_string());
    let ran = scrut(&dir, &dir, &args, None);
    let after = std::fs::read_to_string(&doc_path).unwrap_or_default();
    let mut fails = vec![];
    let describe = |what: &str| format!("{what}; `scrut {}` on {:?} -> {:?}", args.join(" "), doc, short(&after, 600));
    // what must be written: the listed languages' blocks with the real output, everything else as it was
    let mut want = String::from("# Languages\n\n");
    for k in perm[order as usize] {
        let (lang, text) = &blocks[k];
        let text = if langs.contains(lang) { format!("```{lang}\n$ echo from-{lang}\nfrom-{lang}\n```\n") } else { text.clone() };
        want.push_str(&format!("## block {lang}\n\n{text}\n"));
    }
    if ran.code != Some(0) {
        fails.push(("C10:cli-update-languages".to_string(), describe(&format!("update failed: {}", ran.show()))));
    } else if after != want {
        fails.push(("C10:cli-update-languages".to_string(), describe(&format!("expected {:?}", want))));
    } else {
        let mut targs = sv(&["test"]);
        targs.extend(largs.clone());
        targs.push(doc_path.display().to_string());
        let t = scrut(&dir, &dir, &targs, None);
        if t.code != Some(0) {
            fails.push(("C10:cli-update-languages".to_string(), describe(&format!("`scrut {}` on the updated document: {}", targs.join(" "), t.show()))));
        }
    }
    let _ = std::fs::remove_dir_all(&dir);
    CaseRec { op: "noop".into(), impl_out: "ok".into(), oracle_fail: keep(prop, fails), nontrivial: true, tags: vec![format!("cli-update-languages:list={}", langs.join("+")), format!("cli-update-languages:stale={stale}")] }
}

// ------------------------------------------------------------------------------------------------
// 4. cli-update-untouched-e2e: documents that `update` must leave alone
// ------------------------------------------------------------------------------------------------

/// Documents with stale expectations that `scrut update --replace --assume-yes` nevertheless must not rewrite:
/// a test case ends with the skip code (the document is skipped), the document pulls in others with `prepend` /
/// `append` (not supported by update: skipped), a test case runs into its timeout (update gives up with an error),
/// the document holds no test at all. In every case the file stays byte for byte what it was — no partial update —
/// and no `.new` file appears next to it.
fn untouched_e2e(prop: &str, idx: u64, root: &Path) -> CaseRec {
    let kind = idx % 5;
    let cram = (idx / 5) % 2 == 1 && kind != 2; // front-matter exists in Markdown only
    let dir = fresh_dir(root, format!("n{idx}"));
    let stale = |k: usize| if cram { format!("t{k}\n  $ echo real{k}\n  stale{k}\n\n") } else { format!("# t{k}\n\n```scrut\n$ echo real{k}\nstale{k}\n```\n\n") };
    let special = |cmd: &str, cfg: &str| if cram { format!("special\n  $ {cmd}\n\n") } else { format!("# special\n\n```scrut{cfg}\n$ {cmd}\n```\n\n") };
    let mut doc = String::new();
    let mut want_ok = true;
    match kind {
        0 => doc = format!("{}{}{}", stale(0), special("exit 80", ""), stale(1)),
        1 => doc = format!("{}{}{}", stale(0), special("(exit 80)", ""), stale(1)),
        2 => {
            std::fs::write(dir.join("other.md"), "# o\n\n```scrut\n$ echo other\nother\n```\n").unwrap();
            doc = format!("---\nprepend: [other.md]\n---\n\n{}", stale(0));
        }
        3 => {
            if cram {
                // a Cram document cannot carry a per-test timeout: use the command line limit
                doc = format!("{}{}", stale(0), special("sleep 5", ""));
            } else {
                doc = format!("{}{}{}", stale(0), special("sleep 5", " {timeout: 300ms}"), stale(1));
            }
            want_ok = false;
        }
        _ => doc = if cram { "Just a title\n\nand prose, no command\n".to_string() } else { "# Nothing\n\n```python\nprint(1)\n```\n".to_string() },
    }
    let doc_path = dir.join(if cram { "doc.t" } else { "doc.md" });
    std::fs::write(&doc_path, &doc).unwrap();
    let mut args = sv(&["update", "--replace", "--assume-yes"]);
    if kind == 3 && cram {
        args.push("--timeout-seconds".into());
        args.push("1".into());
    }
    args.push(doc_path.display().to_string());
    let ran = scrut(&dir, &dir, &args, None);
    let after = std::fs::read_to_string(&doc_path).unwrap_or_default();
    let mut fails = vec![];
    let describe = |what: &str| format!("{what}; `scrut {}` on {:?} -> {:?} ({})", args.join(" "), doc, short(&after, 400), ran.show());
    if after != doc {
        fails.push(("C10:cli-update-rewrote-skipped-document".to_string(), describe("the document must be left as it is")));
    }
    let extra: Vec<String> = std::fs::read_dir(&dir).map(|r| r.filter_map(|e| e.ok()).map(|e| e.file_name().to_string_lossy().to_string()).filter(|n| n != "tmp" && n != "other.md" && *n != doc_path.file_name().unwrap().to_string_lossy()).collect()).unwrap_or_default();
    if !extra.is_empty() {
        fails.push(("C10:cli-update-rewrote-skipped-document".to_string(), describe(&format!("unexpected files {:?}", extra))));
    }
    if ran.crashed() || (ran.code == Some(0)) != want_ok {
        fails.push(("C10:cli-update-error".to_string(), describe(&format!("exit status, expected {}", if want_ok { "0" } else { "an error" }))));
    }
    let _ = std::fs::remove_dir_all(&dir);
    CaseRec { op: "noop".into(), impl_out: "ok".into(), oracle_fail: keep(prop, fails), nontrivial: true, tags: vec![format!("cli-update-untouched:kind={kind}"), format!("cli-update-untouched:cram={cram}")] }
}

// ------------------------------------------------------------------------------------------------
// 5. cli-update-flags-e2e: the command-line layer of `update`
// ------------------------------------------------------------------------------------------------

/// `scrut update` with the output flags of the command line (--combine-output, --no-combine-output,
/// --keep-output-crlf) on tests with every inline `output_stream`: the document is executed, validated AND rewritten
/// under the same effective configuration, so afterwards `scrut test` with the same flags passes and a second update
/// with the same flags changes nothing; a test that already passes under the flags keeps its lines.
fn update_flags_e2e(prop: &str, idx: u64, root: &Path) -> CaseRec {
    let flags: [&[&str]; 4] = [&["--combine-output"], &["--no-combine-output"], &["--keep-output-crlf"], &[]];
    let cfgs = ["", " {output_stream: stderr}", " {output_stream: stdout}", " {output_stream: combined}"];
    let flag = flags[(idx % 4) as usize];
    let cfg = cfgs[((idx / 4) % 4) as usize];
    let written = (idx / 16) % 3; // which stream the written expectations describe: 0 stdout, 1 stderr, 2 both
    let dir = fresh_dir(root, format!("f{idx}"));
    let exps = match written {
        0 => "on-out\n",
        1 => "on-err\n",
        _ => "on-out\non-err\n",
    };
    let doc = format!("# flags\n\n```scrut{cfg}\n$ echo on-out; echo on-err >&2\n{exps}```\n\nprose\n");
    let doc_path = dir.join("doc.md");
    std::fs::write(&doc_path, &doc).unwrap();
    let fl: Vec<String> = flag.iter().map(|s| s.to_string()).collect();
    // did it pass before? (then the update must not touch it)
    let mut targs = sv(&["test"]);
    targs.extend(fl.clone());
    targs.push(doc_path.display().to_string());
    let before = scrut(&dir, &dir, &targs, None);
    let mut args = sv(&["update", "--replace", "--assume-yes"]);
    args.extend(fl.clone());
    args.push(doc_path.display().to_string());
    let ran = scrut(&dir, &dir, &args, None);
    let after = std::fs::read_to_string(&doc_path).unwrap_or_default();
    let mut fails = vec![];
    let describe = |what: &str| format!("{what}; `scrut {}` on {:?} -> {:?}", args.join(" "), doc, short(&after, 400));
    if ran.code != Some(0) {
        fails.push(("C10:cli-update-flags".to_string(), describe(&format!("update failed: {}", ran.show()))));
    } else {
        if before.code == Some(0) && after != doc {
            fails.push(("C10:cli-update-flags".to_string(), describe("the test passes under these flags, its lines must be kept")));
        }
        let t = scrut(&dir, &dir, &targs, None);
        if t.code != Some(0) {
            fails.push(("C10:cli-update-flags".to_string(), describe(&format!("`scrut {}` on the updated document: {}", targs.join(" "), t.show()))));
        }
        let again = scrut(&dir, &dir, &args, None);
        let now = std::fs::read_to_string(&doc_path).unwrap_or_default();
        if again.code != Some(0) || now != after {
            fails.push(("C10:cli-update-flags".to_string(), describe(&format!("a second update with the same flags changes the document again: {:?}", short(&now, 300)))));
        }
    }
    let _ = std::fs::remove_dir_all(&dir);
    CaseRec { op: "noop".into(), impl_out: "ok".into(), oracle_fail: keep(prop, fails), nontrivial: true, tags: vec![format!("cli-update-flags:flag={}", flag.first().copied().unwrap_or("none")), format!("cli-update-flags:passed-before={}", before.code == Some(0))] }
}

// ------------------------------------------------------------------------------------------------
// 6. cli-update-expression-shapes-e2e: what `update` writes must read back as the same shell expressions
// ------------------------------------------------------------------------------------------------

/// Documents whose shell expression or first kept expectation has a shape that the writer of `update` has to keep apart
/// from the syntax of the document: an expectation that starts like a continuation line (`> x`, legal behind the exit
/// code line), an expression that ends in an empty continuation line, an empty expression. The document either passes
/// (and must stay as it is) or has a stale second test that forces the rewriting of the whole file. Afterwards the
/// shell expressions are the same, `scrut test` passes, a second update changes nothing.
/// idx: shape (7) x format (2) x stale neighbour (2); shape 5 is stale itself: a stale first expectation in front of a
/// kept one that starts like a continuation line; shape 6 (Markdown only) has an inline configuration behind a
/// no-break space, which YAML reads as part of the (then unknown, ignored) first key: the test validates stdout
fn expression_shapes_e2e(prop: &str, idx: u64, root: &Path) -> CaseRec {
    let cram = (idx / 7) % 2 == 1;
    let shape = if cram && idx % 7 == 6 { 0 } else { idx % 7 };
    let stale = (idx / 14) % 2 == 1;
    let dir = fresh_dir(root, format!("s{idx}"));
    // (command lines, expectation lines incl. exit code) of the test under observation
    let (cmd, body): (Vec<&str>, Vec<&str>) = match shape {
        0 => (vec!["$ echo '> x'; (exit 1)"], vec!["[1]", "> x"]),
        1 => (vec!["$ echo '> x'"], vec!["[0]", "> x"]),
        2 => (vec!["$ echo a", "> "], vec!["a"]),
        3 => (vec!["$ echo '> x'; echo y; (exit 2)"], vec!["[2]", "> x", "y"]),
        4 => (vec!["$ echo '> x'; echo '> z'"], vec!["[0]", "> x", "> z"]),
        5 => (vec!["$ echo '> x'; echo last"], vec!["stale line", "> x", "last"]),
        _ => (vec!["$ echo a; echo b >&2"], vec!["a"]),
    };
    let cfg = if shape == 6 { " {\u{a0}output_stream: stderr}" } else { "" };
    let ind = if cram { "  " } else { "" };
    let block = |cmd: &[&str], body: &[&str]| -> String {
        let lines: Vec<String> = cmd.iter().chain(body.iter()).map(|l| format!("{ind}{l}\n")).collect();
        if cram { format!("t\n{}", lines.concat()) } else { format!("# t\n\n```scrut{}\n{}```\n", if cmd[0].starts_with("$ echo a; echo b") { cfg } else { "" }, lines.concat()) }
    };
    // (a Cram document is written back without a blank line at its end: none is put there)
    let mut doc = block(&cmd, &body);
    if stale {
        doc.push('\n');
        doc.push_str(&block(&["$ echo real"], &["stale"]));
    }
    let fmt = if cram { ParserType::Cram } else { ParserType::Markdown };
    let doc_path = dir.join(if cram { "doc.t" } else { "doc.md" });
    std::fs::write(&doc_path, &doc).unwrap();
    let before = file_parse(fmt, &doc).map(|t| t.iter().map(|t| t.shell_expression.clone()).collect::<Vec<_>>());
    let mut args = sv(&["update", "--replace", "--assume-yes"]);
    args.push(doc_path.display().to_string());
    let ran = scrut(&dir, &dir, &args, None);
    let after = std::fs::read_to_string(&doc_path).unwrap_or_default();
    let mut fails = vec![];
    let describe = |what: &str| format!("{what}; `scrut {}` on {:?} -> {:?} ({})", args.join(" "), doc, short(&after, 400), ran.show());
    if ran.crashed() || ran.code != Some(0) {
        fails.push(("C10:cli-update-error".to_string(), describe("update failed")));
    } else {
        if !stale && shape != 5 && after != doc {
            fails.push(("C10:cli-update-passing-document-rewritten".to_string(), describe("every test passes, the document must stay as it is")));
        }
        let now = file_parse(fmt, &after).map(|t| t.iter().map(|t| t.shell_expression.clone()).collect::<Vec<_>>());
        if before.is_err() || now != before {
            fails.push(("C10:command-changed".to_string(), describe(&format!("shell expressions {:?} read back as {:?}", before, now))));
        }
        let t = scrut(&dir, &dir, &sv(&["test", &doc_path.display().to_string()]), None);
        if t.code != Some(0) {
            fails.push(("C09:cli-update-result-fails".to_string(), describe(&format!("`scrut test` on the updated document: {}", t.show()))));
            fails.push(("C10:cli-update-result-fails".to_string(), describe(&format!("`scrut test` on the updated document: {}", t.show()))));
        }
        let again = scrut(&dir, &dir, &args, None);
        let now = std::fs::read_to_string(&doc_path).unwrap_or_default();
        if again.code != Some(0) || now != after {
            fails.push(("C10:not-idempotent".to_string(), describe(&format!("a second update changes the document again: {:?}", short(&now, 300)))));
        }
    }
    let _ = std::fs::remove_dir_all(&dir);
    CaseRec { op: "noop".into(), impl_out: "ok".into(), oracle_fail: keep(prop, fails), nontrivial: true, tags: vec![format!("cli-update-shapes:shape={shape}"), format!("cli-update-shapes:cram={cram}"), format!("cli-update-shapes:stale={stale}")] }
}

// ------------------------------------------------------------------------------------------------

pub fn run(ctx: &Ctx, prop: &str) {
    let seed = ctx.seed;
    if prop == "C09" {
        let root = tmproot("create");
        std::fs::create_dir_all(&root).unwrap();
        let n = if ctx.thorough { 2400 } else { 240 };
        ctx.run_stream("cli-create-e2e", n, false, |idx| Some(create_e2e(prop, &create_params(seed, idx), &root, format!("c{idx}"))));
        let _ = std::fs::remove_dir_all(&root);
        ctx.note("cli-create-e2e: `scrut create --format F -e E --output <file|-> [--title T] -- 'cat <payload>; (exit N)'` (also the expression as two arguments and on STDIN) with the real binary; the written document minus the title is compared with the Lean model (`gen`) and with the library generator, and `scrut test` has to pass on it".into());
    }
    if prop == "C10" {
        let root = tmproot("languages");
        std::fs::create_dir_all(&root).unwrap();
        ctx.run_stream("cli-update-languages-e2e-exhaustive", 4 * 6 * 4, true, |idx| Some(languages_e2e(prop, idx, &root)));
        ctx.run_stream("cli-update-untouched-e2e-exhaustive", 10, true, |idx| Some(untouched_e2e(prop, idx, &root)));
        ctx.run_stream("cli-update-flags-e2e-exhaustive", 4 * 4 * 3, true, |idx| Some(update_flags_e2e(prop, idx, &root)));
        let _ = std::fs::remove_dir_all(&root);
    }
    let root = tmproot("shapes");
    std::fs::create_dir_all(&root).unwrap();
    ctx.run_stream("cli-update-expression-shapes-e2e-exhaustive", 7 * 2 * 2, true, |idx| Some(expression_shapes_e2e(prop, idx, &root)));
    let _ = std::fs::remove_dir_all(&root);
    let root = tmproot("update");
    std::fs::create_dir_all(&root).unwrap();
    let n = if ctx.thorough { 2000 } else { 200 };
    ctx.run_stream("cli-update-e2e", n, false, |idx| Some(update_e2e(prop, seed, idx, &root, format!("u{idx}"), false)));
    let _ = std::fs::remove_dir_all(&root);
    ctx.note("cli-update-e2e: Markdown (3/4) and Cram documents with 1-4 tests `cat <payload>; (exit N)` (expectations correct / stale / missing, exit code right / wrong, optional detached test, prose, foreign blocks, front-matter) through `scrut update --assume-yes` with --replace (then `scrut test`, second update), without (suffix file) and with --convert; the written file is compared with the library generator fed the known outputs, and under C10 with the Lean model (`upd`)".into());
}

/// ops of this module: `gen` with a command of the end-to-end shape, `oracle-only cli-upd <seed> <idx>`
pub fn is_cli_op(op: &str) -> bool {
    let parts: Vec<&str> = op.split_whitespace().collect();
    match parts.first() {
        Some(&"oracle-only") => parts.get(1) == Some(&"cli-upd"),
        Some(&"gen") if parts.len() >= 6 => {
            let cmd = String::from_utf8_lossy(&unhex(parts[4])).to_string();
            cmd.starts_with("cat /") && cmd.contains("/payload.bin; (exit ")
        }
        _ => false,
    }
}

pub fn replay(prop: &str, op: &str) -> bool {
    let parts: Vec<&str> = op.split_whitespace().collect();
    let root = tmproot("replay");
    std::fs::create_dir_all(&root).unwrap();
    let rec = match parts.first() {
        Some(&"gen") if parts.len() >= 6 => {
            // the case is re-run in a fresh directory (the path inside the command differs from the recorded one)
            let p = CreateParams {
                out: unhex(parts[5]),
                code: parts[3].parse().unwrap_or(0),
                fmt: if parts[1] == "c" { ParserType::Cram } else { ParserType::Markdown },
                esc: if parts[2] == "a" { Escaper::Ascii } else { Escaper::Unicode },
                to_stdout: false,
                via: ExprVia::OneArg,
                title: None,
                payload_kind: "replay",
            };
            let rec = create_e2e(prop, &p, &root, "replay".into());
            println!("scrut create wrote (without the title): {:?}", String::from_utf8_lossy(&unhex(rec.impl_out.trim_start_matches("no-title "))));
            Some(rec)
        }
        Some(&"oracle-only") if parts.len() == 4 => match (parts[2].parse::<u64>(), parts[3].parse::<u64>()) {
            (Ok(seed), Ok(idx)) => Some(update_e2e(prop, seed, idx, &root, "replay".into(), true)),
            _ => None,
        },
        _ => None,
    };
    let _ = std::fs::remove_dir_all(&root);
    match rec {
        None => {
            eprintln!("replay of this op kind is not supported: {op}");
            false
        }
        Some(rec) => {
            for (cl, d) in &rec.oracle_fail {
                println!("oracle-failure {cl}: {d}");
            }
            rec.oracle_fail.is_empty()
        }
    }
}
