//! C08: the expectation grammar (`ExpectationMaker::parse`, `RuleRegistry::to_expectation_regex`)
//! and the canonical round trip (`Rule::to_expression_string`) against the Lean model
//! (lean/ScrutModel/Model/Grammar.lean), plus a direct oracle: an independent backwards scanner
//! for the documented grammar.
use crate::common::*;
use scrut::escaping::Escaper;
use scrut::expectation::{Expectation, ExpectationMaker};
use scrut::rules::registry::RuleRegistry;

const KINDS: [(&str, &str); 9] = [
    ("equal", "equal"),
    ("eq", "equal"),
    ("no-eol", "no-eol"),
    ("escaped", "escaped"),
    ("esc", "escaped"),
    ("glob", "glob"),
    ("gl", "glob"),
    ("regex", "regex"),
    ("re", "regex"),
];

/// token alphabet of the exhaustive stream (every kind alias, every quantifier, ASCII and
/// non-ASCII white space, a non-ASCII letter)
const FULL: [&str; 20] = [
    "foo", " ", "(", ")", "equal", "eq", "no-eol", "escaped", "esc", "glob", "gl", "regex", "re", "?", "*", "+", "\t", "\u{a0}", "é", "x",
];
/// reduced alphabet for longer lines, includes the newline (outside the property's scope; the
/// model still has to agree on what the code does)
const SMALL: [&str; 7] = ["foo", " ", "(", ")", "esc", "+", "\n"];

fn maker() -> ExpectationMaker {
    ExpectationMaker::new(RuleRegistry::default())
}

type Parsed = (String, Vec<u8>, bool, bool);

#[derive(Clone, Debug, PartialEq)]
enum PR {
    Crash,
    NoMaker,
    MakeErr,
    Ok(Parsed),
}

fn real_parse(line: &str) -> (PR, Option<Expectation>) {
    match guarded(|| maker().parse(line)) {
        Err(_) => (PR::Crash, None),
        Ok(Err(e)) => {
            if format!("{e}").starts_with("no rule maker") {
                (PR::NoMaker, None)
            } else {
                (PR::MakeErr, None)
            }
        }
        Ok(Ok(x)) => (PR::Ok(x.unmake()), Some(x)),
    }
}

fn show(p: &PR) -> String {
    match p {
        PR::Crash => "crash".into(),
        PR::NoMaker => "err no-maker".into(),
        PR::MakeErr => "err make".into(),
        PR::Ok((k, e, o, m)) => format!("ok {} {} {} {}", k, hex(e), *o as u8, *m as u8),
    }
}

/// rule construction on its own: `make` then `unmake` (what the model takes as a parameter)
fn real_make(kind: &str, expr: &str) -> Option<Vec<u8>> {
    // pure function of its arguments; memoised per thread (neighbouring cases share prefixes)
    thread_local! {
        static CACHE: std::cell::RefCell<std::collections::HashMap<(String, String), Option<Vec<u8>>>> = std::cell::RefCell::new(std::collections::HashMap::new());
    }
    let key = (kind.to_string(), expr.to_string());
    if let Some(v) = CACHE.with(|c| c.borrow().get(&key).cloned()) {
        return v;
    }
    let v = match guarded(|| RuleRegistry::default().make(kind, expr)) {
        Ok(Ok(r)) => Some(r.unmake().1),
        _ => None,
    };
    CACHE.with(|c| {
        let mut c = c.borrow_mut();
        if c.len() > 100_000 {
            c.clear();
        }
        c.insert(key, v.clone());
    });
    v
}

/// table of rule constructions the model may ask for: every prefix that ends in front of
/// `<white>(` (the last few), for the three kinds whose `make` is a parameter of the model
fn mk_entries(line: &str, out: &mut Vec<String>) {
    let chars: Vec<(usize, char)> = line.char_indices().collect();
    let mut cands = vec![];
    for w in 0..chars.len().saturating_sub(1) {
        if chars[w].1.is_whitespace() && chars[w + 1].1 == '(' {
            cands.push(chars[w].0);
        }
    }
    for &pos in cands.iter().rev().take(3) {
        let p = &line[..pos];
        for k in ["escaped", "glob", "regex"] {
            // the model has the ` (no-eol)` strip of EscapedRule::make itself and asks for the rest
            // (apply_escaped_filter_bytes) on the stripped text; appending the suffix once makes the
            // real constructor strip exactly that and apply the filter to the text as it is
            let (key, arg) = if k == "escaped" {
                let key = p.strip_suffix(" (no-eol)").unwrap_or(p).to_string();
                let arg = format!("{key} (no-eol)");
                (key, arg)
            } else {
                (p.to_string(), p.to_string())
            };
            let e = format!("{}:{}={}", k, hex(key.as_bytes()), real_make(k, &arg).map(|b| hex(&b)).unwrap_or("!".into()));
            if !out.contains(&e) {
                out.push(e);
            }
        }
    }
}

// ---------------------------------------------------------------------------------------------
// direct oracle: backwards scanner for the documented grammar (independent of the model)

/// `Some((expression, canonical kind, quantifier))` iff the line ends in ` (<kind><quantifier>)`
/// with a documented kind and/or quantifier
fn scan_back(line: &str) -> Option<(&str, &'static str, &'static str)> {
    let body = line.strip_suffix(')')?;
    let open = body.rfind('(')?;
    let inner = &body[open + 1..];
    let before = &body[..open];
    let w = before.chars().next_back()?;
    if !w.is_whitespace() {
        return None;
    }
    let expr = &before[..before.len() - w.len_utf8()];
    let (name, q) = if let Some(n) = inner.strip_suffix('?') {
        (n, "?")
    } else if let Some(n) = inner.strip_suffix('*') {
        (n, "*")
    } else if let Some(n) = inner.strip_suffix('+') {
        (n, "+")
    } else {
        (inner, "")
    };
    let kind = if name.is_empty() {
        if q.is_empty() {
            return None;
        }
        "equal"
    } else {
        KINDS.iter().find(|(n, _)| *n == name)?.1
    };
    Some((expr, kind, q))
}

fn expected(line: &str) -> (String, &'static str, bool, bool) {
    match scan_back(line) {
        Some((e, k, q)) => (e.to_string(), k, q == "?" || q == "*", q == "*" || q == "+"),
        None => (line.to_string(), "equal", false, false),
    }
}

fn oracle_parse(line: &str, got: &PR, fails: &mut Vec<(String, String)>) {
    if line.contains('\n') {
        return; // outside the property's scope
    }
    let (e, k, o, m) = expected(line);
    let want = real_make(k, &e);
    match (got, want) {
        (PR::Crash, _) => fails.push(("C08:crash".into(), format!("parse panicked on {:?}", line))),
        (PR::NoMaker, _) => fails.push(("C08:unexpected-error".into(), format!("no rule maker for {:?}", line))),
        (PR::MakeErr, None) if k == "escaped" || k == "regex" || k == "glob" => {}
        (PR::MakeErr, w) => fails.push(("C08:unexpected-error".into(), format!("{:?} failed to parse although ({k}, {:?}) makes {:?}", line, e, w.map(|b| hex(&b))))),
        (PR::Ok(_), None) => fails.push(("C08:grammar".into(), format!("{:?} parsed although ({k}, {:?}) cannot be made", line, e))),
        (PR::Ok((gk, ge, go, gm)), Some(wb)) => {
            if gk != k || *ge != wb || *go != o || *gm != m {
                fails.push(("C08:grammar".into(), format!("{:?}: documented grammar gives ({k}, {}, {o}, {m}), parse gave ({gk}, {}, {go}, {gm})", line, hex(&wb), hex(ge))));
            }
        }
    }
}

fn line_set(a: &[u8], b: &[u8]) -> Vec<Vec<u8>> {
    let mut v: Vec<Vec<u8>> = vec![vec![]];
    for x in [a, b] {
        v.push(x.to_vec());
        if !x.is_empty() {
            v.push(x[..x.len() - 1].to_vec());
            let mut y = x.to_vec();
            y[0] = if y[0] == b'y' { b'z' } else { b'y' };
            v.push(y);
        }
        let mut y = x.to_vec();
        y.push(b'x');
        v.push(y);
        let mut y = x.to_vec();
        y.extend_from_slice(x);
        v.push(y);
    }
    v.sort();
    v.dedup();
    v
}

/// (oracle failures, tag)
fn oracle_roundtrip(line: &str, esc: &Escaper, x: &Expectation, s: &str, back: &(PR, Option<Expectation>), fails: &mut Vec<(String, String)>) -> &'static str {
    let (k, e, o, m) = x.unmake();
    let classify = || -> &'static str {
        let printable = esc.escaped_printable(&e);
        // one open finding: regex / no-eol have no escaped syntax, an expression with unprintable
        // characters is displayed through the escaper and read back literally.
        // Regression class (fixed by c1bf05c, not a known finding): bytes ending in ` (no-eol)`
        // written as an `escaped` expectation lost that suffix (EscapedRule::make strips it).
        // Everything else is reported under the generic class.
        if k == "glob" && (e.ends_with(b" (esc)") || e.ends_with(b" (escaped)")) {
            // open finding: a glob reads a trailing ` (esc)` / ` (escaped)` of its expression as the Cram annotation and
            // strips it; a pattern that ends in that text (possible only as `… (esc) (escaped) (glob)`) is written
            // back without the guard
            "C08:glob-annotation-lookalike-roundtrip"
        } else if (k == "regex" || k == "no-eol") && esc.has_unprintable(&e) {
            "C08:escaped-pattern-roundtrip"
        } else if ((k == "equal" && esc.has_unprintable(&e)) || k == "escaped") && printable.ends_with(" (no-eol)") {
            "C08:escaped-no-eol-strip-roundtrip"
        } else {
            "C08:roundtrip"
        }
    };
    let y = match back {
        (PR::Ok(_), Some(y)) => y,
        (other, _) => {
            fails.push((classify().into(), format!("{:?} renders as {:?}, which does not parse ({})", line, s, show(other))));
            return "rt=unparsable";
        }
    };
    let (k2, e2, o2, m2) = y.unmake();
    if o != o2 || m != m2 {
        fails.push((classify().into(), format!("{:?} renders as {:?}, which has another quantifier", line, s)));
        return "rt=quantifier";
    }
    for c in line_set(&e, &e2) {
        let mut l = c.clone();
        l.push(b'\n');
        let (a, b) = (guarded(|| x.matches(&l)), guarded(|| y.matches(&l)));
        if a != b {
            fails.push((classify().into(), format!("{:?} ({k}) renders as {:?} ({k2}); on the line {:?} the first says {:?}, the second {:?}", line, s, String::from_utf8_lossy(&l), a, b)));
            return "rt=matches-differ";
        }
        if k == k2 {
            // without the line terminator the kinds differ by design (equal vs escaped)
            let (a, b) = (guarded(|| x.matches(&c)), guarded(|| y.matches(&c)));
            if a != b {
                fails.push((classify().into(), format!("{:?} ({k}) renders as {:?}; on the unterminated line {:?} the first says {:?}, the second {:?}", line, s, String::from_utf8_lossy(&c), a, b)));
                return "rt=matches-differ";
            }
        }
    }
    if k != k2 {
        "rt=kind-changed"
    } else if e != e2 {
        "rt=expr-changed"
    } else {
        "rt=same"
    }
}

fn case(prop: &str, line: &str, esc: Option<&Escaper>, stream_tag: &str) -> CaseRec {
    let mut fails = vec![];
    let mut tags = vec![format!("stream={stream_tag}")];
    let (pr, x) = real_parse(line);
    let mut mk = vec![];
    mk_entries(line, &mut mk);
    let mut impl_out = show(&pr);
    let mut esc_tbl = "-".to_string();
    oracle_parse(line, &pr, &mut fails);
    let in_scope = !line.contains('\n');
    tags.push(
        match &pr {
            PR::Crash => "parse=crash".to_string(),
            PR::NoMaker => "parse=no-maker".to_string(),
            PR::MakeErr => "parse=make-error".to_string(),
            PR::Ok((k, _, o, m)) => format!("parse=ok kind={k} q={}", match (o, m) { (true, true) => "*", (true, false) => "?", (false, true) => "+", _ => "none" }),
        },
    );
    if in_scope {
        let sb = scan_back(line);
        tags.push(
            match sb {
                Some((_, _, _)) => {
                    let w = line[..line.rfind('(').unwrap()].chars().next_back().unwrap();
                    if w == ' ' { "branch=modifier" } else if w.is_ascii() { "branch=modifier-ascii-white" } else { "branch=modifier-unicode-white" }
                }
                None if line.ends_with("()") => "branch=whole-line-empty-parens",
                None if line.ends_with(')') => "branch=whole-line-other-parens",
                None => "branch=whole-line",
            }
            .to_string(),
        );
    } else {
        tags.push("branch=contains-newline(out of scope)".into());
    }
    if let (Some(esc), Some(x)) = (esc, &x) {
        let (_, e, _, _) = x.unmake();
        let s = match guarded(|| x.to_expression_string(esc)) {
            Ok(s) => s,
            Err(_) => {
                fails.push(("C08:crash".into(), format!("to_expression_string panicked for {:?}", line)));
                "<panic>".to_string()
            }
        };
        esc_tbl = format!("{}>{}:{}", hex(&e), esc.has_unprintable(&e) as u8, hex(esc.escaped_printable(&e).as_bytes()));
        mk_entries(&s, &mut mk);
        let back = if s == line { (pr.clone(), Some(x.clone())) } else { real_parse(&s) };
        impl_out = format!("{} | {} | {}", impl_out, hex(s.as_bytes()), show(&back.0));
        if in_scope {
            tags.push(oracle_roundtrip(line, esc, x, &s, &back, &mut fails).to_string());
        }
    }
    let mk = if mk.is_empty() { "-".to_string() } else { mk.join(",") };
    let rt = (esc.is_some()) as u8;
    CaseRec {
        op: format!("gram {} {} {} {}", hex(line.as_bytes()), mk, esc_tbl, rt),
        impl_out,
        oracle_fail: fails.into_iter().filter(|(c, _)| c.starts_with(prop)).collect(),
        nontrivial: line.contains('('),
        tags,
    }
}

fn total(alpha: usize, maxlen: u32) -> u64 {
    (0..=maxlen).map(|k| (alpha as u64).pow(k)).sum()
}

fn decode_tokens<'a>(alpha: &[&'a str], mut idx: u64) -> Vec<&'a str> {
    let a = alpha.len() as u64;
    let mut len = 0u32;
    while idx >= a.pow(len) {
        idx -= a.pow(len);
        len += 1;
    }
    // last token varies fastest: neighbouring cases share their prefix
    let mut toks = vec![];
    for _ in 0..len {
        toks.push(alpha[(idx % a) as usize]);
        idx /= a;
    }
    toks.reverse();
    toks
}

fn decode(alpha: &[&str], idx: u64) -> String {
    decode_tokens(alpha, idx).concat()
}

const SKEL: [&str; 7] = ["foo", " ", "(", ")", "KIND", "QUANT", "WHITE2"];

fn skeleton(idx: u64) -> String {
    let sk = decode_tokens(&SKEL, idx);
    let mut out = String::new();
    for (j, t) in sk.iter().enumerate() {
        let j = j as u64;
        match *t {
            "KIND" => out.push_str(KINDS[((idx / 7 + 4 * j) % 9) as usize].0),
            "QUANT" => out.push_str(["?", "*", "+"][((idx / 49 + j) % 3) as usize]),
            "WHITE2" => out.push_str(["\t", "\u{a0}"][((idx / 343 + j) % 2) as usize]),
            t => out.push_str(t),
        }
    }
    out
}

fn escapers() -> [Escaper; 2] {
    [Escaper::Unicode, Escaper::Ascii]
}

/// nested modifier templates: prefix x white x kind-ish x quantifier-ish x tail
fn structured(idx: u64) -> Option<String> {
    const PRE: [&str; 11] = ["", "foo", "foo ", "a (glob)", "a (b)", "a ()", "a (equal) (re?)", "(", "foo\\", "foo? (esc) (escaped)", "a (escaped) (esc)"];
    const WH: [&str; 7] = [" ", "\t", "\u{a0}", "\u{3000}", "\u{85}", "", "  "];
    const KI: [&str; 16] = ["", "equal", "eq", "no-eol", "escaped", "esc", "glob", "gl", "regex", "re", "equa", "globx", "Glob", "e q", "no-eo", "(re"];
    const QU: [&str; 7] = ["", "?", "*", "+", "??", "+*", "!"];
    const TL: [&str; 6] = ["", " ", ")", " (no-eol)", " (escaped)", " (no-eol) (esc)"];
    let n = (PRE.len() * WH.len() * KI.len() * QU.len() * TL.len()) as u64;
    debug_assert_eq!(n, STRUCTURED_N);
    if idx >= n {
        return None;
    }
    let mut i = idx as usize;
    let p = PRE[i % PRE.len()];
    i /= PRE.len();
    let w = WH[i % WH.len()];
    i /= WH.len();
    let k = KI[i % KI.len()];
    i /= KI.len();
    let q = QU[i % QU.len()];
    i /= QU.len();
    let t = TL[i % TL.len()];
    Some(format!("{p}{w}({k}{q}){t}"))
}
const STRUCTURED_N: u64 = 11 * 7 * 16 * 7 * 6;

fn random_line(rng: &mut Rng) -> String {
    const PIECES: [&str; 30] = [
        "foo", "bar", " ", " ", "(", ")", "\\", "\\x", "\\x1", "\\t", "[", "]", "{", "}", "*", "?", "+", ".", "|", "\t", "\u{1b}[1m", "\u{a0}", "\u{2003}", "\u{200b}", "😂", "é", "\u{7f}", "^", "$", "\\0",
    ];
    let mut s = String::new();
    for _ in 0..rng.range(0, 6) {
        s.push_str(*rng.pick(&PIECES[..]));
    }
    // zero to two modifier-like suffixes
    for _ in 0..rng.range(0, 2) {
        let w = *rng.pick(&[" ", " ", " ", "\t", "\u{a0}", "\u{2028}", ""]);
        let k = if rng.chance(1, 6) { "" } else { rng.pick(&KINDS).0 };
        let q = *rng.pick(&["", "", "?", "*", "+"]);
        s.push_str(&format!("{w}({k}{q})"));
    }
    s
}

pub fn run(ctx: &Ctx, prop: &str) {
    // 1. the `\s` class of the regex crate against the model's Unicode White_Space table
    let re = regex::Regex::new(r"^\s$").unwrap();
    let cps: Vec<u32> = (0..0x3100u32).chain([0xFEFF, 0x1F602, 0xE000, 0x10FFFF]).filter(|c| char::from_u32(*c).is_some()).collect();
    ctx.run_stream("white-class", cps.len() as u64, true, |i| {
        let c = char::from_u32(cps[i as usize]).unwrap();
        let is = re.is_match(&c.to_string());
        let mut fails = vec![];
        if is != c.is_whitespace() {
            fails.push(("C08:oracle-white-mismatch".to_string(), format!("char::is_whitespace differs from \\s on U+{:04X}", c as u32)));
        }
        Some(CaseRec { op: format!("gwhite {}", c as u32), impl_out: (is as u8).to_string(), oracle_fail: fails, nontrivial: is, tags: vec![if is { "white=1".into() } else { "white=0".into() }] })
    });

    // 2. exhaustive over the full token alphabet
    let n_full = if ctx.thorough { 5 } else { 4 };
    let t_full = total(FULL.len(), n_full);
    ctx.run_stream("exhaustive-full-alphabet", t_full * 2, true, |i| {
        let line = decode(&FULL, i / 2);
        let esc = &escapers()[(i % 2) as usize];
        if i % 2 == 1 && ((line.is_ascii() && !line.contains('\t')) || (!ctx.thorough && !line.contains('(') && i / 2 > 8421)) {
            // both escapers agree on printable ASCII; quick tier: lines of four tokens without a
            // parenthesis (whole-line equal whatever the escaper) are rendered with one escaper only
            return None;
        }
        Some(case(prop, &line, Some(esc), "full"))
    });

    // 2b. longer lines: every skeleton over 7 token classes; KIND / QUANT / WHITE2 are instantiated
    // by rotation (all 9 names, 3 quantifiers, TAB/NBSP occur at every position across the stream)
    let n_skel = if ctx.thorough { 7 } else { 6 };
    let t_skel = total(SKEL.len(), n_skel);
    ctx.run_stream("exhaustive-skeletons", t_skel, true, |i| {
        let line = skeleton(i);
        Some(case(prop, &line, Some(&escapers()[((i / 5) % 2) as usize]), "skeleton"))
    });

    // 3. longer lines over the reduced alphabet (with newline)
    let n_small = if ctx.thorough { 7 } else { 5 };
    let t_small = total(SMALL.len(), n_small);
    ctx.run_stream("exhaustive-reduced-alphabet", t_small, true, |i| {
        let line = decode(&SMALL, i);
        Some(case(prop, &line, Some(&Escaper::Unicode), "reduced"))
    });

    // 4. structured nested modifiers, near-miss kinds and quantifiers, all white-space flavours
    ctx.run_stream("structured-suffixes", STRUCTURED_N * 2, true, |i| {
        let line = structured(i / 2)?;
        Some(case(prop, &line, Some(&escapers()[(i % 2) as usize]), "structured"))
    });

    // 5. seeded random lines: malformed escapes / regexes, control characters, Unicode
    let n_rand = if ctx.thorough { 400_000 } else { 40_000 };
    ctx.run_stream("random-lines", n_rand, false, |i| {
        let mut rng = Rng::fork(ctx.seed, 8, i);
        let line = random_line(&mut rng);
        let esc = &escapers()[(rng.below(2)) as usize];
        Some(case(prop, &line, Some(esc), "random"))
    });
    ctx.note("lines containing '\\n' are outside C08's scope (callers hand single lines); the correspondence still covers them: the real parse panics (index out of bounds on an empty capture vector) unless the newline is the white space in front of a final modifier".into());
}

pub fn replay(prop: &str, op: &str) -> bool {
    let parts: Vec<&str> = op.split_whitespace().collect();
    if parts.first() == Some(&"gram") && parts.len() >= 2 {
        let bytes = unhex(parts[1]);
        let line = match String::from_utf8(bytes) {
            Ok(l) => l,
            Err(_) => {
                eprintln!("line is not UTF-8");
                return false;
            }
        };
        let mut ok = true;
        for esc in escapers() {
            let c = case(prop, &line, Some(&esc), "replay");
            println!("line: {:?}", line);
            println!("impl ({:?}): {}", esc, c.impl_out);
            for (cl, d) in &c.oracle_fail {
                println!("oracle-failure {cl}: {d}");
            }
            ok = ok && c.oracle_fail.is_empty();
        }
        return ok;
    }
    eprintln!("unsupported replay op");
    false
}
