//! C19: the four renderers (pretty colour/monochrome, diff, json, yaml) in-process against the
//! Lean model of their decision logic (`Scrut.Pretty`), plus direct oracles on the real output:
//! no panic, every difference shown, structured output well-formed, no section for a pass.
use crate::common::*;
use scrut::diff::{Diff, DiffLine, DiffTool};
use scrut::escaping::Escaper;
use scrut::expectation::{Expectation, ExpectationMaker};
use scrut::outcome::Outcome;
use scrut::output::Output;
use scrut::parsers::parser::ParserType;
use scrut::renderers::diff::DiffRenderer;
use scrut::renderers::pretty::{PrettyColorRenderer, PrettyMonochromeRenderer};
use scrut::renderers::renderer::Renderer;
use scrut::renderers::structured::{JsonRenderer, YamlRenderer};
use scrut::rules::registry::RuleRegistry;
use scrut::testcase::{TestCase, TestCaseError};

fn keep(prop: &str, v: Vec<(String, String)>) -> Vec<(String, String)> {
    v.into_iter().filter(|(c, _)| c.starts_with(prop)).collect()
}

fn maker() -> ExpectationMaker {
    ExpectationMaker::new(RuleRegistry::default())
}

fn clip(s: &str) -> String {
    if s.len() > 300 {
        let mut e = 300;
        while !s.is_char_boundary(e) {
            e -= 1;
        }
        format!("{}…[{} bytes]", &s[..e], s.len())
    } else {
        s.to_string()
    }
}

// ---------------------------------------------------------------------------------------------
// text generators

const PIECES: &[&str] = &[
    "foo", "bar", "x", "é", "日本語", "😀", "ｗｉｄｅ", "a b", "\\", "\\n", "(", ")", "*", "?", "[", "  | ", "...", "%", "{}", "\u{301}", "-", "+", "@@",
];
const WS: &[&str] = &[" ", "  ", "\t", "\u{3000}", "\u{a0}", "\u{2003}", "\u{2028}", "\u{2029}", "\u{1680}", "\u{205f}", "\u{85}", "\u{b}", "\u{c}", "\r"];
const CTRL: &[&str] = &["\u{1}", "\u{1b}[1m", "\u{1b}[0m", "\u{7f}", "\u{0}", "\u{9b}", "\u{ad}", "\u{feff}", "\u{200b}", "\u{e000}"];
const BAD: &[&[u8]] = &[b"\xff", b"\xc3", b"\xe3\x80", b"\xf0\x9f\x98", b"\x80", b"\xed\xa0\x80"];

/// valid UTF-8 text without `\n`
fn gen_text(rng: &mut Rng) -> String {
    let mut s = String::new();
    if rng.chance(1, 500) {
        let unit = *rng.pick(&["x", "日", "😀 ", "é"]);
        let n = 100_000 / unit.chars().count();
        for _ in 0..n {
            s.push_str(unit);
        }
    }
    let n = rng.range(0, 4);
    for _ in 0..n {
        match rng.below(10) {
            0..=5 => s.push_str(*rng.pick(PIECES)),
            6 | 7 => s.push_str(*rng.pick(WS)),
            _ => s.push_str(*rng.pick(CTRL)),
        }
    }
    if rng.chance(1, 3) {
        for _ in 0..rng.range(1, 3) {
            s.push_str(*rng.pick(WS));
        }
    }
    s
}

/// arbitrary bytes without `\n` (sometimes not UTF-8)
fn gen_bytes(rng: &mut Rng) -> Vec<u8> {
    let mut b = gen_text(rng).into_bytes();
    if rng.chance(1, 6) {
        let at = rng.range(0, b.len());
        // may split a multi-byte character: that is the point
        let bad = *rng.pick(BAD);
        b.splice(at..at, bad.iter().copied());
    }
    if rng.chance(1, 8) {
        b.extend_from_slice(*rng.pick(BAD));
    }
    if rng.chance(1, 6) {
        b.extend_from_slice(rng.pick(WS).as_bytes());
    }
    b
}

const SUFFIX: &[&str] = &["", "", "", " (glob)", " (no-eol)", " (escaped)", " (?)", " (+)", " (*)", " (glob+)", " (equal)", " ()"];

/// an expectation whose text starts with the tag `e<i>#`
fn tagged_expectation(mk: &ExpectationMaker, rng: &mut Rng, i: usize) -> Expectation {
    let text = format!("e{i}# {}{}", gen_text(rng), rng.pick(SUFFIX));
    mk.parse(&text).or_else(|_| mk.parse(&format!("e{i}# plain"))).expect("plain expectation parses")
}

/// an expectation that matches every line of class `cls`, unique by `zq<i>`
fn class_expectation(mk: &ExpectationMaker, rng: &mut Rng, i: usize, cls: char) -> Expectation {
    let q = *rng.pick(&["", "", "?", "+", "*"]);
    mk.parse(&format!("{cls}\\d+#.*(?:zq{i})? (regex{q})")).expect("class expectation parses")
}

fn line_bytes(rng: &mut Rng, cls: char, j: usize, eol: bool) -> Vec<u8> {
    let mut l = format!("{cls}{j}# ").into_bytes();
    l.extend(gen_bytes(rng));
    if eol {
        l.push(b'\n');
    }
    l
}

// ---------------------------------------------------------------------------------------------
// canonical forms

fn canon_diff(d: &Diff) -> String {
    if d.lines.is_empty() {
        return "-".into();
    }
    let ls = |lines: &Vec<(usize, Vec<u8>)>| lines.iter().map(|(i, _)| i.to_string()).collect::<Vec<_>>().join(",");
    d.lines
        .iter()
        .map(|l| match l {
            DiffLine::MatchedExpectation { index, lines, .. } => format!("M{}:{}", index, ls(lines)),
            DiffLine::UnmatchedExpectation { index, .. } => format!("U{}", index),
            DiffLine::UnexpectedLines { lines } => format!("X:{}", ls(lines)),
        })
        .collect::<Vec<_>>()
        .join(";")
}

fn mlset(d: &Diff, exps: &[Expectation]) -> String {
    let mut s: Vec<usize> = exps.iter().enumerate().filter(|(_, e)| e.multiline).map(|(i, _)| i).collect();
    for l in &d.lines {
        match l {
            DiffLine::MatchedExpectation { index, expectation, .. } | DiffLine::UnmatchedExpectation { index, expectation } => {
                if expectation.multiline {
                    s.push(*index)
                }
            }
            _ => {}
        }
    }
    s.sort();
    s.dedup();
    if s.is_empty() {
        "-".into()
    } else {
        s.iter().map(|i| i.to_string()).collect::<Vec<_>>().join(",")
    }
}

/// independent restatement of what a `-`/`+` line shows for `s`: trailing white space made visible
fn disp(s: &str) -> String {
    let t = s.trim_end_matches(char::is_whitespace);
    let mut o = t.to_string();
    for ch in s[t.len()..].chars() {
        o.push(match ch {
            '\t' => '↦',
            ' ' => '⎵',
            _ => '⍰',
        });
    }
    o
}

struct BodyLine {
    token: String,
    sym: char,
    content: String,
}

/// the body (everything after the header) of a monochrome pretty rendering of ONE outcome
fn pretty_body(rendered: &str) -> Option<Vec<&str>> {
    let mut lines: Vec<&str> = rendered.split('\n').collect();
    // "...body\n" + "\n\n" => three empty trailing pieces
    for _ in 0..3 {
        if lines.last() == Some(&"") {
            lines.pop();
        } else {
            return None;
        }
    }
    let mut i = 0;
    while i < lines.len() && lines[i].starts_with("//") {
        i += 1;
    }
    if i == 0 || i >= lines.len() + 1 {
        return None;
    }
    if i < lines.len() && !lines[i].is_empty() {
        return None;
    }
    Some(lines[(i + 1).min(lines.len())..].to_vec())
}

/// (width, lines) or None if a line does not have the shape `<w><sign> <w>  | <sym> <content>`
fn parse_pretty(body: &[&str]) -> Option<(Option<usize>, Vec<BodyLine>)> {
    let mut w: Option<usize> = None;
    let mut out = vec![];
    for l in body {
        if *l == "..." {
            out.push(BodyLine { token: "E".into(), sym: '.', content: String::new() });
            continue;
        }
        let p = l.find("  | ")?;
        if p < 4 || (p - 2) % 2 != 0 || !l.is_char_boundary(p) || !l[..p].is_ascii() {
            return None;
        }
        let lw = (p - 2) / 2;
        if *w.get_or_insert(lw) != lw {
            return None;
        }
        let b = l.as_bytes();
        let expf = &l[..lw];
        let sign = b[lw] as char;
        if b[lw + 1] != b' ' {
            return None;
        }
        let linef = &l[lw + 2..p];
        let rest = &l[p + 4..];
        let mut rc = rest.chars();
        let sym = rc.next()?;
        if rc.next() != Some(' ') {
            return None;
        }
        let content = rc.as_str().to_string();
        let sg = match sign {
            '+' => "+",
            ' ' => ".",
            _ => return None,
        };
        let num = |f: &str| -> Option<Option<usize>> {
            let t = f.trim_start_matches(' ');
            if t.is_empty() {
                Some(None)
            } else {
                t.parse::<usize>().ok().map(Some)
            }
        };
        let token = match sym {
            ' ' => {
                let e = num(expf)??;
                if !linef.is_empty() && linef.bytes().all(|c| c == b'+') {
                    format!("M{e}{sg}:+")
                } else {
                    format!("M{e}{sg}:{}", num(linef)??)
                }
            }
            '-' => {
                if num(linef)?.is_some() {
                    return None;
                }
                format!("U{}{sg}", num(expf)??)
            }
            '+' => {
                if num(expf)?.is_some() || sign != ' ' {
                    return None;
                }
                format!("X{}", num(linef)??)
            }
            _ => return None,
        };
        out.push(BodyLine { token, sym, content });
    }
    Some((w, out))
}

fn tag_after(s: &str, letters: &[char]) -> Option<usize> {
    let mut c = s.chars();
    let f = c.next()?;
    if !letters.contains(&f) {
        return None;
    }
    let digits: String = c.take_while(|c| c.is_ascii_digit()).collect();
    if digits.is_empty() || !s[1 + digits.len()..].starts_with('#') {
        return None;
    }
    digits.parse().ok()
}

fn exp_tag(s: &str) -> Option<usize> {
    if let Some(i) = tag_after(s, &['e']) {
        return Some(i);
    }
    let p = s.find("zq")?;
    let digits: String = s[p + 2..].chars().take_while(|c| c.is_ascii_digit()).collect();
    digits.parse().ok()
}

/// canonical entries of a `-r diff` rendering of ONE outcome with location `f.md`
fn parse_unified(rendered: &str, prefix: &str) -> String {
    if rendered.is_empty() {
        return "none".into();
    }
    let mut lines: Vec<&str> = rendered.split('\n').collect();
    if lines.last() == Some(&"") {
        lines.pop();
    } else {
        return "no-final-newline".into();
    }
    if lines.len() < 2 || lines[0] != "--- f.md" || lines[1] != "+++ f.md.new" {
        return "bad-file-header".into();
    }
    static RE: std::sync::OnceLock<regex::Regex> = std::sync::OnceLock::new();
    let re = RE.get_or_init(|| regex::Regex::new(r"^@@ -(\d+)(?:,(\d+))? \+(\d+)(?:,(\d+))? @@ malformed output: T0$").unwrap());
    let mut out = vec![];
    for l in &lines[2..] {
        if let Some(c) = re.captures(l) {
            let g = |k: usize| c.get(k).map(|m| m.as_str().to_string()).unwrap_or_else(|| "1".into());
            out.push(format!("H{}/{}/{}/{}", g(1), g(2), g(3), g(4)));
        } else if let Some(r) = l.strip_prefix('-') {
            let r = r.strip_prefix(prefix).unwrap_or("\u{0}");
            out.push(exp_tag(r).map(|i| format!("-{i}")).unwrap_or_else(|| "-?".into()));
        } else if let Some(r) = l.strip_prefix('+') {
            let r = r.strip_prefix(prefix).unwrap_or("\u{0}");
            out.push(tag_after(r, &['a', 'b', 'c']).map(|i| format!("+{i}")).unwrap_or_else(|| "+?".into()));
        } else {
            out.push("?".into());
        }
    }
    if out.is_empty() {
        "none".into()
    } else {
        out.join(",")
    }
}

enum R {
    Ok(String),
    Err(String),
    Panic(String),
}
fn run_renderer(r: &dyn Renderer, outcomes: &[&Outcome]) -> R {
    match guarded(|| r.render(outcomes)) {
        Ok(Ok(s)) => R::Ok(s),
        Ok(Err(e)) => R::Err(format!("{e:#}")),
        Err(p) => R::Panic(p),
    }
}

// ---------------------------------------------------------------------------------------------
// stream: one malformed-output outcome through all renderers

struct PCase {
    exps: Vec<Expectation>,
    diff: Diff,
    msl: usize,
    abs: bool,
    line_number: usize,
    shell: String,
    escaper: Escaper,
    format: ParserType,
    /// produced by the real DiffTool (then the C02 well-formedness holds)
    real: bool,
}

fn in_domain(pc: &PCase) -> bool {
    if (pc.msl as u128) + (pc.diff.lines.len() as u128) >= (usize::MAX as u128) {
        return false;
    }
    if pc.real {
        return true;
    }
    let n = pc.exps.len();
    let m = pc.diff.count_output_lines;
    pc.diff.lines.iter().all(|l| match l {
        DiffLine::MatchedExpectation { index, lines, .. } => *index < n && !lines.is_empty() && lines.iter().all(|(i, _)| *i < m),
        DiffLine::UnmatchedExpectation { index, .. } => *index < n,
        DiffLine::UnexpectedLines { lines } => lines.iter().all(|(i, _)| *i < m),
    })
}

fn eval_pdiff(prop: &str, pc: PCase, what: &str) -> CaseRec {
    let shlines = pc.shell.matches('\n').count() + 1;
    let op = format!(
        "pdiff {} {} {} {} {} {} {}",
        pc.msl,
        pc.abs as u8,
        pc.line_number,
        shlines,
        pc.exps.len(),
        mlset(&pc.diff, &pc.exps),
        canon_diff(&pc.diff)
    );
    let dom = in_domain(&pc);
    let prefix = match pc.format {
        ParserType::Markdown => "",
        ParserType::Cram => "  ",
    };
    let outcome = Outcome {
        location: Some("f.md".into()),
        output: Output::from(("", "", Some(0))),
        testcase: TestCase { title: "T0".into(), shell_expression: pc.shell.clone(), expectations: pc.exps.clone(), exit_code: None, line_number: pc.line_number, ..Default::default() },
        format: pc.format,
        escaping: pc.escaper.clone(),
        result: Err(TestCaseError::MalformedOutput(pc.diff.clone())),
    };
    let os = [&outcome];
    let mut fails: Vec<(String, String)> = vec![];
    let mut tags = vec![format!("pdiff:{what}"), format!("msl:{}", if pc.msl > 9 { "10+".to_string() } else { pc.msl.to_string() }), format!("abs:{}", pc.abs)];
    let witness = |pc: &PCase| -> String {
        let mut s = format!("escaper={:?} format={:?} ", pc.escaper, pc.format);
        for l in &pc.diff.lines {
            match l {
                DiffLine::UnmatchedExpectation { index, expectation } => s.push_str(&format!("U{index}={:?} ", clip(&expectation.original_string()))),
                DiffLine::UnexpectedLines { lines } => {
                    for (i, b) in lines {
                        s.push_str(&format!("X{i}={} ", clip(&hex(b))))
                    }
                }
                _ => {}
            }
        }
        clip(&s)
    };
    let report = |fails: &mut Vec<(String, String)>, name: &str, r: &R| match r {
        R::Panic(p) => {
            if dom {
                fails.push(("C19:panic".into(), format!("{name} renderer panicked: {} :: {}", clip(p), witness(&pc))));
            }
        }
        R::Err(e) => {
            if dom {
                fails.push(("C19:render-error".into(), format!("{name} renderer returned an error instead of a rendering: {} :: {}", clip(e), witness(&pc))));
            }
        }
        R::Ok(_) => {}
    };

    // pretty
    let cfg = || PrettyColorRenderer { max_surrounding_lines: pc.msl, absolute_line_numbers: pc.abs, summarize: false };
    let color = run_renderer(&cfg(), &os);
    report(&mut fails, "pretty(colour)", &color);
    let mono = run_renderer(&PrettyMonochromeRenderer::new(cfg()), &os);
    report(&mut fails, "pretty", &mono);
    let pretty_c = match &mono {
        R::Panic(_) => "crash".to_string(),
        R::Err(_) => "error".to_string(),
        R::Ok(s) => match pretty_body(s).and_then(|b| parse_pretty(&b)) {
            None => "unparsable".to_string(),
            Some((w, lines)) => {
                // direct oracle: every difference is on a line of its own, completely
                for l in &pc.diff.lines {
                    match l {
                        DiffLine::UnmatchedExpectation { index, expectation } => {
                            let want = disp(&expectation.to_expression_string(&pc.escaper));
                            if !lines.iter().any(|b| b.sym == '-' && b.content == want) {
                                fails.push(("C19:missing-difference".into(), format!("pretty: unmatched expectation #{index} {:?} not shown :: {}", clip(&want), witness(&pc))));
                            }
                        }
                        DiffLine::UnexpectedLines { lines: ls } => {
                            for (i, b) in ls {
                                // the line in expectation syntax: escaped when it has to be, and the no-eol marker
                                // BEHIND the escaping (the marker is no content of the line; the escaped kind ignores
                                // the line ending). Since fix ebd481f; before, the marker was escaped as content.
                                let eol = b.last() == Some(&b'\n');
                                let content: &[u8] = if eol { &b[..b.len() - 1] } else { &b[..] };
                                let mut text = pc.escaper.escaped_expectation(content);
                                if !eol && !pc.escaper.has_unprintable(content) {
                                    text.push_str(" (no-eol)");
                                }
                                let want = disp(&text);
                                if !lines.iter().any(|b| b.sym == '+' && b.content == want) {
                                    // what IS shown for it: a text that, read as an expectation, denotes another line?
                                    let mk = maker();
                                    let shown_other = lines.iter().filter(|l| l.sym == '+').any(|l| {
                                        l.content.contains("(no-eol) (escaped)") && mk.parse(&l.content).map(|e| !e.matches(b)).unwrap_or(false)
                                    });
                                    let class = if shown_other { "C19:unexpected-line-shown-as-other-line" } else { "C19:missing-difference" };
                                    fails.push((class.into(), format!("pretty: unexpected line #{i} {:?} not shown :: {}", clip(&want), witness(&pc))));
                                }
                            }
                        }
                        _ => {}
                    }
                }
                if lines.is_empty() {
                    "w? none".to_string()
                } else {
                    tags.push(format!("width:{}", w.unwrap_or(0)));
                    if lines.iter().any(|l| l.token == "E") {
                        tags.push("elision".into());
                    }
                    format!("w{} {}", w.unwrap_or(0), lines.iter().map(|l| l.token.clone()).collect::<Vec<_>>().join(","))
                }
            }
        },
    };
    if pretty_c == "crash" {
        tags.push(if dom { "crash-in-domain".into() } else { "crash-outside-domain".into() });
    }
    if let (R::Ok(c), R::Ok(m)) = (&color, &mono) {
        if scrut::escaping::strip_colors(c).ok().as_deref() != Some(m.as_str()) {
            fails.push(("C19:colour-differs".into(), format!("colour rendering without ANSI is not the monochrome rendering :: {}", witness(&pc))));
        }
    }

    // diff
    let dr = run_renderer(&DiffRenderer::new(), &os);
    report(&mut fails, "diff", &dr);
    let unified_c = match &dr {
        R::Panic(_) => "crash".to_string(),
        R::Err(_) => "error".to_string(),
        R::Ok(s) => {
            let have: std::collections::HashSet<&str> = s.split('\n').collect();
            for l in &pc.diff.lines {
                match l {
                    DiffLine::UnmatchedExpectation { index, expectation } => {
                        let want = format!("-{prefix}{}", expectation.original_string());
                        if !have.contains(want.as_str()) {
                            fails.push(("C19:missing-difference".into(), format!("diff: unmatched expectation #{index} {:?} not shown :: {}", clip(&want), witness(&pc))));
                        }
                    }
                    DiffLine::UnexpectedLines { lines: ls } => {
                        for (i, b) in ls {
                            let mut e = b.len();
                            while e > 0 && b[e - 1] == b'\n' {
                                e -= 1;
                            }
                            // printable text as it is; anything else as the escaped expectation of the line (fix 0b0618c;
                            // before, the renderer -- and this oracle with it -- wrote the lossy text)
                            let content = &b[..e];
                            let text = if pc.escaper.has_unprintable(content) { pc.escaper.escaped_expectation(content) } else { String::from_utf8_lossy(content).to_string() };
                            let want = format!("+{prefix}{text}");
                            if !have.contains(want.as_str()) {
                                fails.push(("C19:missing-difference".into(), format!("diff: unexpected line #{i} {:?} not shown :: {}", clip(&want), witness(&pc))));
                            }
                        }
                    }
                    _ => {}
                }
            }
            parse_unified(s, prefix)
        }
    };

    // structured
    for (name, r) in [("json", run_renderer(&JsonRenderer::new(false), &os)), ("json-pretty", run_renderer(&JsonRenderer::new(true), &os)), ("yaml", run_renderer(&YamlRenderer::new(), &os))] {
        // structured renderers have no precondition
        match &r {
            R::Panic(p) => fails.push(("C19:panic".into(), format!("{name} renderer panicked: {} :: {}", clip(p), witness(&pc)))),
            R::Err(e) => fails.push(("C19:render-error".into(), format!("{name} renderer returned an error: {} :: {}", clip(e), witness(&pc)))),
            R::Ok(s) => {
                let v: Result<serde_json::Value, String> = if name == "yaml" { serde_yaml::from_str(s).map_err(|e| e.to_string()) } else { serde_json::from_str(s).map_err(|e| e.to_string()) };
                match v {
                    Err(e) => fails.push((format!("C19:bad-{}", if name == "yaml" { "yaml" } else { "json" }), format!("{name} output does not parse: {} :: {}", clip(&e), witness(&pc)))),
                    Ok(v) => {
                        let ok = v.as_array().map(|a| a.len() == 1 && a[0]["result"]["kind"] == "malformed_output" && a[0]["result"]["diff"].as_array().map(|d| d.len()) == Some(pc.diff.lines.len())).unwrap_or(false);
                        if !ok {
                            fails.push(("C19:structured-entries".into(), format!("{name}: not one entry of kind malformed_output with {} diff entries :: {}", pc.diff.lines.len(), witness(&pc))));
                        }
                    }
                }
            }
        }
    }

    let has_err = pc.diff.lines.iter().any(|l| !matches!(l, DiffLine::MatchedExpectation { .. }));
    let has_m = pc.diff.lines.iter().any(|l| matches!(l, DiffLine::MatchedExpectation { .. }));
    CaseRec { op, impl_out: format!("{pretty_c} | {unified_c}"), oracle_fail: keep(prop, fails), nontrivial: has_err && has_m, tags }
}

fn gen_cfg(rng: &mut Rng) -> (usize, bool, usize, String, Escaper, ParserType) {
    let msl = match rng.below(12) {
        0 | 1 => 0,
        2 | 3 => 1,
        4 => 2,
        5 => 3,
        6 => 5,
        7 => rng.range(4, 12),
        8 => 1000,
        _ => rng.range(1, 4),
    };
    let abs = rng.chance(1, 2);
    let line_number = *rng.pick(&[0usize, 1, 2, 7, 8, 9, 10, 95, 96, 97, 98, 99, 100, 234, 994, 998, 999, 1000, 99_999]);
    let shell = format!("cmd{}", "\\\n  more".repeat(rng.range(0, 3)));
    let escaper = if rng.chance(1, 4) { Escaper::Ascii } else { Escaper::Unicode };
    let format = if rng.chance(1, 3) { ParserType::Cram } else { ParserType::Markdown };
    (msl, abs, line_number, shell, escaper, format)
}

/// a diff by the real DiffTool on generated expectations and output
fn gen_real(rng: &mut Rng) -> PCase {
    let mk = maker();
    let (msl, abs, line_number, shell, escaper, format) = gen_cfg(rng);
    let n = if rng.chance(1, 10) { rng.range(8, 40) } else { rng.range(0, 7) };
    let m = if rng.chance(1, 10) { rng.range(8, 40) } else { rng.range(0, 7) };
    let classes = ['a', 'b', 'c'];
    // most lines of one class so that runs of matches (surrounding lines) occur
    let main = *rng.pick(&classes);
    let mut exps = vec![];
    for i in 0..n {
        if rng.chance(2, 3) {
            let cls = if rng.chance(3, 4) { main } else { *rng.pick(&classes) };
            exps.push(class_expectation(&mk, rng, i, cls));
        } else {
            exps.push(tagged_expectation(&mk, rng, i));
        }
    }
    let mut out = vec![];
    for j in 0..m {
        let cls = if rng.chance(3, 4) { main } else { *rng.pick(&classes) };
        let eol = j + 1 < m || rng.chance(4, 5);
        out.extend(line_bytes(rng, cls, j, eol));
    }
    let diff = DiffTool::new(exps.clone()).diff(&out).unwrap_or_else(|_| Diff::new(vec![]));
    PCase { exps, diff, msl, abs, line_number, shell, escaper, format, real: true }
}

fn exp_for(mk: &ExpectationMaker, exps: &[Expectation], i: usize, ml: bool) -> Expectation {
    let mut e = if i < exps.len() { exps[i].clone() } else { mk.parse(&format!("e{i}# beyond the test case")).unwrap() };
    e.multiline = ml;
    e
}

/// arbitrary `Diff::new(lines)`; `wild` allows indices outside the test case / empty line lists
fn gen_hand(rng: &mut Rng, wild: bool, small: Option<(u64, usize)>) -> PCase {
    let mk = maker();
    let (mut msl, abs, line_number, shell, escaper, format) = gen_cfg(rng);
    let big = rng.chance(1, 8);
    let len = rng.range(0, if big { 30 } else { 8 });
    let nexp = if wild { rng.range(0, 12) } else { 0 };
    let mlmask = rng.next();
    let ml = |i: usize| mlmask >> (i % 64) & 1 == 1 && i % 3 == 0;
    let mut lines = vec![];
    let mut next_line = 0usize;
    let mut next_idx = 0usize;
    let mut shape: Vec<u8> = (0..len).map(|_| rng.below(8) as u8).collect();
    if let Some((code, l)) = small {
        // exhaustive shapes: base-3 digits of `code`
        shape = (0..l).map(|k| [0u8, 6, 7][(code / 3u64.pow(k as u32) % 3) as usize]).collect();
    }
    let mut idxs = vec![];
    for s in &shape {
        match s {
            0..=5 => {
                let i = if wild && rng.chance(1, 4) { rng.range(0, 15) } else { next_idx };
                next_idx = i + 1;
                idxs.push(i);
                let k = if wild && rng.chance(1, 8) { 0 } else if ml(i) { rng.range(1, 3) } else { 1 };
                let ls: Vec<usize> = (0..k)
                    .map(|_| {
                        let l = if wild && rng.chance(1, 5) { rng.range(0, 120) } else { next_line };
                        next_line = l + 1;
                        l
                    })
                    .collect();
                lines.push((0u8, i, ls));
            }
            6 => {
                let i = if wild && rng.chance(1, 4) { rng.range(0, 15) } else { next_idx };
                next_idx = i + 1;
                idxs.push(i);
                lines.push((1u8, i, vec![]));
            }
            _ => {
                let k = if wild && rng.chance(1, 8) { 0 } else { rng.range(1, 3) };
                let ls: Vec<usize> = (0..k)
                    .map(|_| {
                        let l = if wild && rng.chance(1, 5) { rng.range(0, 120) } else { next_line };
                        next_line = l + 1;
                        l
                    })
                    .collect();
                lines.push((2u8, 0, ls));
            }
        }
    }
    let nexp = if wild { nexp } else { next_idx + rng.range(0, 2) };
    let exps: Vec<Expectation> = (0..nexp)
        .map(|i| {
            let mut e = tagged_expectation(&mk, rng, i);
            e.multiline = ml(i);
            e
        })
        .collect();
    let dl: Vec<DiffLine> = lines
        .into_iter()
        .map(|(k, i, ls)| {
            let bl = |rng: &mut Rng, ls: Vec<usize>| -> Vec<(usize, Vec<u8>)> { ls.into_iter().map(|l| { let eol = !rng.chance(1, 6); (l, line_bytes(rng, 'a', l, eol)) }).collect() };
            match k {
                0 => DiffLine::MatchedExpectation { index: i, expectation: exp_for(&mk, &exps, i, ml(i)), lines: bl(rng, ls) },
                1 => DiffLine::UnmatchedExpectation { index: i, expectation: exp_for(&mk, &exps, i, ml(i)) },
                _ => DiffLine::UnexpectedLines { lines: bl(rng, ls) },
            }
        })
        .collect();
    if wild && rng.chance(1, 25) {
        msl = *rng.pick(&[usize::MAX, usize::MAX - 1, usize::MAX - 3, usize::MAX / 2]);
    }
    if let Some((_, l)) = small {
        msl = (rng.below(4)) as usize % (l + 2);
    }
    PCase { exps, diff: Diff::new(dl), msl, abs, line_number, shell, escaper, format, real: !wild }
}

// ---------------------------------------------------------------------------------------------
// stream: trailing white space highlighting of one string

const HL_ALPHABET: &[&str] = &["a", " ", "\t", "\u{3000}", "\u{a0}", "\u{2003}", "\u{2028}", "é", "😀", "\u{85}", "\\"];

fn eval_hl(prop: &str, text: &str, as_expectation: bool, escaper: Escaper) -> Option<CaseRec> {
    let mk = maker();
    let (diff, input, sym, exps) = if as_expectation {
        let e = mk.parse(text).ok()?;
        let s = e.to_expression_string(&escaper);
        (Diff::new(vec![DiffLine::UnmatchedExpectation { index: 0, expectation: e.clone() }]), s, '-', vec![e])
    } else {
        let mut b = text.as_bytes().to_vec();
        b.push(b'\n');
        let s = escaper.escaped_expectation(&b);
        (Diff::new(vec![DiffLine::UnexpectedLines { lines: vec![(0, b)] }]), s, '+', vec![])
    };
    let outcome = Outcome {
        location: None,
        output: Output::from(("", "", Some(0))),
        testcase: TestCase { title: "T0".into(), shell_expression: "cmd".into(), expectations: exps, exit_code: None, line_number: 1, ..Default::default() },
        format: ParserType::Markdown,
        escaping: escaper.clone(),
        result: Err(TestCaseError::MalformedOutput(diff)),
    };
    let r = run_renderer(&PrettyMonochromeRenderer::new(PrettyColorRenderer { max_surrounding_lines: 0, absolute_line_numbers: false, summarize: false }), &[&outcome]);
    let mut fails = vec![];
    let impl_out = match &r {
        R::Panic(p) => {
            fails.push(("C19:panic".to_string(), format!("pretty renderer panicked on {} line {:?} (hex {}): {}", if as_expectation { "expectation" } else { "output" }, clip(text), clip(&hex(text.as_bytes())), clip(p))));
            "crash".to_string()
        }
        R::Err(e) => {
            fails.push(("C19:render-error".to_string(), format!("pretty renderer failed on {:?}: {}", clip(text), clip(e))));
            "error".to_string()
        }
        R::Ok(s) => match pretty_body(s).and_then(|b| parse_pretty(&b)) {
            Some((_, lines)) if lines.len() == 1 && lines[0].sym == sym => {
                if lines[0].content != disp(&input) {
                    fails.push(("C19:missing-difference".to_string(), format!("pretty shows {:?} for {:?}", clip(&lines[0].content), clip(&input))));
                }
                hex(lines[0].content.as_bytes())
            }
            _ => "unparsable".to_string(),
        },
    };
    let trail = input.len() - input.trim_end_matches(char::is_whitespace).len();
    let tags = vec![format!("hl:{}", if trail == 0 { "no-trailing" } else if input[input.len() - trail..].is_ascii() { "ascii-trailing" } else { "multibyte-trailing" })];
    Some(CaseRec { op: format!("hl {}", hex(input.as_bytes())), impl_out, oracle_fail: keep(prop, fails), nontrivial: trail > 0 && trail < input.len(), tags })
}

// ---------------------------------------------------------------------------------------------
// stream: lists of outcomes of every kind through all renderers (sections, summary, kinds)

#[derive(Clone, Copy, PartialEq, Debug)]
enum K {
    Ok,
    Malformed,
    ExitCode,
    Internal,
    Timeout,
    Skipped,
}
const KS: [K; 6] = [K::Ok, K::Malformed, K::ExitCode, K::Internal, K::Timeout, K::Skipped];
impl K {
    fn letter(self) -> char {
        match self {
            K::Ok => 'o',
            K::Malformed => 'm',
            K::ExitCode => 'x',
            K::Internal => 'i',
            K::Timeout => 't',
            K::Skipped => 's',
        }
    }
    fn name(self) -> &'static str {
        match self {
            K::Ok => "success",
            K::Malformed => "malformed_output",
            K::ExitCode => "invalid_exit_code",
            K::Internal => "internal_error",
            K::Timeout => "timeout",
            K::Skipped => "skipped",
        }
    }
}

struct SO {
    kind: K,
    loc: Option<usize>,
    line: usize,
}

fn eval_sections(prop: &str, sos: &[SO], rng: &mut Rng) -> CaseRec {
    let mk = maker();
    let outcomes: Vec<Outcome> = sos
        .iter()
        .enumerate()
        .map(|(pos, so)| {
            let e = mk.parse(&format!("e0# {}", gen_text(rng))).unwrap_or_else(|_| mk.parse("e0# x").unwrap());
            let result = match so.kind {
                K::Ok => Ok(()),
                K::Malformed => Err(TestCaseError::MalformedOutput(Diff::new(vec![
                    DiffLine::UnmatchedExpectation { index: 0, expectation: e.clone() },
                    DiffLine::UnexpectedLines { lines: vec![(0, line_bytes(rng, 'a', 0, true))] },
                ]))),
                K::ExitCode => Err(TestCaseError::InvalidExitCode { actual: rng.range(0, 255) as i32 - 3, expected: 0 }),
                K::Internal => Err(TestCaseError::InternalError(anyhow::anyhow!("boom {}\nsecond line", gen_text(rng)))),
                K::Timeout => Err(TestCaseError::Timeout),
                K::Skipped => Err(TestCaseError::Skipped),
            };
            let mut so_out = gen_bytes(rng);
            so_out.push(b'\n');
            so_out.extend(gen_bytes(rng));
            let output = Output { stdout: so_out.into(), stderr: gen_bytes(rng).into(), exit_code: scrut::output::ExitStatus::Code(1) };
            Outcome {
                location: so.loc.map(|l| format!("f{l:03}.md")),
                output,
                testcase: TestCase { title: format!("T{pos}q"), shell_expression: format!("cmd {}", gen_text(rng)), expectations: vec![e], exit_code: if rng.chance(1, 2) { Some(0) } else { None }, line_number: so.line, ..Default::default() },
                format: if rng.chance(1, 2) { ParserType::Cram } else { ParserType::Markdown },
                escaping: if rng.chance(1, 4) { Escaper::Ascii } else { Escaper::Unicode },
                result,
            }
        })
        .collect();
    let refs: Vec<&Outcome> = outcomes.iter().collect();
    let op = format!(
        "sections {}",
        if sos.is_empty() { "-".to_string() } else { sos.iter().map(|s| format!("{}{}:{}", s.kind.letter(), s.loc.map(|l| l.to_string()).unwrap_or("-".into()), s.line)).collect::<Vec<_>>().join(";") }
    );
    let desc = op.clone();
    let mixed = { let c = sos.iter().filter(|s| s.loc.is_some()).count(); c > 0 && c != sos.len() };
    let mut fails: Vec<(String, String)> = vec![];
    static TRE: std::sync::OnceLock<regex::Regex> = std::sync::OnceLock::new();
    let title_re = TRE.get_or_init(|| regex::Regex::new(r"T(\d+)q").unwrap());
    let titles = |s: &str, must_start: &[&str]| -> Vec<usize> {
        s.split('\n').filter(|l| must_start.iter().any(|p| l.starts_with(p))).filter_map(|l| title_re.captures(l).and_then(|c| c[1].parse().ok())).collect()
    };
    let show = |v: &[usize]| if v.is_empty() { "none".to_string() } else { v.iter().map(|x| x.to_string()).collect::<Vec<_>>().join(",") };

    // pretty
    let pr = run_renderer(&PrettyMonochromeRenderer::new(PrettyColorRenderer { max_surrounding_lines: 5, absolute_line_numbers: false, summarize: true }), &refs);
    let _ = run_renderer(&PrettyColorRenderer { max_surrounding_lines: 5, absolute_line_numbers: true, summarize: true }, &refs);
    let (p_c, s_c) = match &pr {
        R::Panic(p) => {
            fails.push(("C19:panic".into(), format!("pretty renderer panicked: {} :: {desc}", clip(p))));
            ("crash".to_string(), "crash".to_string())
        }
        R::Err(e) => {
            fails.push(("C19:render-error".into(), format!("pretty renderer returned an error: {} :: {desc}", clip(e))));
            ("error".to_string(), "error".to_string())
        }
        R::Ok(s) => {
            let shown = titles(s, &["// # "]);
            for (pos, so) in sos.iter().enumerate() {
                let has = shown.contains(&pos);
                if so.kind == K::Ok && has {
                    fails.push(("C19:section-for-pass".into(), format!("pretty renders a section for passing outcome {pos} :: {desc}")));
                }
                if !matches!(so.kind, K::Ok | K::Skipped) && !has {
                    fails.push(("C19:missing-section".into(), format!("pretty renders no section for failed outcome {pos} :: {desc}")));
                }
            }
            static SRE: std::sync::OnceLock<regex::Regex> = std::sync::OnceLock::new();
            let sre = SRE.get_or_init(|| regex::Regex::new(r"(?m)^Result: (\d+) document\(s\) with (\d+) testcase\(s\): (\d+) succeeded, (\d+) failed and (\d+) skipped$").unwrap());
            let sm = match sre.captures(s) {
                Some(c) => {
                    if c[2].parse::<usize>().ok() != Some(sos.len()) {
                        fails.push(("C19:summary".into(), format!("summary total {} for {} outcomes :: {desc}", &c[2], sos.len())));
                    }
                    format!("{},{},{},{}", &c[1], &c[3], &c[4], &c[5])
                }
                None => "no-summary".to_string(),
            };
            (show(&shown), sm)
        }
    };

    // diff
    let dr = run_renderer(&DiffRenderer::new(), &refs);
    let d_c = match &dr {
        R::Panic(p) => {
            fails.push(("C19:panic".into(), format!("diff renderer panicked: {} :: {desc}", clip(p))));
            "crash".to_string()
        }
        R::Err(e) => {
            if !mixed {
                fails.push(("C19:render-error".into(), format!("diff renderer returned an error: {} :: {desc}", clip(e))));
            }
            "error".to_string()
        }
        R::Ok(s) => {
            let shown = titles(s, &["@@ ", "# TITLE: "]);
            for (pos, so) in sos.iter().enumerate() {
                let has = shown.contains(&pos);
                if so.kind == K::Ok && has {
                    fails.push(("C19:section-for-pass".into(), format!("diff renders a section for passing outcome {pos} :: {desc}")));
                }
                if matches!(so.kind, K::Malformed | K::ExitCode | K::Internal) && !has {
                    fails.push(("C19:missing-section".into(), format!("diff renders no section for failed outcome {pos} :: {desc}")));
                }
            }
            show(&shown)
        }
    };

    // structured
    let mut k_c = String::new();
    for (name, r) in [("json", run_renderer(&JsonRenderer::new(false), &refs)), ("json-pretty", run_renderer(&JsonRenderer::new(true), &refs)), ("yaml", run_renderer(&YamlRenderer::new(), &refs))] {
        let kinds = match &r {
            R::Panic(p) => {
                fails.push(("C19:panic".into(), format!("{name} renderer panicked: {} :: {desc}", clip(p))));
                "crash".to_string()
            }
            R::Err(e) => {
                fails.push(("C19:render-error".into(), format!("{name} renderer returned an error: {} :: {desc}", clip(e))));
                "error".to_string()
            }
            R::Ok(s) => {
                let v: Result<serde_json::Value, String> = if name == "yaml" { serde_yaml::from_str(s).map_err(|e| e.to_string()) } else { serde_json::from_str(s).map_err(|e| e.to_string()) };
                match v {
                    Err(e) => {
                        fails.push((format!("C19:bad-{}", if name == "yaml" { "yaml" } else { "json" }), format!("{name} output does not parse: {} :: {desc}", clip(&e))));
                        "unparsable".to_string()
                    }
                    Ok(v) => match v.as_array() {
                        None => {
                            fails.push(("C19:structured-entries".into(), format!("{name}: top level is not a list :: {desc}")));
                            "not-a-list".to_string()
                        }
                        Some(a) => {
                            let ks: Vec<String> = a.iter().map(|e| e["result"]["kind"].as_str().unwrap_or("?").to_string()).collect();
                            let want: Vec<&str> = sos.iter().map(|s| s.kind.name()).collect();
                            if ks.iter().map(|s| s.as_str()).collect::<Vec<_>>() != want {
                                fails.push(("C19:structured-entries".into(), format!("{name}: kinds {:?}, expected {:?} :: {desc}", ks, want)));
                            }
                            if ks.is_empty() { "none".to_string() } else { ks.join(",") }
                        }
                    },
                }
            }
        };
        if k_c.is_empty() {
            k_c = kinds;
        } else if k_c != kinds {
            k_c = format!("{k_c}!={kinds}");
        }
    }
    let mut tags: Vec<String> = sos.iter().map(|s| format!("kind:{}", s.kind.name())).collect();
    tags.push(format!("sections:{}", if mixed { "mixed-locations" } else if sos.iter().all(|s| s.loc.is_none()) { "no-locations" } else { "all-located" }));
    CaseRec { op, impl_out: format!("P:{p_c} S:{s_c} D:{d_c} K:{k_c}"), oracle_fail: keep(prop, fails), nontrivial: sos.len() >= 2, tags }
}

// ---------------------------------------------------------------------------------------------

pub fn run(ctx: &Ctx, prop: &str) {
    // `console` decides once whether to colour; force it so that the colour renderer really styles
    std::env::set_var("CLICOLOR_FORCE", "1");
    let seed = ctx.seed;
    let t = ctx.thorough;

    // 1. highlight: every string over the alphabet up to length 4 (5), as output line and as expectation
    let a = HL_ALPHABET.len() as u64;
    let maxlen = if t { 5 } else { 4 };
    let total: u64 = (0..=maxlen).map(|l| a.pow(l)).sum();
    ctx.run_stream("highlight-exhaustive", total * 2, true, |idx| {
        let as_exp = idx % 2 == 1;
        let mut r = idx / 2;
        let mut len = 0u32;
        while r >= a.pow(len) {
            r -= a.pow(len);
            len += 1;
        }
        let mut s = String::new();
        for _ in 0..len {
            s.push_str(HL_ALPHABET[(r % a) as usize]);
            r /= a;
        }
        eval_hl(prop, &s, as_exp, Escaper::Unicode)
    });
    ctx.run_stream("highlight-random", if t { 60_000 } else { 6_000 }, false, |idx| {
        let mut rng = Rng::fork(seed, 191, idx);
        let s = gen_text(&mut rng);
        eval_hl(prop, &s, rng.chance(1, 2), if rng.chance(1, 4) { Escaper::Ascii } else { Escaper::Unicode })
    });

    // 2. surrounding-lines logic: every shape over {matched, unmatched, unexpected} up to length 7 (9)
    let maxl = if t { 9 } else { 7 };
    let shapes: u64 = (0..=maxl).map(|l| 3u64.pow(l)).sum();
    ctx.run_stream("shapes-exhaustive", shapes, true, |idx| {
        let mut r = idx;
        let mut len = 0u32;
        while r >= 3u64.pow(len) {
            r -= 3u64.pow(len);
            len += 1;
        }
        let mut rng = Rng::fork(seed, 192, idx);
        Some(eval_pdiff(prop, gen_hand(&mut rng, false, Some((r, len as usize))), "shape"))
    });

    // 3. diffs by the real DiffTool
    ctx.run_stream("real-diff-random", if t { 100_000 } else { 12_000 }, false, |idx| {
        let mut rng = Rng::fork(seed, 193, idx);
        Some(eval_pdiff(prop, gen_real(&mut rng), "real"))
    });
    // 4. hand-built diffs: well-formed, and arbitrary (indices out of range, empty line lists, huge msl)
    ctx.run_stream("hand-diff-wellformed", if t { 50_000 } else { 6_000 }, false, |idx| {
        let mut rng = Rng::fork(seed, 194, idx);
        Some(eval_pdiff(prop, gen_hand(&mut rng, false, None), "hand-wf"))
    });
    ctx.run_stream("hand-diff-arbitrary", if t { 50_000 } else { 8_000 }, false, |idx| {
        let mut rng = Rng::fork(seed, 195, idx);
        Some(eval_pdiff(prop, gen_hand(&mut rng, true, None), "hand-wild"))
    });

    // 5. outcome lists: every kind sequence up to length 3 (4) with one location, then random
    let maxk = if t { 4 } else { 3 };
    let seqs: u64 = (0..=maxk).map(|l| 6u64.pow(l)).sum();
    ctx.run_stream("kinds-exhaustive", seqs, true, |idx| {
        let mut r = idx;
        let mut len = 0u32;
        while r >= 6u64.pow(len) {
            r -= 6u64.pow(len);
            len += 1;
        }
        let mut rng = Rng::fork(seed, 196, idx);
        let sos: Vec<SO> = (0..len)
            .map(|k| {
                let kind = KS[(r / 6u64.pow(k) % 6) as usize];
                SO { kind, loc: Some(1), line: 10 * (k as usize + 1) }
            })
            .collect();
        Some(eval_sections(prop, &sos, &mut rng))
    });
    ctx.run_stream("outcomes-random", if t { 30_000 } else { 5_000 }, false, |idx| {
        let mut rng = Rng::fork(seed, 197, idx);
        let n = rng.range(0, 7);
        let mode = rng.below(8); // 0: no locations, 1: mixed, else all located
        let sos: Vec<SO> = (0..n)
            .map(|_| SO {
                kind: *rng.pick(&KS),
                loc: match mode {
                    0 => None,
                    1 => if rng.chance(1, 2) { Some(rng.range(0, 3)) } else { None },
                    _ => Some(rng.range(0, 3)),
                },
                line: rng.range(0, 4) * 7,
            })
            .collect();
        Some(eval_sections(prop, &sos, &mut rng))
    });
    ctx.note("C19: texts (wide/multi-byte characters, trailing Unicode white space, control bytes, invalid UTF-8, 10^5-character lines) only reach the direct oracles and the `hl` op; `pdiff`/`sections` ops carry the structure".into());
}

/// replays the structure of an op (texts are regenerated; a text-dependent failure carries its witness in the description)
pub fn replay(prop: &str, op: &str) -> bool {
    std::env::set_var("CLICOLOR_FORCE", "1");
    let parts: Vec<&str> = op.split_whitespace().collect();
    let mut rng = Rng::fork(1, 199, 0);
    let rec = match parts.first() {
        Some(&"hl") if parts.len() == 2 => {
            // the op carries the escaped text; replay it as an output line (identity for printable text)
            let s = String::from_utf8_lossy(&unhex(parts[1])).to_string();
            match eval_hl(prop, &s, false, Escaper::Unicode) {
                Some(r) => r,
                None => return false,
            }
        }
        Some(&"sections") if parts.len() == 2 => {
            let sos: Vec<SO> = if parts[1] == "-" {
                vec![]
            } else {
                parts[1]
                    .split(';')
                    .map(|s| {
                        let kind = KS.iter().copied().find(|k| Some(k.letter()) == s.chars().next()).unwrap_or(K::Ok);
                        let mut f = s[1..].split(':');
                        let loc = f.next().and_then(|l| l.parse().ok());
                        let line = f.next().and_then(|l| l.parse().ok()).unwrap_or(0);
                        SO { kind, loc, line }
                    })
                    .collect()
            };
            eval_sections(prop, &sos, &mut rng)
        }
        Some(&"pdiff") if parts.len() == 8 => {
            let mk = maker();
            let nexp: usize = parts[5].parse().unwrap_or(0);
            let mls: Vec<usize> = if parts[6] == "-" { vec![] } else { parts[6].split(',').filter_map(|x| x.parse().ok()).collect() };
            let exps: Vec<Expectation> = (0..nexp).map(|i| exp_for(&mk, &[], i, mls.contains(&i))).collect();
            let nums = |s: &str| -> Vec<usize> { s.split(',').filter_map(|x| x.parse().ok()).collect() };
            let bl = |ls: Vec<usize>| -> Vec<(usize, Vec<u8>)> { ls.into_iter().map(|l| (l, format!("a{l}# line\n").into_bytes())).collect() };
            let dl: Vec<DiffLine> = if parts[7] == "-" {
                vec![]
            } else {
                parts[7]
                    .split(';')
                    .map(|e| {
                        if let Some(r) = e.strip_prefix("M") {
                            let mut f = r.split(':');
                            let i: usize = f.next().unwrap_or("0").parse().unwrap_or(0);
                            DiffLine::MatchedExpectation { index: i, expectation: exp_for(&mk, &exps, i, mls.contains(&i)), lines: bl(nums(f.next().unwrap_or(""))) }
                        } else if let Some(r) = e.strip_prefix("U") {
                            let i: usize = r.parse().unwrap_or(0);
                            DiffLine::UnmatchedExpectation { index: i, expectation: exp_for(&mk, &exps, i, mls.contains(&i)) }
                        } else {
                            DiffLine::UnexpectedLines { lines: bl(nums(e.trim_start_matches("X:"))) }
                        }
                    })
                    .collect()
            };
            let shl: usize = parts[4].parse().unwrap_or(1);
            let pc = PCase {
                exps,
                diff: Diff::new(dl),
                msl: parts[1].parse().unwrap_or(0),
                abs: parts[2] == "1",
                line_number: parts[3].parse().unwrap_or(0),
                shell: format!("cmd{}", "\\\n  more".repeat(shl.saturating_sub(1))),
                escaper: Escaper::Unicode,
                format: ParserType::Markdown,
                real: false,
            };
            eval_pdiff(prop, pc, "replay")
        }
        _ => {
            eprintln!("unsupported replay op");
            return false;
        }
    };
    println!("impl: {}", clip(&rec.impl_out));
    for (cl, d) in &rec.oracle_fail {
        println!("oracle-failure {cl}: {d}");
    }
    rec.oracle_fail.is_empty()
}
