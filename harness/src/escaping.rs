//! C11 (escaping is lossless and printable) and the string rules of C04 (equal / no-eol / escaped):
//! the real `Escaper`, `ExpectationMaker::parse` and `Expectation::matches` against the Lean model
//! (`Model/Escaping.lean`, `EscapedFilter.lean`, `RulesStr.lean`, `Utf8.lean`), plus direct oracles.
use crate::common::*;
use scrut::escaping::Escaper;
use scrut::expectation::{Expectation, ExpectationMaker};
use scrut::rules::registry::RuleRegistry;
use crate::generate::unicode_other;

thread_local! {
    static MAKER: ExpectationMaker = ExpectationMaker::new(RuleRegistry::default());
}

fn parse(line: &str) -> Result<Result<Expectation, String>, String> {
    MAKER.with(|mk| guarded(|| mk.parse(line).map_err(|e| format!("{e:#}"))))
}

/// independent `trim_newlines`
fn trim(line: &[u8]) -> &[u8] {
    let mut n = line.len();
    while n > 0 && line[n - 1] == b'\n' {
        n -= 1;
    }
    &line[..n]
}

fn with_lf(t: &[u8], k: usize) -> Vec<u8> {
    let mut v = t.to_vec();
    for _ in 0..k {
        v.push(b'\n');
    }
    v
}

fn b01(b: bool) -> &'static str {
    if b {
        "1"
    } else {
        "0"
    }
}

fn escaper(mode: char) -> Escaper {
    if mode == 'a' {
        Escaper::Ascii
    } else {
        Escaper::Unicode
    }
}

/// single-byte edits of the content: substitutions, deletions, insertions (no LF, never the original)
fn edits(t: &[u8]) -> Vec<Vec<u8>> {
    let mut out: Vec<Vec<u8>> = vec![];
    let n = t.len();
    let pos: Vec<usize> = if n <= 6 { (0..n).collect() } else { vec![0, 1, n / 2, n - 2, n - 1] };
    for &i in &pos {
        for r in [t[i] ^ 1, t[i] ^ 0x20, t[i] ^ 0x80, b'\\', b'\t', b't', 0x01, b'x'] {
            if r != b'\n' && r != t[i] {
                let mut v = t.to_vec();
                v[i] = r;
                out.push(v);
            }
        }
        let mut v = t.to_vec();
        v.remove(i);
        out.push(v);
    }
    let ins: Vec<usize> = if n <= 6 { (0..=n).collect() } else { vec![0, n / 2, n] };
    for &i in &ins {
        for r in [b'\\', b' ', 0x00, 0x01, b'\t', b'0', 0xa9, b')'] {
            let mut v = t.to_vec();
            v.insert(i, r);
            out.push(v);
        }
    }
    out.retain(|v| v != t);
    out
}

fn esc_case(prop: &str, mode: char, line: &[u8], stream_tag: &str) -> CaseRec {
    let esc = escaper(mode);
    let t = trim(line);
    let valid = std::str::from_utf8(line).ok();
    let bits: String = match valid {
        Some(s) if !s.is_empty() => s.chars().map(|c| if unicode_other(c) { '1' } else { '0' }).collect(),
        _ => "-".to_string(),
    };
    let op = format!("esc {} {} {}", mode, hex(line), bits);
    let mut fails: Vec<(String, String)> = vec![];
    let real = guarded(|| (esc.has_unprintable(line), esc.escaped_printable(line), esc.escaped_expectation(line), esc.escaped_printable(t)));
    let (hu, ep, w, ept) = match real {
        Ok(x) => x,
        Err(p) => {
            fails.push(("C11:crash".into(), format!("escaper panicked: {p}")));
            return CaseRec { op, impl_out: "crash".into(), oracle_fail: filter(prop, fails), nontrivial: false, tags: vec!["crash".into()] };
        }
    };
    // the kind it is written as
    // independent restatement of the guard: a tailing " (no-eol)" of the escaped text has its blank written \x20
    let guarded = match ept.strip_suffix(" (no-eol)") {
        Some(body) => format!("{body}\\x20(no-eol)"),
        None => ept.clone(),
    };
    let marked = if w == ept {
        false
    } else if w == format!("{guarded} (escaped)") {
        true
    } else if w == format!("{ept} (escaped)") {
        // the pre-c1bf05c shape: the escaped rule will strip the content's " (no-eol)"
        true
    } else {
        fails.push(("C11:shape".into(), format!("escaped_expectation is neither the escaped rendering nor the rendering + marker: {w:?}")));
        true
    };
    let line_ok = !t.contains(&b'\n'); // a line after trim_newlines; the property quantifies over these
    // printable
    if line_ok || mode == 'a' {
        let bad = if mode == 'a' { w.chars().find(|c| !(' '..='~').contains(c)) } else { w.chars().find(|c| unicode_other(*c)) };
        if let Some(c) = bad {
            fails.push(("C11:unprintable".into(), format!("written text contains U+{:04X}", c as u32)));
        }
    }
    // read back as the kind it was written as
    let text = if marked { w.clone() } else { format!("{w} (equal)") };
    let (made, m1, m2) = match parse(&text) {
        Err(p) => {
            fails.push(("C11:crash".into(), format!("parse panicked on {text:?}: {p}")));
            ("crash".to_string(), "err", "err")
        }
        Ok(Err(e)) => {
            if line_ok {
                fails.push(("C11:unreadable".into(), format!("written text {text:?} does not parse: {e}")));
            }
            (format!("{} err", if marked { "es" } else { "eq" }), "err", "err")
        }
        Ok(Ok(exp)) => {
            let (kind, bytes, _, _) = exp.unmake();
            let want = if marked { "escaped" } else { "equal" };
            if kind != want {
                fails.push(("C11:shape".into(), format!("{text:?} read back as kind {kind}, written as {want}")));
            }
            let m1 = exp.matches(&with_lf(t, 1));
            let m2 = exp.matches(t);
            if marked && w.ends_with(" (no-eol) (escaped)") {
                fails.push(("C11:no-eol-suffix-stripped".into(), format!("{text:?}: the escaped text ends in \" (no-eol)\", which EscapedRule::make strips")));
            }
            if line_ok {
                let noeol = marked && ept.ends_with(" (no-eol)");
                let class = if noeol { "C11:no-eol-suffix-stripped" } else { "C11:not-lossless" };
                if !m1 {
                    fails.push((class.into(), format!("{text:?} does not match the line it was written for")));
                } else if marked && !m2 {
                    fails.push((class.into(), format!("{text:?} does not match the unterminated line it was written for")));
                }
                let class2 = if noeol { "C11:no-eol-suffix-stripped" } else { "C11:matches-other" };
                for e in edits(t) {
                    if exp.matches(&with_lf(&e, 1)) || (marked && exp.matches(&e)) {
                        fails.push((class2.into(), format!("{text:?} written for {} also matches content {}", hex(t), hex(&e))));
                        break;
                    }
                }
            }
            (format!("{} {}", if marked { "es" } else { "eq" }, hex(&bytes)), b01(m1), b01(m2))
        }
    };
    let impl_out = format!("{} {} {} {} {} {}", b01(hu), hex(ep.as_bytes()), hex(w.as_bytes()), made, m1, m2);
    let nontrivial = line.iter().any(|b| !(0x20..=0x7e).contains(b) || *b == b'\\');
    let tags = vec![
        format!("esc:{stream_tag}"),
        format!("mode={mode}"),
        format!("written={}", if marked { "escaped" } else { "equal" }),
        format!("utf8={}", valid.is_some()),
        format!("len={}", line.len().min(9)),
        format!("backslash={}", line.contains(&b'\\')),
        format!("line={}", line_ok),
    ];
    CaseRec { op, impl_out, oracle_fail: filter(prop, fails), nontrivial, tags }
}

fn filter(prop: &str, fails: Vec<(String, String)>) -> Vec<(String, String)> {
    fails.into_iter().filter(|(c, _)| c.starts_with(prop) || c == "harness-panic").collect()
}

const ALPHA3: [u8; 24] = [b'\\', b'x', b'0', b'1', b'7', b'9', b'a', b'f', b't', b'e', b'+', b'\t', 0x1b, 0x7f, 0x80, 0xc3, 0xa9, 0xff, b' ', b'(', b')', 0x01, b'n', 0x00];

/// reference decoder written from the documentation: `\xHH`, `\0OO`, `\\`, `\a \b \e \f \r \t \v`,
/// any other `\c` stays `\c`. `None` = outside the documented fragment (malformed, or a sign).
fn ref_unescape(e: &str) -> Option<Vec<u8>> {
    let cs: Vec<char> = e.chars().collect();
    let mut out = vec![];
    let mut i = 0;
    let mut buf = [0u8; 4];
    while i < cs.len() {
        if cs[i] != '\\' {
            out.extend_from_slice(cs[i].encode_utf8(&mut buf).as_bytes());
            i += 1;
            continue;
        }
        let d = *cs.get(i + 1)?;
        match d {
            'x' | '0' => {
                let radix = if d == 'x' { 16 } else { 8 };
                let a = cs.get(i + 2)?.to_digit(radix)?;
                let b = cs.get(i + 3)?.to_digit(radix)?;
                out.push((a * radix + b) as u8);
                i += 4;
                continue;
            }
            '\\' => out.push(b'\\'),
            'a' => out.push(7),
            'b' => out.push(8),
            'e' => out.push(0x1b),
            'f' => out.push(0x0c),
            'r' => out.push(b'\r'),
            't' => out.push(b'\t'),
            'v' => out.push(0x0b),
            c => {
                out.push(b'\\');
                out.extend_from_slice(c.encode_utf8(&mut buf).as_bytes());
            }
        }
        i += 2;
    }
    Some(out)
}

/// decoder alone: `<expr> (escaped)` through parse, `unmake()` gives the decoded bytes
fn unesc_case(prop: &str, expr: &str, tag: &str) -> CaseRec {
    let op = format!("unesc {}", hex(expr.as_bytes()));
    let mut fails = vec![];
    let impl_out = match parse(&format!("{expr} (escaped)")) {
        Err(p) => {
            fails.push(("C04:crash".to_string(), format!("parse panicked on {expr:?}: {p}")));
            "crash".to_string()
        }
        Ok(Err(_)) => "err".to_string(),
        Ok(Ok(exp)) => {
            let (kind, bytes, _, _) = exp.unmake();
            if kind != "escaped" {
                format!("kind-{kind}")
            } else {
                format!("ok {}", hex(&bytes))
            }
        }
    };
    let stripped = expr.strip_suffix(" (no-eol)").unwrap_or(expr);
    let r = ref_unescape(stripped);
    if let Some(want) = &r {
        if impl_out != format!("ok {}", hex(want)) {
            fails.push(("C04:escaped-decode".to_string(), format!("{expr:?} decodes to {impl_out}, the documented grammar gives {}", hex(want))));
        }
    }
    if r.is_none() && impl_out.starts_with("ok") && !stripped.contains('+') {
        fails.push(("C04:escaped-accepts-outside-grammar".to_string(), format!("{expr:?} is outside the documented grammar (and has no `+`) but decodes to {impl_out}")));
    }
    let tags = vec![format!("unesc:{tag}"), format!("unesc-result={}", &impl_out[..impl_out.len().min(3)]), format!("unesc-in-grammar={}", r.is_some())];
    CaseRec { op, impl_out, oracle_fail: filter(prop, fails), nontrivial: expr.contains('\\'), tags }
}

fn utf8_case(bs: &[u8]) -> CaseRec {
    let impl_out = match String::from_utf8(bs.to_vec()) {
        Ok(s) => format!("ok {}", if s.is_empty() { "-".to_string() } else { s.chars().map(|c| (c as u32).to_string()).collect::<Vec<_>>().join(",") }),
        Err(_) => "invalid".to_string(),
    };
    let tags = vec!["utf8".to_string(), format!("utf8-valid={}", impl_out != "invalid")];
    CaseRec { op: format!("utf8 {}", hex(bs)), nontrivial: bs.iter().any(|b| *b >= 0x80), impl_out, oracle_fail: vec![], tags }
}

const UTF8_EDGE: [u8; 32] = [
    0x00, 0x41, 0x7f, 0x80, 0x8f, 0x90, 0x9f, 0xa0, 0xaf, 0xbf, 0xc0, 0xc1, 0xc2, 0xc3, 0xdf, 0xe0, 0xe1, 0xec, 0xed, 0xee, 0xef, 0xf0, 0xf1, 0xf3, 0xf4, 0xf5, 0xf7, 0xf8, 0xfe, 0xff, 0x0a, 0x5c,
];

fn nth_scalar(i: u32) -> char {
    // i in 0 .. 0x110000 - 0x800
    let cp = if i < 0xD800 { i } else { i + 0x800 };
    char::from_u32(cp).unwrap()
}

fn random_utf8(rng: &mut Rng) -> Vec<u8> {
    let pool: [char; 28] = [
        '\\', 'x', '0', 't', 'e', ' ', '(', ')', 'a', '\t', '\u{1b}', '\u{7f}', '\u{80}', '\u{9f}', '\u{a0}', '\u{ad}', 'é', '\u{200b}', '\u{200e}', '\u{2028}', '\u{3000}', '\u{e000}', '\u{fffd}', '\u{feff}', '😂', '\u{e0001}', '\u{10ffff}', '\u{378}',
    ];
    let n = rng.range(0, 8);
    let mut s = String::new();
    for _ in 0..n {
        if rng.chance(1, 5) {
            s.push(nth_scalar(rng.below(0x110000 - 0x800) as u32));
        } else {
            s.push(*rng.pick(&pool));
        }
    }
    if rng.chance(1, 12) {
        s.push_str(" (no-eol)");
    }
    if rng.chance(1, 12) {
        s.push_str(" (escaped)");
    }
    s = s.replace('\n', "");
    s.into_bytes()
}

pub fn run(ctx: &Ctx, prop: &str) {
    if prop == "C04" {
        run_rules(ctx, prop);
        return;
    }
    let seed = ctx.seed;
    // 1. all strings of 0, 1 and 2 bytes, both modes
    ctx.run_stream("esc-upto-2-bytes-exhaustive", 2 * (1 + 256 + 65536), true, |idx| {
        let mode = if idx % 2 == 0 { 'a' } else { 'u' };
        let i = idx / 2;
        let line: Vec<u8> = if i == 0 {
            vec![]
        } else if i <= 256 {
            vec![(i - 1) as u8]
        } else {
            let j = i - 257;
            vec![(j / 256) as u8, (j % 256) as u8]
        };
        Some(esc_case(prop, mode, &line, "2bytes"))
    });
    // 2. all 3-symbol strings over the alphabet around the backslash, both modes
    ctx.run_stream("esc-3-over-24-exhaustive", 2 * 24 * 24 * 24, true, |idx| {
        let mode = if idx % 2 == 0 { 'a' } else { 'u' };
        let mut r = idx / 2;
        let mut line = vec![];
        for _ in 0..3 {
            line.push(ALPHA3[(r % 24) as usize]);
            r /= 24;
        }
        Some(esc_case(prop, mode, &line, "3alpha"))
    });
    // 3. Unicode scalars: alone, after a backslash, and both next to a control character (escaped form)
    let nscalars: u64 = 0x110000 - 0x800;
    let picks: Vec<u32> = if ctx.thorough { (0..nscalars as u32).collect() } else { (0..nscalars as u32).filter(|i| *i < 0x3000 || i % 101 == 0 || (0xD7F0..0xD810).contains(i) || (0xF000..0x10100 - 0x800).contains(i) || *i > nscalars as u32 - 0x120).collect() };
    ctx.run_stream(if ctx.thorough { "esc-every-scalar-exhaustive" } else { "esc-scalars-sampled" }, picks.len() as u64 * 4, ctx.thorough, |idx| {
        let c = nth_scalar(picks[(idx / 4) as usize]);
        if c == '\n' {
            return None;
        }
        let mut s = String::new();
        match idx % 4 {
            0 => s.push(c),
            1 => {
                s.push('\\');
                s.push(c)
            }
            2 => {
                s.push(c);
                s.push('\u{1}')
            }
            _ => {
                s.push('\\');
                s.push(c);
                s.push('\u{1}')
            }
        }
        Some(esc_case(prop, 'u', s.as_bytes(), "scalar"))
    });
    // 4. seeded random bytes and random valid UTF-8, both modes, with 0-2 trailing newlines
    let n = if ctx.thorough { 600_000 } else { 40_000 };
    ctx.run_stream("esc-random", n, false, |idx| {
        let mut rng = Rng::fork(seed, 41, idx);
        let mode = if rng.chance(1, 2) { 'a' } else { 'u' };
        let mut line: Vec<u8> = if rng.chance(1, 2) {
            random_utf8(&mut rng)
        } else {
            let n = rng.range(0, 12);
            (0..n).map(|_| if rng.chance(1, 2) { *rng.pick(&ALPHA3) } else { rng.below(256) as u8 }).filter(|b| *b != b'\n').collect()
        };
        if rng.chance(1, 10) {
            // the escaped form ending in " (no-eol)"
            line.push(1);
            line.extend_from_slice(b" (no-eol)");
        }
        for _ in 0..rng.below(3) {
            if rng.chance(1, 4) {
                line.push(b'\n');
            }
        }
        Some(esc_case(prop, mode, &line, "random"))
    });
    // 4b. regression for the former finding: contents that end like the no-eol modifier (or nearly)
    const TAILS: [&[u8]; 10] = [b" (no-eol)", b"  (no-eol)", b"(no-eol)", b" (no-eol) (no-eol)", b"\\x20(no-eol)", b"\\ (no-eol)", b" (no-eol) ", b" (no-eol", b"\t(no-eol)", b" (no-eol) (escaped)"];
    ctx.run_stream("esc-no-eol-tails-exhaustive", 2 * (1 + 24 + 576) * 10, true, |idx| {
        let mode = if idx % 2 == 0 { 'a' } else { 'u' };
        let tail = TAILS[(idx / 2 % 10) as usize];
        let i = idx / 20;
        let mut line: Vec<u8> = if i == 0 {
            vec![]
        } else if i <= 24 {
            vec![ALPHA3[(i - 1) as usize]]
        } else {
            vec![ALPHA3[((i - 25) / 24) as usize], ALPHA3[((i - 25) % 24) as usize]]
        };
        line.extend_from_slice(tail);
        Some(esc_case(prop, mode, &line, "noeol-tail"))
    });
    // 5. the decoder alone on arbitrary (also malformed) expressions
    unesc_streams(ctx, prop);
    // 6. the UTF-8 decoder of the model against String::from_utf8
    ctx.run_stream("utf8-upto-2-bytes-exhaustive", 1 + 256 + 65536, true, |idx| {
        let bs: Vec<u8> = if idx == 0 {
            vec![]
        } else if idx <= 256 {
            vec![(idx - 1) as u8]
        } else {
            vec![((idx - 257) / 256) as u8, ((idx - 257) % 256) as u8]
        };
        Some(utf8_case(&bs))
    });
    if ctx.thorough {
        ctx.run_stream("utf8-3-bytes-exhaustive", 1 << 24, true, |idx| Some(utf8_case(&[(idx >> 16) as u8, (idx >> 8) as u8, idx as u8])));
    } else {
        ctx.run_stream("utf8-3-over-edges-exhaustive", 32 * 32 * 32, true, |idx| Some(utf8_case(&[UTF8_EDGE[(idx % 32) as usize], UTF8_EDGE[(idx / 32 % 32) as usize], UTF8_EDGE[(idx / 1024) as usize]])));
    }
    let e4: Vec<u8> = vec![0x41, 0x7f, 0x80, 0x8f, 0x90, 0x9f, 0xa0, 0xbf, 0xc2, 0xe0, 0xed, 0xef, 0xf0, 0xf1, 0xf4, 0xf5];
    ctx.run_stream("utf8-4-over-edges-exhaustive", 16 * 16 * 16 * 16, true, |idx| Some(utf8_case(&[e4[(idx % 16) as usize], e4[(idx / 16 % 16) as usize], e4[(idx / 256 % 16) as usize], e4[(idx / 4096) as usize]])));
    ctx.run_stream("utf8-random", if ctx.thorough { 400_000 } else { 30_000 }, false, |idx| {
        let mut rng = Rng::fork(seed, 43, idx);
        let mut bs = random_utf8(&mut rng);
        for _ in 0..rng.below(3) {
            // damage: overwrite / truncate / insert
            if bs.is_empty() {
                break;
            }
            let i = rng.below(bs.len() as u64) as usize;
            match rng.below(3) {
                0 => bs[i] = *rng.pick(&UTF8_EDGE),
                1 => {
                    bs.remove(i);
                }
                _ => bs.insert(i, *rng.pick(&UTF8_EDGE)),
            }
        }
        Some(utf8_case(&bs))
    });
    ctx.note("esc ops carry the general category Other (regex crate: \\p{C}) for every character of the input; the model has no Unicode table".into());
}

const EXPR_ALPHA: [&str; 16] = ["\\", "x", "0", "1", "7", "8", "f", "F", "g", "+", "-", "t", "e", "é", " ", "\t"];

fn unesc_streams(ctx: &Ctx, prop: &str) {
    let seed = ctx.seed;
    // every expression of up to 4 symbols
    let total: u64 = 1 + 16 + 256 + 4096 + 65536;
    ctx.run_stream("unesc-upto-4-over-16-exhaustive", total, true, |idx| {
        let (mut r, len) = if idx < 1 {
            (0, 0)
        } else if idx < 17 {
            (idx - 1, 1)
        } else if idx < 273 {
            (idx - 17, 2)
        } else if idx < 4369 {
            (idx - 273, 3)
        } else {
            (idx - 4369, 4)
        };
        let mut e = String::new();
        for _ in 0..len {
            e.push_str(EXPR_ALPHA[(r % 16) as usize]);
            r /= 16;
        }
        Some(unesc_case(prop, &e, "small"))
    });
    ctx.run_stream("unesc-random", if ctx.thorough { 400_000 } else { 30_000 }, false, |idx| {
        let mut rng = Rng::fork(seed, 42, idx);
        let n = rng.range(0, 10);
        let mut e = String::new();
        for _ in 0..n {
            match rng.below(8) {
                0 => e.push_str(&format!("\\x{:02x}", rng.below(256))),
                1 => e.push_str(&format!("\\0{}{}", rng.below(8), rng.below(8))),
                2 => {
                    e.push('\\');
                    e.push(*rng.pick(&['a', 'b', 'e', 'f', 'r', 't', 'v', '\\', 'n', 'é', '😂', 'X']))
                }
                _ => e.push_str(*rng.pick(&EXPR_ALPHA)),
            }
        }
        if rng.chance(1, 6) {
            e.push_str(" (no-eol)");
        }
        Some(unesc_case(prop, &e, "random"))
    });
}

// ---------------------------------------------------------------------------------------------
// C04: equal / no-eol / escaped rules against their documented meaning

const RULE_EXPR: [&str; 8] = ["a", "\\", "t", "x", "0", "1", "é", " "];
const LINE_BYTES: [u8; 7] = [b'a', b'\\', b't', b'\t', 0x01, 0xc3, 0xa9];

fn rule_case(prop: &str, kind: &str, expr: &str) -> CaseRec {
    // candidate lines: short cores, the intended lines, each with 0-2 trailing newlines, and LF in front
    let mut cores: Vec<Vec<u8>> = vec![vec![]];
    for a in LINE_BYTES {
        cores.push(vec![a]);
        for b in LINE_BYTES {
            cores.push(vec![a, b]);
        }
    }
    cores.push(expr.as_bytes().to_vec());
    let refd = ref_unescape(expr.strip_suffix(" (no-eol)").unwrap_or(expr));
    if let Some(r) = &refd {
        cores.push(r.clone());
        let mut v = r.clone();
        v.push(b'a');
        cores.push(v);
    }
    let mut lines: Vec<Vec<u8>> = vec![];
    for c in &cores {
        for k in 0..3 {
            lines.push(with_lf(c, k));
        }
        let mut v = vec![b'\n'];
        v.extend_from_slice(c);
        lines.push(v);
    }
    lines.sort();
    lines.dedup();
    let op = format!("rulem {} {} {}", kind, hex(expr.as_bytes()), lines.iter().map(|l| hex(l)).collect::<Vec<_>>().join("/"));
    let suffix = match kind {
        "eq" => "equal",
        "ne" => "no-eol",
        _ => "escaped",
    };
    let mut fails = vec![];
    let impl_out = match parse(&format!("{expr} ({suffix})")) {
        Err(p) => {
            fails.push(("C04:crash".to_string(), format!("parse panicked: {p}")));
            "crash".to_string()
        }
        Ok(Err(_)) => "err".to_string(),
        Ok(Ok(exp)) => {
            let mut s = String::new();
            for l in &lines {
                let m = exp.matches(l);
                s.push_str(b01(m));
                let want = match kind {
                    "eq" => Some(*l == with_lf(expr.as_bytes(), 1)),
                    "ne" => Some(l.as_slice() == expr.as_bytes()),
                    _ => refd.as_ref().map(|r| trim(l) == r.as_slice()),
                };
                if let Some(w) = want {
                    if w != m && fails.is_empty() {
                        fails.push((format!("C04:{suffix}-mismatch"), format!("{expr:?} ({suffix}) on line {}: matches = {m}, documented = {w}", hex(l))));
                    }
                }
            }
            s
        }
    };
    if kind == "es" && refd.is_some() && impl_out == "err" {
        fails.push(("C04:escaped-mismatch".to_string(), format!("{expr:?} is in the documented grammar but is rejected")));
    }
    let tags = vec![format!("rule={suffix}"), format!("rule-matches-some={}", impl_out.contains('1')), format!("rule-err={}", impl_out == "err")];
    CaseRec { op, nontrivial: impl_out.contains('1') && impl_out.contains('0'), impl_out, oracle_fail: filter(prop, fails), tags }
}

pub fn run_rules(ctx: &Ctx, prop: &str) {
    let seed = ctx.seed;
    // every expression of up to 4 symbols x 3 kinds
    let total: u64 = 3 * (1 + 8 + 64 + 512 + 4096);
    ctx.run_stream("rules-upto-4-over-8-exhaustive", total, true, |idx| {
        let kind = ["eq", "ne", "es"][(idx % 3) as usize];
        let i = idx / 3;
        let (mut r, len) = if i < 1 {
            (0, 0)
        } else if i < 9 {
            (i - 1, 1)
        } else if i < 73 {
            (i - 9, 2)
        } else if i < 585 {
            (i - 73, 3)
        } else {
            (i - 585, 4)
        };
        let mut e = String::new();
        for _ in 0..len {
            e.push_str(RULE_EXPR[(r % 8) as usize]);
            r /= 8;
        }
        Some(rule_case(prop, kind, &e))
    });
    ctx.run_stream("rules-random", if ctx.thorough { 100_000 } else { 6_000 }, false, |idx| {
        let mut rng = Rng::fork(seed, 44, idx);
        let kind = *rng.pick(&["eq", "ne", "es"]);
        let n = rng.range(0, 8);
        let mut e = String::new();
        for _ in 0..n {
            match rng.below(6) {
                0 => e.push_str(&format!("\\x{:02x}", rng.below(256))),
                1 => e.push_str(&format!("\\0{}{}", rng.below(8), rng.below(8))),
                2 => {
                    e.push('\\');
                    e.push(*rng.pick(&['a', 'b', 'e', 'f', 'r', 't', 'v', '\\', 'n', 'é']))
                }
                _ => e.push_str(*rng.pick(&EXPR_ALPHA)),
            }
        }
        if rng.chance(1, 6) {
            e.push_str(" (no-eol)");
        }
        Some(rule_case(prop, kind, &e))
    });
    unesc_streams(ctx, prop);
}

pub fn replay(prop: &str, op: &str) -> bool {
    let parts: Vec<&str> = op.split_whitespace().collect();
    let txt = |h: &str| String::from_utf8_lossy(&unhex(h)).to_string();
    let c = match parts.as_slice() {
        ["esc", m, h, _] => esc_case(prop, m.chars().next().unwrap_or('u'), &unhex(h), "replay"),
        ["unesc", h] => unesc_case(prop, &txt(h), "replay"),
        ["utf8", h] => utf8_case(&unhex(h)),
        ["rulem", k, h, _] => rule_case(prop, k, &txt(h)),
        _ => {
            eprintln!("unsupported replay op");
            return false;
        }
    };
    println!("op:   {}", c.op.chars().take(400).collect::<String>());
    println!("impl: {}", c.impl_out);
    for (cl, d) in &c.oracle_fail {
        println!("oracle-failure {cl}: {d}");
    }
    c.oracle_fail.is_empty()
}
