//! C13: commands run verbatim; output bytes and exit codes captured exactly, per test.
//!
//! In-process, with REAL processes:
//!  * `replace`  — Rust `str::replace` against the model's `replaceAll`
//!  * `render`   — `BashRunner` with shell `/bin/cat` returns the rendered template byte for byte
//!  * `crlf`, `rout` — `replace_crlf`, `TestCase::render_output`
//!  * `execall`  — `BashScriptExecutor` with a replay "shell" that ignores the script and writes prepared
//!                 byte streams: drives the private `iterate_divided_output`/`parse_salted_divider_bytes` (the shell re-salts the streams)
//!  * `compile`  — `BashScriptExecutor` with a capture "shell" that stores the script it is handed
//!  * `rmdiv`    — the timeout path (`remove_dividers_from_output`) through a replay shell that sleeps
//!  * `bash`     — real bash through `StatefulExecutor(BashRunner)` and `BashScriptExecutor`; payload
//!                 programs that write prescribed bytes and exit with a prescribed code
//!  * `unmodelled big|strip` — megabytes on both streams at once, ANSI stripping: direct oracle only
//!  * `unmodelled ifs` — a test case that sets IFS: exit codes / streams of it and of the next one vs one plain bash session
//!
//! Every case is a function of its op line (so `--replay <op>` re-evaluates it).
use crate::common::*;
use scrut::config::{DocumentConfig, OutputStreamControl, TestCaseConfig};
use scrut::executors::bash_runner::{BashRunner, BASH_EXCLUDED_VARIABLES};
use scrut::executors::bash_script_executor::BashScriptExecutor;
use scrut::executors::context::Context;
use scrut::executors::error::{ExecutionError, ExecutionTimeout};
use scrut::executors::executor::Executor;
use scrut::executors::runner::Runner;
use scrut::executors::stateful_executor::StatefulExecutor;
use scrut::output::{ExitStatus, Output};
use scrut::testcase::TestCase;
use std::os::unix::fs::PermissionsExt;
use std::path::{Path, PathBuf};
use std::time::Duration;

const PREFIX: &[u8] = b"~~~~~~~~EXECDIVIDER::";
const PLACEHOLDERS: [&str; 6] = ["{state_directory}", "{name}", "{excluded_variables}", "{environment_names}", "{persist_state}", "{shell_expression}"];
/// the configured environment of the rendered test cases; `RENDER_ENV_NAMES` is what must reach the template
const RENDER_ENV: [(&str, &str); 5] = [("VAR_A", "1"), ("B2", "{shell_expression}"), ("bad-name", "y"), ("9x", "z"), ("_u", "")];
/// (the runner adds SHELL, which it sets for every execution, behind the configured names: fix c3d6e8d)
const RENDER_ENV_NAMES: &str = "B2 VAR_A _u SHELL";
const SENTINEL: &str = "\u{1}SENTINEL\u{2}";
const BASH: &str = "/bin/bash";
/// salt the generated streams are written with (the replay shell substitutes the real one)
const GEN_SALT: &str = "SALTsalt0123456789ab";

/// helper "shells" written once, before any thread forks (no ETXTBSY)
pub struct Env {
    _dir: tempfile::TempDir,
    replay: PathBuf,
    replay_sleep: PathBuf,
    capture: PathBuf,
    capture_detached: PathBuf,
    template: String,
}

fn repo_dir() -> PathBuf {
    PathBuf::from(std::env::var("VERIF_REPO").unwrap_or_else(|_| "/repo".to_string()))
}

impl Env {
    pub fn prepare() -> Env {
        let dir = tempfile::Builder::new().prefix("c13-shells.").tempdir().expect("tempdir");
        let mk = |name: &str, body: &str| -> PathBuf {
            let p = dir.path().join(name);
            std::fs::write(&p, body).expect("write helper shell");
            std::fs::set_permissions(&p, std::fs::Permissions::from_mode(0o755)).expect("chmod");
            p
        };
        // all of them run with cwd = the case's work directory
        // the replay shell learns the salt of this execution from the script it is handed (divider echo of test 0)
        // and writes the prepared streams with the generator's salt (./oldsalt) replaced by it
        let replay = mk(
            "replay.sh",
            concat!(
                "#!/bin/sh\n",
                "script=$(cat)\n",
                "new=$(printf '%s\\n' \"$script\" | sed -n 's/^echo \"~~~~~~~~EXECDIVIDER::\\([A-Za-z0-9]*\\)::0::.*$/\\1/p' | head -n 1)\n",
                "old=$(cat ./oldsalt)\n",
                "if [ -n \"$new\" ]; then\n",
                "  printf '%s' \"$new\" > ./salt\n",
                "  LC_ALL=C sed \"s/$old/$new/g\" ./out\n",
                "  LC_ALL=C sed \"s/$old/$new/g\" ./err >&2\n",
                "else\n",
                "  cat ./out\n",
                "  cat ./err >&2\n",
                "fi\n",
                "exit \"$(cat ./code)\"\n"
            ),
        );
        let replay_sleep = mk("replay_sleep.sh", "#!/bin/sh\ncat >/dev/null\ncat ./out\ncat ./err >&2\nexec sleep 5\n");
        let capture = mk("capture.sh", "#!/bin/sh\ncat > ./script\n");
        let capture_detached = mk("capture_detached.sh", "#!/bin/sh\ncat > ./cap.tmp && mv ./cap.tmp ./cap\n");
        let template = std::fs::read_to_string(repo_dir().join("src/executors/bash_runner.template")).expect("read bash_runner.template from the repository (set VERIF_REPO)");
        Env { _dir: dir, replay, replay_sleep, capture, capture_detached, template }
    }
}

fn case_dir() -> tempfile::TempDir {
    tempfile::Builder::new().prefix("c13-case.").tempdir().expect("case dir")
}

fn context(dir: &Path, total: Option<Duration>) -> Context {
    Context {
        work_directory: dir.to_path_buf(),
        temp_directory: dir.to_path_buf(),
        file: PathBuf::from("doc.md"),
        config: DocumentConfig { total_timeout: total, ..Default::default() },
    }
}

fn testcase(expr: &str, config: TestCaseConfig) -> TestCase {
    TestCase { title: "t".into(), shell_expression: expr.to_string(), expectations: vec![], exit_code: None, line_number: 1, config }
}

fn thex(s: &str) -> String {
    hex(s.as_bytes())
}
fn untext(s: &str) -> String {
    String::from_utf8(unhex(s)).expect("utf8 in op")
}
fn ob(s: &str) -> Option<bool> {
    match s {
        "1" => Some(true),
        "0" => Some(false),
        _ => None,
    }
}
fn find(hay: &[u8], needle: &[u8]) -> Option<usize> {
    if needle.is_empty() {
        return Some(0);
    }
    hay.windows(needle.len()).position(|w| w == needle)
}

/// independent statement of the documented CRLF rule: a CR is dropped iff the next byte is LF
fn crlf_spec(bs: &[u8]) -> Vec<u8> {
    let mut out = Vec::with_capacity(bs.len());
    for (i, b) in bs.iter().enumerate() {
        if *b == b'\r' && bs.get(i + 1) == Some(&b'\n') {
            continue;
        }
        out.push(*b);
    }
    out
}

fn bad(op: &str) -> CaseRec {
    CaseRec { op: op.to_string(), impl_out: "bad-op".into(), oracle_fail: vec![], nontrivial: false, tags: vec!["malformed".into()] }
}

// ───────────────────────────── replace ─────────────────────────────

fn eval_replace(op: &str, f: &[&str]) -> CaseRec {
    let (p, r, s) = (untext(f[1]), untext(f[2]), untext(f[3]));
    let out = s.replace(&p, &r);
    let n = if p.is_empty() { 0 } else { s.matches(&p).count() };
    CaseRec { op: op.to_string(), impl_out: thex(&out), oracle_fail: vec![], nontrivial: n > 0, tags: vec![format!("replace:matches={}", n.min(3))] }
}

// ───────────────────────────── render ─────────────────────────────

fn run_cat(env: &Env, sd: &str, name: &str, det: bool, expr: &str) -> Result<Vec<u8>, String> {
    let dir = case_dir();
    let ctx = context(dir.path(), None);
    // a configured environment: the names that are shell names reach the template (`{environment_names}`), in map order
    let environment = RENDER_ENV.iter().map(|(k, v)| (k.to_string(), v.to_string())).collect();
    let cfg = TestCaseConfig { keep_crlf: Some(true), detached: if det { Some(true) } else { None }, environment, ..TestCaseConfig::empty() };
    let tc = testcase(expr, cfg);
    let shell: &Path = if det { &env.capture_detached } else { Path::new("/bin/cat") };
    let r = guarded(|| BashRunner::new(shell, Path::new(sd)).run(name, &tc, &ctx))?;
    let out = r.map_err(|e| format!("error: {e}"))?;
    if det {
        if out.exit_code != ExitStatus::Detached {
            return Err("not detached".into());
        }
        let cap = dir.path().join("cap");
        for _ in 0..500 {
            if cap.exists() {
                return std::fs::read(&cap).map_err(|e| e.to_string());
            }
            std::thread::sleep(Duration::from_millis(10));
        }
        return Err("detached capture never appeared".into());
    }
    if out.exit_code != ExitStatus::Code(0) {
        return Err(format!("cat exit {:?}", out.exit_code));
    }
    Ok((&out.stdout).into())
}

fn eval_render(env: &Env, _op: &str, f: &[&str]) -> CaseRec {
    let (sd, name, det, expr) = (untext(f[2]), untext(f[3]), f[5] == "1", untext(f[6]));
    // the model always runs on the CURRENT template and exclusion list
    // the state directory reaches the template quoted for the shell (fix 5a8761d): the model substitutes that text
    let sd_quoted = shell_escape::unix::escape(std::borrow::Cow::from(sd.as_str())).to_string();
    let op = format!("render {} {} {} {} {} {} {}", thex(&env.template), thex(&sd_quoted), f[3], thex(&BASH_EXCLUDED_VARIABLES.join("|")), thex(RENDER_ENV_NAMES), f[5], f[6]);
    let mut fails = vec![];
    let real = run_cat(env, &sd, &name, det, &expr);
    let sent = run_cat(env, &sd, &name, det, SENTINEL);
    let impl_out = match (&real, &sent) {
        (Ok(r), Ok(s)) => {
            let s = String::from_utf8_lossy(s).to_string();
            let r = String::from_utf8_lossy(r).to_string();
            let count = s.matches(SENTINEL).count();
            // nothing in (or because of) the expression is rewritten: the script is the same text around it
            if r != s.replace(SENTINEL, &expr) {
                fails.push(("C13:expression-rewritten".to_string(), format!("the script handed to the shell for expression {:?} is not the script for a neutral expression with that expression in its place", expr)));
            }
            if !sd.contains('{') && !name.contains('{') && count != 1 {
                fails.push(("C13:template-hypothesis".to_string(), format!("the template holds the expression placeholder {count} times")));
            }
            format!("{} once={}", thex(&r), if count == 1 { 1 } else { 0 })
        }
        (Err(e), _) | (_, Err(e)) => {
            fails.push(("C13:crash".to_string(), format!("render through /bin/cat failed: {e}")));
            "crash".to_string()
        }
    };
    let has_ph = PLACEHOLDERS.iter().any(|p| expr.contains(p));
    CaseRec {
        op,
        impl_out,
        oracle_fail: fails,
        nontrivial: has_ph || expr.contains('{'),
        tags: vec![format!("render:expr-has-placeholder={has_ph}"), format!("render:detached={det}"), format!("render:values-have-placeholder={}", PLACEHOLDERS.iter().any(|p| sd.contains(p) || name.contains(p)))],
    }
}

// ───────────────────────────── crlf / render_output ─────────────────────────────

fn eval_crlf(op: &str, f: &[&str]) -> CaseRec {
    let bs = unhex(f[1]);
    let spec = crlf_spec(&bs);
    let mut fails = vec![];
    let impl_out = match guarded(|| scrut::newline::replace_crlf(&bs).to_vec()) {
        Ok(r) => {
            if r != spec {
                fails.push(("C13:crlf".to_string(), format!("replace_crlf({}) = {} but dropping each CR before LF gives {}", hex(&bs), hex(&r), hex(&spec))));
            }
            format!("{} {}", hex(&r), hex(&spec))
        }
        Err(e) => {
            fails.push(("C13:crash".to_string(), format!("replace_crlf panicked: {e}")));
            format!("crash {}", hex(&spec))
        }
    };
    let n = find(&bs, b"\r\n").is_some();
    CaseRec { op: op.to_string(), impl_out, oracle_fail: fails, nontrivial: n, tags: vec![format!("crlf:has-crlf={n}"), format!("crlf:len={}", if bs.len() > 8 { ">8".to_string() } else { bs.len().to_string() })] }
}

/// `strip <bytes>`: scrut's stripper vs. the model vs. the reference written from ECMA-48
fn eval_stripfn(op: &str, f: &[&str]) -> CaseRec {
    let bs = unhex(f[1]);
    let mut fails = vec![];
    let impl_out = match guarded(|| scrut::escaping::strip_ansi_sequences_bytes(&bs)) {
        Ok(r) => {
            let want = ref_strip_ansi(&bs);
            if r != want {
                fails.push(("C13:strip-ansi-bytes".to_string(), format!("strip_ansi_sequences_bytes({}) = {}, expected {}", hex(&bs), hex(&r), hex(&want))));
            }
            hex(&r)
        }
        Err(e) => {
            fails.push(("C13:crash".to_string(), format!("strip_ansi_sequences_bytes panicked: {e}")));
            "crash".into()
        }
    };
    CaseRec { op: op.to_string(), impl_out, oracle_fail: fails, nontrivial: bs.contains(&0x1b), tags: vec![format!("strip:has-esc={}", bs.contains(&0x1b)), format!("strip:len={}", bs.len().min(9))] }
}

fn eval_rout(op: &str, f: &[&str]) -> CaseRec {
    let (k, s, bs) = (ob(f[1]), ob(f[2]), unhex(f[3]));
    let tc = testcase("x", TestCaseConfig { keep_crlf: k, strip_ansi_escaping: s, ..TestCaseConfig::empty() });
    let mut fails = vec![];
    let processed = if k == Some(true) { bs.clone() } else { crlf_spec(&bs) };
    let impl_out = match guarded(|| tc.render_output(&bs).map(|c| c.to_vec())) {
        Ok(Ok(r)) => {
            // documented transformations only: CR LF -> LF unless keep_crlf, escape sequences removed iff strip_ansi_escaping
            let want = if s == Some(true) { ref_strip_ansi(&processed) } else { processed.clone() };
            if r != want {
                let class = if s == Some(true) { "C13:strip-ansi-bytes" } else { "C13:stdout-bytes" };
                fails.push((class.to_string(), format!("render_output(keep_crlf={k:?}, strip={s:?}) changed {} into {}, expected {}", hex(&bs), hex(&r), hex(&want))));
            }
            hex(&r)
        }
        Ok(Err(_)) => "error".into(),
        Err(e) => {
            fails.push(("C13:crash".to_string(), format!("render_output panicked: {e}")));
            "crash".into()
        }
    };
    CaseRec { op: op.to_string(), impl_out, oracle_fail: fails, nontrivial: find(&bs, b"\r\n").is_some() || bs.contains(&0x1b), tags: vec![format!("rout:keep={:?},strip={:?}", k, s)] }
}

// ───────────────────────────── executors: canonical results ─────────────────────────────

fn show_output(o: &Output) -> String {
    let so: Vec<u8> = (&o.stdout).into();
    let se: Vec<u8> = (&o.stderr).into();
    let code = match &o.exit_code {
        ExitStatus::Code(c) => c.to_string(),
        other => format!("?{other:?}"),
    };
    format!("{}:{}:{}", hex(&so), hex(&se), code)
}

fn show_result(r: &Result<Result<Vec<Output>, ExecutionError>, String>) -> String {
    match r {
        Err(_) => "crash".into(),
        Ok(Ok(outs)) => format!("ok {}", if outs.is_empty() { "_".to_string() } else { outs.iter().map(show_output).collect::<Vec<_>>().join(",") }),
        Ok(Err(ExecutionError::FailedExecution { index, .. })) => format!("failed {index}"),
        Ok(Err(ExecutionError::Skipped(i))) => format!("skipped {i}"),
        Ok(Err(ExecutionError::AbortedExecutions { .. })) => "aborted".into(),
        Ok(Err(ExecutionError::Timeout(ExecutionTimeout::Total, outs))) => format!("timeout {}", outs.iter().map(show_output).collect::<Vec<_>>().join(",")),
        Ok(Err(ExecutionError::Timeout(ExecutionTimeout::Index(i), _))) => format!("timeout-index {i}"),
    }
}

fn script_config(combined: bool, keep: Option<bool>, skip: i32) -> TestCaseConfig {
    TestCaseConfig {
        keep_crlf: keep,
        output_stream: if combined { Some(OutputStreamControl::Combined) } else { None },
        skip_document_code: if skip == 80 { None } else { Some(skip) },
        ..TestCaseConfig::empty()
    }
}

// ───────────────────────────── execall (replay shell) ─────────────────────────────

fn replace_bytes(hay: &[u8], from: &[u8], to: &[u8]) -> Vec<u8> {
    if from.is_empty() {
        return hay.to_vec();
    }
    let mut out = Vec::with_capacity(hay.len());
    let mut i = 0;
    while i < hay.len() {
        if hay[i..].starts_with(from) {
            out.extend_from_slice(to);
            i += from.len();
        } else {
            out.push(hay[i]);
            i += 1;
        }
    }
    out
}

/// `execall <n> <combined> <skip> <scriptExit> <salt> <stdout> <stderr>`: the salt in the op is the one the
/// streams were written with; the execution draws its own, the replay shell re-salts the streams, and the
/// case is reported with the salt and streams of this run
fn eval_execall(env: &Env, _op: &str, f: &[&str]) -> CaseRec {
    let n: usize = f[1].parse().unwrap();
    let combined = f[2] == "1";
    let skip: i32 = f[3].parse().unwrap();
    let script_exit: i32 = f[4].parse().unwrap();
    let old_salt = unhex(f[5]);
    let (so, se) = (unhex(f[6]), unhex(f[7]));
    let dir = case_dir();
    std::fs::write(dir.path().join("out"), &so).unwrap();
    std::fs::write(dir.path().join("err"), &se).unwrap();
    std::fs::write(dir.path().join("oldsalt"), &old_salt).unwrap();
    std::fs::write(dir.path().join("code"), script_exit.to_string()).unwrap();
    let ctx = context(dir.path(), None);
    let tcs: Vec<TestCase> = (0..n).map(|_| testcase("true", script_config(combined, Some(true), skip))).collect();
    let refs: Vec<&TestCase> = tcs.iter().collect();
    let res = guarded(|| BashScriptExecutor::new(&env.replay).execute_all(&refs, &ctx));
    let out = show_result(&res);
    // without test cases the script holds no divider: the salt stays unknown to the shell (and to us);
    // any salt that is not in the streams stands for it
    let (salt, so, se) = match std::fs::read(dir.path().join("salt")) {
        Ok(new) if !new.is_empty() => (new.clone(), replace_bytes(&so, &old_salt, &new), replace_bytes(&se, &old_salt, &new)),
        _ => (b"00000000000000000000".to_vec(), so, se),
    };
    let op = format!("execall {n} {} {skip} {script_exit} {} {} {}", f[2], hex(&salt), hex(&so), hex(&se));
    let kind = out.split(' ').next().unwrap_or("").to_string();
    let needle = [PREFIX, &salt[..], b"::"].concat();
    let dividers = so.windows(needle.len()).filter(|w| *w == &needle[..]).count();
    let foreign = so.windows(PREFIX.len()).filter(|w| *w == PREFIX).count() - dividers;
    CaseRec {
        op,
        impl_out: out,
        oracle_fail: vec![],
        nontrivial: dividers >= 1,
        tags: vec![format!("execall:{kind}"), format!("execall:n={n}"), format!("execall:combined={combined}"), format!("execall:foreign-prefixes={}", foreign.min(3))],
    }
}

// ───────────────────────────── rmdiv (timeout path) ─────────────────────────────

fn eval_rmdiv(env: &Env, op: &str, f: &[&str]) -> CaseRec {
    let so = unhex(f[1]);
    let dir = case_dir();
    std::fs::write(dir.path().join("out"), &so).unwrap();
    std::fs::write(dir.path().join("err"), b"").unwrap();
    let tcs = vec![testcase("true", script_config(false, Some(true), 80))];
    let refs: Vec<&TestCase> = tcs.iter().collect();
    // what was captured when the limit strikes depends on how fast the replay shell got to write: on a loaded
    // machine it may not have written yet, so an empty capture of a non-empty stream is retried with a longer limit
    let mut impl_out = String::new();
    for ms in [600u64, 1500, 3500] {
        let ctx = context(dir.path(), Some(Duration::from_millis(ms)));
        let res = guarded(|| BashScriptExecutor::new(&env.replay_sleep).execute_all(&refs, &ctx));
        impl_out = match &res {
            Ok(Err(ExecutionError::Timeout(ExecutionTimeout::Total, outs))) if outs.len() == 1 => {
                let b: Vec<u8> = (&outs[0].stdout).into();
                hex(&b)
            }
            other => format!("unexpected {}", show_result(other)),
        };
        if impl_out != "-" || so.is_empty() {
            break;
        }
    }
    CaseRec { op: op.to_string(), impl_out, oracle_fail: vec![], nontrivial: find(&so, PREFIX).is_some(), tags: vec!["rmdiv".into()] }
}

// ───────────────────────────── compile (capture shell) ─────────────────────────────

fn eval_compile(env: &Env, _op: &str, f: &[&str]) -> CaseRec {
    let combined = f[1] == "1";
    let exports: Vec<String> = if f[3] == "_" { vec![] } else { f[3].split(',').map(untext).collect() };
    let exprs: Vec<String> = if f[4] == "_" { vec![] } else { f[4].split(',').map(untext).collect() };
    let dir = case_dir();
    let ctx = context(dir.path(), None);
    let mut cfg = script_config(combined, None, 80);
    for e in &exports {
        // "export K=V"
        let kv = &e["export ".len()..];
        let (k, v) = kv.split_once('=').unwrap();
        cfg.environment.insert(k.to_string(), v.to_string());
    }
    let tcs: Vec<TestCase> = exprs.iter().map(|e| testcase(e, cfg.clone())).collect();
    let refs: Vec<&TestCase> = tcs.iter().collect();
    let res = guarded(|| BashScriptExecutor::new(&env.capture).execute_all(&refs, &ctx));
    let mut fails = vec![];
    if res.is_err() {
        fails.push(("C13:crash".to_string(), "execute_all panicked with the capture shell".to_string()));
    }
    let script = std::fs::read_to_string(dir.path().join("script")).unwrap_or_else(|_| "<no script captured>".into());
    // the salt of this run
    let salt = match script.find("echo \"~~~~~~~~EXECDIVIDER::") {
        Some(i) => {
            let rest = &script[i + 6 + PREFIX.len()..];
            rest[..rest.find("::").unwrap_or(0)].to_string()
        }
        None => "nosalt".to_string(),
    };
    if !exprs.is_empty() && !(salt.len() == 20 && salt.chars().all(|c| c.is_ascii_alphanumeric())) {
        fails.push(("C13:salt".to_string(), format!("salt {salt:?} is not 20 alphanumeric characters")));
    }
    // direct oracle: every expression is in the script verbatim, each followed by an empty line and its divider echo
    let mut want = String::new();
    if !exprs.is_empty() {
        for e in &exports {
            want.push_str(e);
            want.push('\n');
        }
    }
    for (i, e) in exprs.iter().enumerate() {
        if i > 0 {
            want.push('\n');
        }
        want.push_str(e);
        // the exit code is taken by a command of its own; the dividers expand the variable, not `$?`
        want.push_str(&format!("\n\n__SCRUT_EXIT_CODE=$?\n\\builtin echo \"~~~~~~~~EXECDIVIDER::{salt}::{i}::$__SCRUT_EXIT_CODE\""));
        if !combined {
            want.push_str(&format!("\n1>&2 \\builtin echo \"~~~~~~~~EXECDIVIDER::{salt}::{i}::$__SCRUT_EXIT_CODE\""));
        }
        want.push_str("\n\\builtin unset __SCRUT_EXIT_CODE");
    }
    if script != want {
        fails.push(("C13:script-verbatim".to_string(), "the compiled script is not the expressions verbatim, each followed by an empty line, `__SCRUT_EXIT_CODE=$?`, its divider echo(s) and `unset __SCRUT_EXIT_CODE` (by the builtins)".to_string()));
    }
    // the property behind the layout, checked on the text alone: a divider echo that expands `$?` reads the status of
    // whatever stands in front of it -- its own `echo` when an expression ends in `|`
    if script.lines().any(|l| l.contains("EXECDIVIDER::") && (l.contains("echo \"~~~~~~~~EXECDIVIDER::")) && l.ends_with("$?\"") && l.contains(&format!("::{salt}::"))) {
        fails.push(("C13:divider-reads-status-itself".to_string(), "a divider echo line of the compiled script expands `$?` itself: an expression that ends in `|` makes it part of the user's pipeline and it reports 0".to_string()));
    }
    let op = format!("compile {} {} {} {}", f[1], thex(&salt), f[3], f[4]);
    let has = exprs.iter().any(|e| PLACEHOLDERS.iter().any(|p| e.contains(p)) || e.contains("EXECDIVIDER"));
    CaseRec { op, impl_out: thex(&script), oracle_fail: fails, nontrivial: exprs.len() >= 2 || has, tags: vec![format!("compile:n={}", exprs.len()), format!("compile:combined={combined}")] }
}

// ───────────────────────────── real bash ─────────────────────────────

#[derive(Clone, Debug)]
struct Payload {
    out: Vec<u8>,
    err: Vec<u8>,
    code: i32,
}

fn printf_of(bs: &[u8]) -> String {
    let mut s = String::with_capacity(bs.len() * 4 + 10);
    s.push_str("printf '");
    for b in bs {
        s.push_str(&format!("\\x{:02x}", b));
    }
    s.push('\'');
    s
}

fn payload_expr(p: &Payload) -> String {
    let mut parts = vec![];
    if !p.out.is_empty() {
        parts.push(printf_of(&p.out));
    }
    if !p.err.is_empty() {
        parts.push(format!("{} >&2", printf_of(&p.err)));
    }
    parts.push(format!("exit {}", p.code));
    format!("( {} )", parts.join("; "))
}

fn run_real(mode: &str, tcs: &[TestCase], dir: &Path) -> Result<Result<Vec<Output>, ExecutionError>, String> {
    let ctx = context(dir, None);
    let refs: Vec<&TestCase> = tcs.iter().collect();
    if mode == "p" {
        guarded(|| StatefulExecutor::new(BashRunner::stateful_generator(Path::new(BASH))).execute_all(&refs, &ctx))
    } else {
        guarded(|| BashScriptExecutor::new(Path::new(BASH)).execute_all(&refs, &ctx))
    }
}

/// direct oracle: what was recorded against what the payload programs were told to write
fn judge(mode: &str, combined: bool, keep: Option<bool>, skip: i32, ps: &[Payload], res: &Result<Result<Vec<Output>, ExecutionError>, String>, fails: &mut Vec<(String, String)>) {
    let exp = |b: &[u8]| if keep == Some(true) { b.to_vec() } else { crlf_spec(b) };
    let lookalike = mode == "s" && ps.iter().any(|p| find(&p.out, PREFIX).is_some() || find(&p.err, PREFIX).is_some());
    let class = |c: &str| if lookalike { "C13:divider-lookalike".to_string() } else { c.to_string() };
    let first_skip = ps.iter().position(|p| p.code == skip);
    match res {
        Err(e) => fails.push(("C13:crash".into(), format!("execute_all panicked: {e}"))),
        Ok(Err(ExecutionError::Skipped(i))) => {
            if first_skip != Some(*i) {
                fails.push((class("C13:exit-code"), format!("reported skipped at {i}, but the first test ending with the skip code is {first_skip:?}")));
            }
        }
        Ok(Err(e)) => fails.push((class("C13:stdout-bytes"), format!("no outputs recorded: {}", e.to_string().chars().take(120).collect::<String>()))),
        Ok(Ok(outs)) => {
            if first_skip.is_some() {
                fails.push((class("C13:exit-code"), "a test ended with the skip code but the document was not skipped".into()));
                return;
            }
            if outs.len() != ps.len() {
                fails.push((class("C13:stdout-bytes"), format!("{} outputs for {} tests", outs.len(), ps.len())));
                return;
            }
            for (i, (o, p)) in outs.iter().zip(ps).enumerate() {
                let so: Vec<u8> = (&o.stdout).into();
                let se: Vec<u8> = (&o.stderr).into();
                let (wo, we) = if combined { (exp(&[p.out.clone(), p.err.clone()].concat()), vec![]) } else { (exp(&p.out), exp(&p.err)) };
                if so != wo {
                    fails.push((class("C13:stdout-bytes"), format!("test {i}: recorded stdout ({} bytes) differs from what was written ({} bytes)", so.len(), wo.len())));
                }
                if se != we {
                    fails.push((class("C13:stderr-bytes"), format!("test {i}: recorded stderr ({} bytes) differs from what was written ({} bytes)", se.len(), we.len())));
                }
                if o.exit_code != ExitStatus::Code(p.code) {
                    fails.push((class("C13:exit-code"), format!("test {i}: exit code {:?}, command exited with {}", o.exit_code, p.code)));
                }
            }
        }
    }
}

fn parse_payloads(s: &str) -> Vec<Payload> {
    if s == "_" {
        return vec![];
    }
    s.split(',')
        .map(|t| {
            let f: Vec<&str> = t.split(':').collect();
            Payload { out: unhex(f[0]), err: unhex(f[1]), code: f[2].parse().unwrap() }
        })
        .collect()
}

fn eval_bash(op: &str, f: &[&str]) -> CaseRec {
    let mode = f[1];
    let combined = f[2] == "1";
    let keep = ob(f[3]);
    let skip: i32 = f[4].parse().unwrap();
    let ps = parse_payloads(f[5]);
    let dir = case_dir();
    let tcs: Vec<TestCase> = ps.iter().map(|p| testcase(&payload_expr(p), script_config(combined, keep, skip))).collect();
    let res = run_real(mode, &tcs, dir.path());
    let mut fails = vec![];
    judge(mode, combined, keep, skip, &ps, &res, &mut fails);
    let out = show_result(&res);
    let kind = out.split(' ').next().unwrap_or("").to_string();
    let all: Vec<u8> = ps.iter().flat_map(|p| [p.out.clone(), p.err.clone()].concat()).collect();
    let mut tags = vec![format!("bash:mode={mode},combined={combined},keep={keep:?}"), format!("bash:{kind}"), format!("bash:tests={}", ps.len())];
    if find(&all, PREFIX).is_some() {
        tags.push("bash:divider-lookalike".into());
    }
    if all.contains(&0) {
        tags.push("bash:nul".into());
    }
    if ps.iter().any(|p| p.out.last().map_or(false, |b| *b != b'\n')) {
        tags.push("bash:unterminated".into());
    }
    if find(&all, b"\r\n").is_some() {
        tags.push("bash:crlf".into());
    }
    CaseRec { op: op.to_string(), impl_out: out, oracle_fail: fails, nontrivial: ps.len() >= 1 && !all.is_empty(), tags }
}

/// `unmodelled big <mode> <combined> <keep> <kib> <crlf_pairs> <seed>`
fn eval_big(op: &str, f: &[&str]) -> CaseRec {
    let mode = f[2];
    let combined = f[3] == "1";
    let keep = ob(f[4]);
    let kib: usize = f[5].parse().unwrap();
    let pairs: usize = f[6].parse().unwrap();
    let seed: u64 = f[7].parse().unwrap();
    let gen = |stream: u64| -> Vec<u8> {
        let mut r = Rng::fork(seed, 77, stream);
        let mut v = Vec::with_capacity(kib * 1024 + pairs * 3);
        // printable noise with short lines (no divider prefix can arise: no '~')
        while v.len() < kib * 1024 {
            let x = r.next();
            for k in 0..8 {
                let b = ((x >> (8 * k)) & 0xff) as u8;
                v.push(if b == b'~' { b'-' } else { b });
            }
        }
        for i in 0..pairs {
            v.push(b'a' + (i % 26) as u8);
            v.extend_from_slice(b"\r\n");
        }
        v
    };
    let (o, e) = (gen(1), gen(2));
    let dir = case_dir();
    std::fs::write(dir.path().join("b1"), &o).unwrap();
    std::fs::write(dir.path().join("b2"), &e).unwrap();
    // both streams at once (sequentially when they are merged, to keep the order defined)
    let expr = if combined { "( cat b1; cat b2 >&2; exit 7 )".to_string() } else { "( cat b1 & cat b2 >&2; wait; exit 7 )".to_string() };
    let ps = vec![Payload { out: o, err: e, code: 7 }, Payload { out: b"tail\n".to_vec(), err: vec![], code: 0 }];
    let tcs = vec![testcase(&expr, script_config(combined, keep, 80)), testcase("echo tail", script_config(combined, keep, 80))];
    let res = run_real(mode, &tcs, dir.path());
    let mut fails = vec![];
    judge(mode, combined, keep, 80, &ps, &res, &mut fails);
    CaseRec { op: op.to_string(), impl_out: "unmodelled".into(), oracle_fail: fails, nontrivial: true, tags: vec![format!("big:mode={mode},kib={kib},crlf-pairs={pairs}")] }
}

/// reference: remove ANSI escape sequences (ECMA-48: CSI `ESC [ P* I* F`, OSC `ESC ] … BEL | ESC \`, other
/// escape sequences `ESC I* F`; DCS/SOS/PM/APC strings like OSC), keep every other byte
fn ref_strip_ansi(bs: &[u8]) -> Vec<u8> {
    let mut out = vec![];
    let mut i = 0;
    while i < bs.len() {
        if bs[i] != 0x1b {
            out.push(bs[i]);
            i += 1;
            continue;
        }
        i += 1;
        match bs.get(i) {
            Some(b'[') => {
                i += 1;
                while i < bs.len() && (0x30..=0x3f).contains(&bs[i]) {
                    i += 1;
                }
                while i < bs.len() && (0x20..=0x2f).contains(&bs[i]) {
                    i += 1;
                }
                if i < bs.len() && (0x40..=0x7e).contains(&bs[i]) {
                    i += 1;
                }
            }
            // command strings: OSC `]`, DCS `P`, SOS `X`, PM `^`, APC `_`, each up to BEL or ST
            Some(b']' | b'P' | b'X' | b'^' | b'_') => {
                i += 1;
                while i < bs.len() {
                    if bs[i] == 0x07 {
                        i += 1;
                        break;
                    }
                    if bs[i] == 0x1b && bs.get(i + 1) == Some(&b'\\') {
                        i += 2;
                        break;
                    }
                    i += 1;
                }
            }
            Some(_) => {
                while i < bs.len() && (0x20..=0x2f).contains(&bs[i]) {
                    i += 1;
                }
                if i < bs.len() && (0x30..=0x7e).contains(&bs[i]) {
                    i += 1;
                }
            }
            None => {}
        }
    }
    out
}

/// `unmodelled strip <mode> <strip> <out>`
fn eval_strip(op: &str, f: &[&str]) -> CaseRec {
    let mode = f[2];
    let strip = ob(f[3]);
    let out = unhex(f[4]);
    let dir = case_dir();
    let p = Payload { out: out.clone(), err: vec![], code: 0 };
    let cfg = TestCaseConfig { strip_ansi_escaping: strip, ..TestCaseConfig::empty() };
    let tcs = vec![testcase(&payload_expr(&p), cfg)];
    let res = run_real(mode, &tcs, dir.path());
    let mut fails = vec![];
    let plain = out.iter().all(|b| *b == b'\n' || (0x20..0x7f).contains(b));
    // script mode strips too since the fix `set_consistent!(strip_ansi_escaping)` (the setting is carried into the
    // compiled test case; these payloads hold complete sequences only, so the divider lines are not touched)
    if strip != Some(true) || plain {
        judge(mode, false, None, 80, &[p], &res, &mut fails);
    } else if let Ok(Ok(outs)) = &res {
        let so: Vec<u8> = (&outs[0].stdout).into();
        if so.contains(&0x1b) {
            fails.push(("C13:stdout-bytes".into(), "strip_ansi_escaping set but ESC recorded".into()));
        }
        // "ANSI escape sequences are removed", nothing else (after CR LF -> LF, keep_crlf is unset here)
        let want = ref_strip_ansi(&scrut::newline::replace_crlf(&out));
        if so != want {
            let drop_ctl = |v: &[u8]| v.iter().cloned().filter(|b| *b == b'\n' || *b >= 0x20).collect::<Vec<u8>>();
            if so == drop_ctl(&want) {
                fails.push(("C13:strip-ansi-drops-control-characters".into(), format!("strip_ansi_escaping: wrote {}, recorded {} (escape sequences AND the control characters TAB/CR/BEL/.. are gone)", hex(&out), hex(&so))));
            } else {
                fails.push(("C13:strip-ansi-bytes".into(), format!("strip_ansi_escaping: wrote {}, recorded {}, expected {}", hex(&out), hex(&so), hex(&want))));
            }
        }
    } else {
        fails.push(("C13:crash".into(), "no output".into()));
    }
    CaseRec { op: op.to_string(), impl_out: "unmodelled".into(), oracle_fail: fails, nontrivial: out.contains(&0x1b), tags: vec![format!("strip:mode={mode},strip={strip:?}")] }
}

// ───────────────────────────── dispatch ─────────────────────────────

/// `unmodelled shellopt <mode> <hex option command>`: a test case switches a shell option on that makes bash itself
/// write to stderr (`set -x`, `set -v`); what is recorded for it and for the next test case must be what ONE bash
/// session writes for the same commands, nothing of scrut's own wrapper
fn eval_shellopt(op: &str, f: &[&str]) -> CaseRec {
    let mode = f[2];
    let opt = String::from_utf8_lossy(&unhex(f[3])).to_string();
    let exprs = [format!("{opt}; echo hi"), "echo second".to_string()];
    let dir = case_dir();
    let tcs: Vec<TestCase> = exprs.iter().map(|e| testcase(e, script_config(false, None, 80))).collect();
    let res = run_real(mode, &tcs, dir.path());
    // reference: one session, each command's stderr into its own file
    let refdir = case_dir();
    let script = format!("{{ {}\n}} 2>{d}/e0\n{{ {}\n}} 2>{d}/e1\n", exprs[0], exprs[1], d = refdir.path().display());
    let _ = std::process::Command::new(BASH).arg("-c").arg(&script).current_dir(refdir.path()).stdout(std::process::Stdio::null()).stderr(std::process::Stdio::null()).status();
    let want: Vec<Vec<u8>> = (0..2).map(|i| std::fs::read(refdir.path().join(format!("e{i}"))).unwrap_or_default()).collect();
    let mut fails = vec![];
    let class = if mode == "p" { "C13:shell-trace-of-scrut-wrapper" } else { "C13:shell-trace-breaks-script-dividers" };
    match &res {
        Ok(Ok(outs)) if outs.len() == 2 => {
            for i in 0..2 {
                let se: Vec<u8> = (&outs[i].stderr).into();
                if se != want[i] {
                    fails.push((class.to_string(), format!("after `{opt}`: test {i} has {} bytes on stderr ({:?}…), one session writes {:?}", se.len(), String::from_utf8_lossy(&se).chars().take(160).collect::<String>(), String::from_utf8_lossy(&want[i]))));
                }
                let so: Vec<u8> = (&outs[i].stdout).into();
                if so != [b"hi\n".to_vec(), b"second\n".to_vec()][i] {
                    fails.push(("C13:stdout-bytes".to_string(), format!("after `{opt}`: test {i} recorded stdout {:?}", String::from_utf8_lossy(&so))));
                }
            }
        }
        other => fails.push((class.to_string(), format!("after `{opt}`: {}", show_result(other).chars().take(200).collect::<String>()))),
    }
    CaseRec { op: op.to_string(), impl_out: "unmodelled".into(), oracle_fail: fails, nontrivial: true, tags: vec![format!("shellopt:mode={mode}"), format!("shellopt:{opt}")] }
}

/// `unmodelled ifs <mode> <hex expression>`: the test case changes `IFS` (or another piece of shell state that steers
/// word splitting) and ends with a given status; the recorded exit code, stdout and stderr of it and of the NEXT test
/// case (which inherits the state) must be what ONE plain bash session gives for the same commands -- scrut's own
/// wrapper must not let the user's `IFS` split the exit code it passes on (`exit $code` unquoted: `IFS=0; (exit 10)`
/// was recorded as 1, `IFS=0; true` as 2 with a line of bash on stderr)
fn eval_ifs(op: &str, f: &[&str]) -> CaseRec {
    let mode = f[2];
    let expr = String::from_utf8_lossy(&unhex(f[3])).to_string();
    let exprs = [expr.clone(), "echo next; (exit 4)".to_string()];
    let dir = case_dir();
    let tcs: Vec<TestCase> = exprs.iter().map(|e| testcase(e, script_config(false, None, 80))).collect();
    let res = run_real(mode, &tcs, dir.path());
    // reference: one session, each command's streams into files of their own, the status expanded inside quotes
    let refdir = case_dir();
    let mut script = String::new();
    for (i, e) in exprs.iter().enumerate() {
        script.push_str(&format!("{{ {e}\n}} >{d}/o{i} 2>{d}/e{i}\nbuiltin echo \"$?\" >{d}/c{i}\n", d = refdir.path().display()));
    }
    let _ = std::process::Command::new(BASH).arg("-c").arg(&script).current_dir(refdir.path()).stdin(std::process::Stdio::null()).stdout(std::process::Stdio::null()).stderr(std::process::Stdio::null()).status();
    let rd = |n: String| std::fs::read(refdir.path().join(n)).unwrap_or_default();
    let mut fails = vec![];
    let touches_ifs = expr.contains("IFS");
    let code_class = if touches_ifs { "C13:exit-code-split-by-ifs" } else { "C13:exit-code" };
    match &res {
        Ok(Ok(outs)) if outs.len() == 2 => {
            for i in 0..2 {
                let want_code: Option<i32> = String::from_utf8_lossy(&rd(format!("c{i}"))).trim().parse().ok();
                let (wo, we) = (rd(format!("o{i}")), rd(format!("e{i}")));
                let so: Vec<u8> = (&outs[i].stdout).into();
                let se: Vec<u8> = (&outs[i].stderr).into();
                if want_code.is_none() {
                    fails.push(("C13:crash".to_string(), format!("`{expr}`: the reference session gave no status for test {i}")));
                } else if Some(outs[i].exit_code.clone()) != want_code.map(ExitStatus::Code) {
                    fails.push((code_class.to_string(), format!("test cases {exprs:?} (mode {mode}): test {i} recorded exit code {:?}, one bash session gives {}", outs[i].exit_code, want_code.unwrap())));
                }
                if so != wo {
                    fails.push(("C13:stdout-bytes".to_string(), format!("test cases {exprs:?} (mode {mode}): test {i} recorded stdout {:?}, one session writes {:?}", String::from_utf8_lossy(&so), String::from_utf8_lossy(&wo))));
                }
                if se != we {
                    fails.push((if touches_ifs { code_class.to_string() } else { "C13:stderr-bytes".to_string() }, format!("test cases {exprs:?} (mode {mode}): test {i} recorded stderr {:?}, one session writes {:?}", String::from_utf8_lossy(&se).chars().take(200).collect::<String>(), String::from_utf8_lossy(&we))));
                }
            }
        }
        other => fails.push((code_class.to_string(), format!("test cases {exprs:?} (mode {mode}): {}", show_result(other).chars().take(200).collect::<String>()))),
    }
    CaseRec { op: op.to_string(), impl_out: "unmodelled".into(), oracle_fail: fails, nontrivial: true, tags: vec![format!("ifs:mode={mode}"), format!("ifs:{expr}")] }
}

fn eval_op(env: &Env, op: &str) -> CaseRec {
    let f: Vec<&str> = op.split(' ').collect();
    let r = std::panic::catch_unwind(std::panic::AssertUnwindSafe(|| match (f[0], f.len()) {
        ("replace", 4) => eval_replace(op, &f),
        ("render", 7) => eval_render(env, op, &f),
        ("crlf", 2) => eval_crlf(op, &f),
        ("rout", 4) => eval_rout(op, &f),
        ("strip", 2) => eval_stripfn(op, &f),
        ("execall", 8) => eval_execall(env, op, &f),
        ("rmdiv", 2) => eval_rmdiv(env, op, &f),
        ("compile", 5) => eval_compile(env, op, &f),
        ("bash", 6) => eval_bash(op, &f),
        ("unmodelled", 8) if f[1] == "big" => eval_big(op, &f),
        ("unmodelled", 5) if f[1] == "strip" => eval_strip(op, &f),
        ("unmodelled", 4) if f[1] == "shellopt" => eval_shellopt(op, &f),
        ("unmodelled", 4) if f[1] == "ifs" => eval_ifs(op, &f),
        _ => bad(op),
    }));
    r.unwrap_or_else(|_| bad(op))
}

pub fn replay(_prop: &str, op: &str) -> bool {
    let env = Env::prepare();
    let c = eval_op(&env, op);
    println!("impl: {}", if c.impl_out.len() > 600 { format!("{}…", &c.impl_out[..600]) } else { c.impl_out.clone() });
    for (cl, d) in &c.oracle_fail {
        println!("oracle-failure {cl}: {d}");
    }
    c.oracle_fail.is_empty()
}

// ───────────────────────────── generators ─────────────────────────────

fn all_seqs<T: Clone>(alpha: &[T], max_len: usize) -> Vec<Vec<T>> {
    let mut out: Vec<Vec<T>> = vec![vec![]];
    let mut last: Vec<Vec<T>> = vec![vec![]];
    for _ in 0..max_len {
        let mut next = vec![];
        for s in &last {
            for a in alpha {
                let mut t = s.clone();
                t.push(a.clone());
                next.push(t);
            }
        }
        out.extend(next.iter().cloned());
        last = next;
    }
    out
}

fn list_field(items: &[String]) -> String {
    if items.is_empty() {
        "_".to_string()
    } else {
        items.join(",")
    }
}

fn divider(salt: &str, idx: &str, code: &str) -> Vec<u8> {
    format!("~~~~~~~~EXECDIVIDER::{salt}::{idx}::{code}\n").into_bytes()
}

/// a stream as bash could (or could not) have produced it
fn gen_stream(r: &mut Rng, n: usize, wild: bool) -> Vec<u8> {
    let chunks: [&[u8]; 12] = [b"a", b"\n", b"b\n", b"~", b"::", b"\r\n", b"\xff", b"0", b"~~~~~~~~", b"EXECDIVIDER::", b"x y", b"\n\n"];
    let mut v = vec![];
    let count = if wild { r.range(0, n + 2) } else { n };
    for i in 0..count {
        for _ in 0..r.range(0, 3) {
            let c: &[u8] = *r.pick(&chunks[..]);
            v.extend_from_slice(c);
        }
        let idx = if wild && r.chance(1, 5) { r.pick(&["0", "1", "7", "+1", "-1", "", "01", "x", "18446744073709551615", "18446744073709551616"]).to_string() } else { i.to_string() };
        let code = if wild && r.chance(1, 4) {
            r.pick(&["", "+3", "-3", "-0", "256", "2147483647", "2147483648", "-2147483648", "-2147483649", "1x", "\u{e9}", "0::0", "80", "7"]).to_string()
        } else {
            r.pick(&["0", "1", "2", "80", "7", "255", "127"]).to_string()
        };
        let salt = if wild && r.chance(1, 6) { r.pick(&["", ":", "a:b", "S::T", "~~~~~~~~EXECDIVIDER", "X", "SALTsalt0123456789a", "SALTsalt0123456789abc"]).to_string() } else { GEN_SALT.to_string() };
        let mut d = divider(&salt, &idx, &code);
        if wild && r.chance(1, 8) {
            d.pop(); // unterminated divider line
        }
        if wild && r.chance(1, 10) {
            d = format!("~~~~~~~~EXECDIVIDER::{salt}::{idx}\n").into_bytes(); // exit code part missing
        }
        if wild && r.chance(1, 12) {
            d = b"~~~~~~~~EXECDIVIDER::\n".to_vec();
        }
        if wild && r.chance(1, 10) {
            d.extend_from_slice(b"\n"); // extra empty line
        }
        if wild && r.chance(1, 8) {
            // a foreign divider start in front of the real one, on the same line
            v.extend_from_slice(*r.pick(&[&b"~~~~~~~~EXECDIVIDER::X::0::0 "[..], &b"~~~~~~~~EXECDIVIDER::"[..], &b"~~~~~~~~EXECDIVIDER::SALT::"[..]]));
        }
        v.extend_from_slice(&d);
    }
    if wild && r.chance(1, 4) {
        v.extend_from_slice(b"trailing");
    }
    v
}

fn payload_menu() -> Vec<Vec<u8>> {
    let mut m: Vec<Vec<u8>> = vec![
        b"".to_vec(),
        b"a\n".to_vec(),
        b"abc".to_vec(),
        b"l1\nl2\nl3".to_vec(),
        b"\n".to_vec(),
        b"\n\n".to_vec(),
        b"a\0b\n\0".to_vec(),
        b"a\r\nb\r\r\nc\r".to_vec(),
        b"\r".to_vec(),
        b"\r\n".to_vec(),
        b"x\x1b[1mbold\x1b[0m\n".to_vec(),
        b"\xff\xfe\x80\n".to_vec(),
        "h\u{e9}llo \u{1f980}\n".as_bytes().to_vec(),
        b"$? $0 `id` \"q\" 'q' \\ %s %d\n".to_vec(),
        b"~~~~~~~~\n".to_vec(),
        b"~~~~".to_vec(),
        b"~~~~~~~~EXECDIVIDE\n".to_vec(),
    ];
    for p in PLACEHOLDERS {
        m.push(format!("{p}\n").into_bytes());
    }
    m.push((0u8..=255).collect());
    m
}

fn lookalike_menu() -> Vec<Vec<u8>> {
    vec![
        b"~~~~~~~~EXECDIVIDER::X::0::0\n".to_vec(),
        b"~~~~~~~~EXECDIVIDER::X::1::0\n".to_vec(),
        b"see ~~~~~~~~EXECDIVIDER:: in the middle\n".to_vec(),
        b"~~~~~~~~EXECDIVIDER::".to_vec(),
        b"~~~~~~~~EXECDIVIDER::X::5::9\nmore\n".to_vec(),
    ]
}

/// `Ctx::run_stream` hands out chunks of at least 200 cases per thread; streams of a few hundred
/// process-spawning cases are evaluated here on all threads first and then handed over.
fn par_stream<F>(ctx: &Ctx, stream: &str, total: u64, exhaustive: bool, make: F)
where
    F: Fn(u64) -> Option<CaseRec> + Sync,
{
    let slots: Vec<std::sync::Mutex<Option<CaseRec>>> = (0..total).map(|_| std::sync::Mutex::new(None)).collect();
    let next = std::sync::atomic::AtomicU64::new(0);
    let t0 = std::time::Instant::now();
    let nthreads = std::env::var("C13_THREADS").ok().and_then(|v| v.parse().ok()).unwrap_or(ctx.threads).max(1);
    std::thread::scope(|s| {
        for _ in 0..nthreads {
            s.spawn(|| loop {
                let i = next.fetch_add(1, std::sync::atomic::Ordering::SeqCst);
                if i >= total {
                    break;
                }
                let r = std::panic::catch_unwind(std::panic::AssertUnwindSafe(|| make(i))).unwrap_or_else(|_| Some(bad(&format!("harness-panic {stream} {i}"))));
                *slots[i as usize].lock().unwrap() = r;
            });
        }
    });
    eprintln!("[harness] stream {stream}: real processes for {total} cases took {:.1}s", t0.elapsed().as_secs_f64());
    ctx.run_stream(stream, total, exhaustive, |idx| slots[idx as usize].lock().unwrap().take());
}

pub fn run(ctx: &Ctx, prop: &str) {
    let env = Env::prepare();
    let seed = ctx.seed;
    let thorough = ctx.thorough;
    ctx.note(format!("template: {} bytes read from {}", env.template.len(), repo_dir().join("src/executors/bash_runner.template").display()));
    let _ = prop;

    // 1. str::replace vs replaceAll: exhaustive over {a,b}
    {
        let pats: Vec<String> = all_seqs(&['a', 'b'], 2).into_iter().map(|v| v.into_iter().collect()).collect();
        let reps = ["", "a", "b", "ba", "aa"];
        let subjects: Vec<String> = all_seqs(&['a', 'b'], if thorough { 8 } else { 6 }).into_iter().map(|v| v.into_iter().collect()).collect();
        let total = (pats.len() * reps.len() * subjects.len()) as u64;
        ctx.run_stream("replace-exhaustive", total, true, |idx| {
            let i = idx as usize;
            let s = &subjects[i % subjects.len()];
            let r = reps[(i / subjects.len()) % reps.len()];
            let p = &pats[i / subjects.len() / reps.len()];
            Some(eval_op(&env, &format!("replace {} {} {}", thex(p), thex(r), thex(s))))
        });
        let toks = ["{", "}", "name", "{name}", "{na", "me}", "\u{e9}", "x", "{{name}}", "\n"];
        ctx.run_stream("replace-random", if thorough { 20000 } else { 3000 }, false, |idx| {
            let mut r = Rng::fork(seed, 1, idx);
            let mk = |r: &mut Rng, n: usize| -> String { (0..n).map(|_| *r.pick(&toks)).collect() };
            let pn = r.range(0, 2);
            let p = mk(&mut r, pn);
            let rn = r.range(0, 2);
            let rep = mk(&mut r, rn);
            let sn = r.range(0, 8);
            let s = mk(&mut r, sn);
            Some(eval_op(&env, &format!("replace {} {} {}", thex(&p), thex(&rep), thex(&s))))
        });
    }

    // 2. the rendered template through /bin/cat
    {
        let mut toks: Vec<String> = PLACEHOLDERS.iter().map(|s| s.to_string()).collect();
        for t in ["{", "}", "x", "\n", "shell_expression", "\u{e9}", "$?", "~~~~~~~~EXECDIVIDER::", "\r\n"] {
            toks.push(t.to_string());
        }
        let exprs: Vec<String> = all_seqs(&toks, if thorough { 3 } else { 2 }).into_iter().map(|v| v.concat()).collect();
        par_stream(ctx, "render-exhaustive", exprs.len() as u64, true, |idx| {
            let e = &exprs[idx as usize];
            Some(eval_op(&env, &format!("render - {} {} - 0 {}", thex("/tmp/state dir/.state.x"), thex("exec1"), thex(e))))
        });
        let values = ["exec1", "/tmp/s", "", "{name}", "{shell_expression}", "a{persist_state}b", "{excluded_variables}", "{state_directory}", "{shell_", "expression}", "\u{e9} x"];
        par_stream(ctx, "render-random", if thorough { 6000 } else { 400 }, false, |idx| {
            let mut r = Rng::fork(seed, 2, idx);
            let n = r.range(0, 5);
            let e: String = (0..n).map(|_| r.pick(&toks).clone()).collect();
            let (sd, name) = if r.chance(1, 2) { ("/tmp/sd".to_string(), format!("exec{}", r.range(1, 99))) } else { (r.pick(&values).to_string(), r.pick(&values).to_string()) };
            let det = r.chance(1, 12);
            Some(eval_op(&env, &format!("render - {} {} - {} {}", thex(&sd), thex(&name), det as u8, thex(&e))))
        });
    }

    // 3. replace_crlf
    {
        let seqs = all_seqs(&[b'\r', b'\n', b'a'], if thorough { 10 } else { 8 });
        ctx.run_stream("crlf-exhaustive", seqs.len() as u64, true, |idx| Some(eval_op(&env, &format!("crlf {}", hex(&seqs[idx as usize])))));
        ctx.run_stream("crlf-random", if thorough { 20000 } else { 3000 }, false, |idx| {
            let mut r = Rng::fork(seed, 3, idx);
            let n = r.range(0, 60);
            let bs: Vec<u8> = (0..n).map(|_| if r.chance(1, 2) { *r.pick(&[b'\r', b'\n']) } else { r.below(256) as u8 }).collect();
            Some(eval_op(&env, &format!("crlf {}", hex(&bs))))
        });
        // the stripper: every byte string up to length 4 (thorough: 5) over the bytes that steer its state machine
        let alpha = [0x1bu8, b'[', b']', b'P', b'0', b';', b' ', b'm', b'\\', 0x07, b'\t', b'x', 0xff, b'\n'];
        let seqs = all_seqs(&alpha, if thorough { 5 } else { 4 });
        ctx.run_stream("strip-exhaustive", seqs.len() as u64, true, |idx| Some(eval_op(&env, &format!("strip {}", hex(&seqs[idx as usize])))));
        ctx.run_stream("strip-random", if thorough { 50000 } else { 5000 }, false, |idx| {
            let mut r = Rng::fork(seed, 33, idx);
            let n = r.range(0, 40);
            let bs: Vec<u8> = (0..n).map(|_| match r.below(4) { 0 => *r.pick(&alpha), 1 => 0x1b, _ => r.below(256) as u8 }).collect();
            Some(eval_op(&env, &format!("strip {}", hex(&bs))))
        });
        let inputs: Vec<Vec<u8>> = payload_menu();
        let flags = ["-", "0", "1"];
        ctx.run_stream("render-output", (inputs.len() * 9) as u64, true, |idx| {
            let i = idx as usize;
            Some(eval_op(&env, &format!("rout {} {} {}", flags[i % 3], flags[(i / 3) % 3], hex(&inputs[i / 9]))))
        });
    }

    // 4. the divider parser through a replay shell
    {
        par_stream(ctx, "execall-replay", if thorough { 12000 } else { 1000 }, false, |idx| {
            let mut r = Rng::fork(seed, 4, idx);
            let n = r.range(0, 3);
            let combined = r.chance(1, 3);
            let wild = r.chance(2, 3);
            let so = gen_stream(&mut r, n, wild);
            let wild_err = wild && r.chance(1, 2);
            // merged streams arrive on STDOUT only
            let se = if combined || r.chance(1, 5) { vec![] } else { gen_stream(&mut r, n, wild_err) };
            // the skip code is a setting of the test cases: without test cases it is the default
            let skip = if n == 0 { 80 } else { *r.pick(&[80, 80, 7]) };
            let script_exit = *r.pick(&[0, 0, 0, 3, 80, 7]);
            // keep_crlf is a setting of the test cases too: without test cases CR LF pairs are replaced before the
            // streams reach the divider parser (the op holds the streams as the parser sees them)
            let (so, se) = if n == 0 { (crlf_spec(&so), crlf_spec(&se)) } else { (so, se) };
            Some(eval_op(&env, &format!("execall {n} {} {skip} {script_exit} {} {} {}", combined as u8, thex(GEN_SALT), hex(&so), hex(&se))))
        });
        par_stream(ctx, "rmdiv-timeout", if thorough { 120 } else { 24 }, false, |idx| {
            let mut r = Rng::fork(seed, 5, idx);
            let so = gen_stream(&mut r, 2, true);
            Some(eval_op(&env, &format!("rmdiv {}", hex(&so))))
        });
    }

    // 5. the compiled script through a capture shell
    {
        let mut toks: Vec<String> = vec!["echo a".into(), "\n".into(), "".into(), "$?".into(), "~~~~~~~~EXECDIVIDER::X::0::0".into(), "echo \"q\" 'r'".into(), " ".into(), "\u{e9}".into(), "exit 3".into(),
            // expressions that bash continues over the footer
            " |".into(), " |&".into(), " &&".into(), " ||".into(), " \\".into(), "echo 'open".into(), "__SCRUT_EXIT_CODE=9".into()];
        toks.extend(PLACEHOLDERS.iter().map(|s| s.to_string()));
        par_stream(ctx, "compile-capture", if thorough { 3000 } else { 200 }, false, |idx| {
            let mut r = Rng::fork(seed, 6, idx);
            let n = r.range(0, 4);
            let exprs: Vec<String> = (0..n)
                .map(|_| {
                    let k = r.range(0, 3);
                    thex(&(0..k).map(|_| r.pick(&toks).clone()).collect::<String>())
                })
                .collect();
            let ne = r.range(0, 2);
            let exports: Vec<String> = (0..ne).map(|i| thex(&format!("export K{}=v{}", i, r.range(0, 9)))).collect();
            Some(eval_op(&env, &format!("compile {} - {} {}", r.chance(1, 3) as u8, list_field(&exports), list_field(&exprs))))
        });
    }

    // 6. real bash, both executors
    {
        let menu = payload_menu();
        let look = lookalike_menu();
        let keeps = ["-", "0", "1"];
        // every menu entry alone on stdout and on stderr, both modes, exit codes cycling through 0..255
        let singles = menu.len() * 2 * 2;
        par_stream(ctx, "bash-menu", singles as u64, true, |idx| {
            let i = idx as usize;
            let p = &menu[i % menu.len()];
            let on_err = (i / menu.len()) % 2 == 1;
            let mode = if i / menu.len() / 2 == 0 { "p" } else { "s" };
            let code = (i * 37 + 1) % 256;
            let code = if code == 80 { 81 } else { code };
            let t = if on_err { format!("-:{}:{code}", hex(p)) } else { format!("{}:-:{code}", hex(p)) };
            Some(eval_op(&env, &format!("bash {mode} 0 - 80 {t}")))
        });
        // all exit codes
        let codes: Vec<usize> = if thorough { (0..256).collect() } else { (0..256).step_by(17).chain([1, 2, 79, 80, 81, 126, 127, 128, 254].into_iter()).collect() };
        par_stream(ctx, "bash-exit-codes", (codes.len() * 2) as u64, thorough, |idx| {
            let i = idx as usize;
            let mode = if i % 2 == 0 { "p" } else { "s" };
            let c = codes[i / 2];
            Some(eval_op(&env, &format!("bash {mode} 0 - 80 6f0a:65:{c},{}:-:0", hex(b"next"))))
        });
        par_stream(ctx, "bash-sequences", if thorough { 2500 } else { 200 }, false, |idx| {
            let mut r = Rng::fork(seed, 7, idx);
            let mode = if r.chance(1, 2) { "p" } else { "s" };
            let combined = r.chance(1, 3);
            let keep = *r.pick(&keeps);
            let skip = if r.chance(1, 8) { 7 } else { 80 };
            let n = r.range(1, 4);
            let with_look = r.chance(1, 8);
            let tests: Vec<String> = (0..n)
                .map(|_| {
                    let pick = |r: &mut Rng| -> Vec<u8> {
                        if with_look && r.chance(1, 3) {
                            r.pick(&look).clone()
                        } else if r.chance(1, 5) {
                            let k = r.range(0, 40);
                            (0..k).map(|_| r.below(256) as u8).collect()
                        } else {
                            r.pick(&menu).clone()
                        }
                    };
                    let o = pick(&mut r);
                    let e = if r.chance(1, 2) { vec![] } else { pick(&mut r) };
                    let code = if r.chance(1, 2) { 0 } else if r.chance(1, 12) { skip as u64 } else { r.below(256) };
                    let code = if code == 80 && skip != 80 { 81 } else { code };
                    format!("{}:{}:{}", hex(&o), hex(&e), code)
                })
                .collect();
            Some(eval_op(&env, &format!("bash {mode} {} {keep} {skip} {}", combined as u8, tests.join(","))))
        });
        // divider look-alikes, deliberately
        par_stream(ctx, "bash-lookalike", (look.len() * 2) as u64, true, |idx| {
            let i = idx as usize;
            let mode = if i % 2 == 0 { "p" } else { "s" };
            Some(eval_op(&env, &format!("bash {mode} 0 - 80 {}:-:0,{}:-:3", hex(&look[i / 2]), hex(b"second\n"))))
        });
        // megabytes on both streams at once
        let mut bigs = vec![];
        for mode in ["p", "s"] {
            if thorough {
                bigs.push(format!("unmodelled big {mode} 0 - 4096 1000000 {seed}"));
                bigs.push(format!("unmodelled big {mode} 0 1 4096 1000000 {seed}"));
                bigs.push(format!("unmodelled big {mode} 1 - 4096 1000000 {seed}"));
            } else {
                bigs.push(format!("unmodelled big {mode} 0 - 1024 20000 {seed}"));
                bigs.push(format!("unmodelled big {mode} 1 1 1024 20000 {seed}"));
            }
        }
        par_stream(ctx, "bash-big", bigs.len() as u64, false, |idx| Some(eval_op(&env, &bigs[idx as usize])));
        // shell options that make bash itself write to stderr; control: an option that does not
        let sopts = ["set -x", "set -v", "set -u"];
        par_stream(ctx, "bash-shell-trace-exhaustive", (sopts.len() * 2) as u64, true, |idx| {
            let i = idx as usize;
            Some(eval_op(&env, &format!("unmodelled shellopt {} {}", if i % 2 == 0 { "p" } else { "s" }, hex(sopts[i / 2].as_bytes()))))
        });
        // the user's IFS (and friends) must not reach the exit code scrut's wrapper passes on; controls without IFS
        let ifs = ["IFS=0; (exit 10)", "IFS=0; true", "IFS=1; (exit 10)", "IFS=$'\\n'; (exit 3)", "IFS=0; (exit 100)", "IFS=5; (exit 255)", "IFS=; (exit 12)", "IFS=01234; echo out; echo err >&2; (exit 203)", "IFS=0; false", "unset IFS; (exit 10)", "(exit 10)", "set -f; IFS=1; (exit 111)"];
        par_stream(ctx, "bash-exit-code-vs-ifs-exhaustive", (ifs.len() * 2) as u64, true, |idx| {
            let i = idx as usize;
            Some(eval_op(&env, &format!("unmodelled ifs {} {}", if i % 2 == 0 { "p" } else { "s" }, hex(ifs[i / 2].as_bytes()))))
        });
        let ansi: Vec<Vec<u8>> = vec![
            b"x\x1b[1mbold\x1b[0m\n".to_vec(),
            b"plain text\n".to_vec(),
            b"\x1b[31mred\x1b[m and \x1b]0;title\x07done\n".to_vec(),
            // control characters that are no escape sequences must survive the stripping
            b"col1\tcol2\n".to_vec(),
            b"\x1b[1mE\x1b[0m\ttab\n".to_vec(),
            b"progress\rdone\n".to_vec(),
            "pl\u{e4}in \u{2713}\x1b[0m\n".as_bytes().to_vec(),
        ];
        par_stream(ctx, "bash-strip-ansi", (ansi.len() * 6) as u64, true, |idx| {
            let i = idx as usize;
            let mode = if i % 2 == 0 { "p" } else { "s" };
            let strip = ["-", "0", "1"][(i / 2) % 3];
            Some(eval_op(&env, &format!("unmodelled strip {mode} {strip} {}", hex(&ansi[i / 6]))))
        });
    }

    // 7. malformed ops: the driver must reject them
    {
        let ops = ["render 0 0", "crlf zz", "execall x 0 80 0 - - -", "bash q 0 - 80 _", "replace 61", "rout 2 0 -", "compile 0 - _", "bash s 0 - 80 61:62"];
        ctx.run_stream("malformed", ops.len() as u64, true, |idx| Some(bad(ops[idx as usize])));
    }
}
