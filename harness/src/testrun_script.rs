//! C05 / C20 (and C07) end to end against the INTEGRATED model, single-script path: `scrut test -r json doc.t` (Cram
//! documents, stream `e2e-testcram`, op `testcram`) and `scrut test --cram-compat -r json doc.md` (Markdown documents
//! read with the Cram expectation maker and the Cram defaults, stream `e2e-testdoc-cram-compat`, op `testdocc`) with
//! the real binary vs. `Model/TestRun.lean` section 6, which composes read_file, the Cram parser (indentation 2) resp.
//! the Markdown parser with `default_cram()`, the expectation grammar, the rules equal / no-eol / escaped / CRAM glob,
//! `compile_testcase` (consistent configuration, no per-test timeouts), the layout of the one script's output
//! (divider lines), `render_output` on the whole stream, the divider protocol (`Divider.iterate`), the decisions of
//! `BashScriptExecutor::execute_all` (`Exec.execScript`: script-level skip, per-divider skip, count check),
//! `validate`, result mapping and exit status.
//!
//! As in `testrun.rs` the commands have KNOWN output: `cat <abs>/pK.out; cat <abs>/pK.err >&2; (exit N)` (all of stdout
//! before stderr, so that the combined stream is known), or `…; exit N` for a command that LEAVES the shell.
use crate::common::*;
use crate::generate::keep;
use crate::testrun::{broken_block, build_body_from, drop_crlf, globbed, is_plain, own_lines_sel, payload, scrut_bin, short, tmproot, Broken, Expected, Mode, FILLERS};
use scrut::escaping::Escaper;
use std::path::Path;

const STREAM_CRAM: u64 = 73;
const STREAM_COMPAT: u64 = 74;
/// `e2e-testdoc-cram-compat-strip-ansi`: the same generator, focused on `strip_ansi_escaping`
const STREAM_COMPAT_STRIP: u64 = 75;

#[derive(Clone, Copy, PartialEq, Debug)]
pub(crate) enum Format {
    /// `doc.t`
    Cram,
    /// `doc.md` under `--cram-compat`
    Compat,
}

impl Format {
    fn op(self) -> &'static str {
        match self {
            Format::Cram => "testcram",
            Format::Compat => "testdocc",
        }
    }
    fn file(self) -> &'static str {
        match self {
            Format::Cram => "doc.t",
            Format::Compat => "doc.md",
        }
    }
    fn stream(self) -> u64 {
        match self {
            Format::Cram => STREAM_CRAM,
            Format::Compat => STREAM_COMPAT,
        }
    }
    fn command_line(self) -> &'static str {
        match self {
            Format::Cram => "scrut test -r json doc.t",
            Format::Compat => "scrut test --cram-compat -r json doc.md",
        }
    }
}

/// inline configuration of a block (Markdown under `--cram-compat` only; Cram has none)
#[derive(Clone, Copy, PartialEq, Debug)]
enum ICfg {
    None,
    // the Cram defaults written out: consistent with blocks that carry nothing
    KeepCrlf,
    Combined,
    Skip80,
    /// `set_consistent!(strip_ansi_escaping)`: on ONE block accepted only on the last one (or a single one); on all
    /// blocks (`DocCfg::AllStripAnsi`) the whole captured stream is stripped
    StripAnsi,
    /// `strip_ansi_escaping: false` (a value of its own for `set_consistent!`: differs from an unset key)
    NoStripAnsi,
    // these differ from the defaults: every block of the document has to carry them
    Stderr,
    Stdout,
    NoKeepCrlf,
    Skip3,
    /// per-test timeouts are refused by the single-script executor
    Timeout,
    /// `set_consistent!(detached)`: accepted only on the LAST block (or on all)
    DetachedFalse,
}

impl ICfg {
    fn text(self) -> &'static str {
        match self {
            ICfg::None => "",
            ICfg::KeepCrlf => " {keep_crlf: true}",
            ICfg::Combined => " {output_stream: combined}",
            ICfg::Skip80 => " {skip_document_code: 80}",
            ICfg::StripAnsi => " {strip_ansi_escaping: true}",
            ICfg::NoStripAnsi => " {strip_ansi_escaping: false}",
            ICfg::Stderr => " {output_stream: stderr}",
            ICfg::Stdout => " {output_stream: stdout}",
            ICfg::NoKeepCrlf => " {keep_crlf: false}",
            ICfg::Skip3 => " {skip_document_code: 3}",
            ICfg::Timeout => " {timeout: 5s}",
            ICfg::DetachedFalse => " {detached: false}",
        }
    }
}

/// the configuration of the document as a whole
#[derive(Clone, Copy, PartialEq, Debug)]
enum DocCfg {
    /// the Cram defaults (combined, CR LF kept, skip code 80), on some blocks written out
    Plain,
    AllStderr,
    AllStdout,
    AllNoKeepCrlf,
    AllSkip3,
    /// `strip_ansi_escaping: true` on every block: ANSI escape sequences are removed from what is compared
    AllStripAnsi,
    /// `Plain`, but ONE block carries something else (the others do not): refused unless the document is consistent
    /// by the rule of `set_consistent!` (single block; `detached: false` on the last block)
    Deviant,
}

impl DocCfg {
    fn skip_code(self) -> i32 {
        if self == DocCfg::AllSkip3 {
            3
        } else {
            80
        }
    }
}

#[derive(Clone, Copy, PartialEq, Debug)]
enum SMode {
    Base(Mode),
    /// every line of the compared bytes written as a Cram glob: `\*`, `\?`, `\\` for the literal characters (right),
    /// or the line as it is / with a wrong escape (what distinguishes the Cram glob from wildmatch)
    CramGlob,
}

struct STest {
    out: Vec<u8>,
    err: Vec<u8>,
    code: i32,
    /// `exit N` instead of `(exit N)`
    leaves: bool,
    icfg: ICfg,
    mode: SMode,
    expected: Expected,
    comment: bool,
    /// Cram: the exit code on a `> ` continuation line
    cont: bool,
    /// Cram: no blank line and no title in front of the `$ ` line (directly below the body of the test before)
    attached: bool,
    body: Vec<String>,
    near_miss_changed: bool,
    /// CramGlob: every pattern is the fully escaped line (plus possibly a trailing `*`): has to match
    cram_glob_all_right: bool,
}

#[derive(Clone, Copy, PartialEq, Debug)]
enum CBroken {
    OrphanExpectation,
    OrphanExitCode,
    OrphanExtender,
    ExitCodeTwice,
    BadEscape,
    NotUtf8,
    BadEscapedGlob,
}

#[derive(Clone, Copy, PartialEq, Debug)]
enum AnyBroken {
    Cram(CBroken),
    Md(Broken),
}

fn cram_broken_block(b: CBroken) -> &'static [u8] {
    match b {
        CBroken::OrphanExpectation => b"\n  an expectation without a command\n\n",
        CBroken::OrphanExitCode => b"\n  [3]\n\n",
        CBroken::OrphanExtender => b"\n  > continued\n\n",
        CBroken::ExitCodeTwice => b"Twice\n  $ echo twice\n  [1]\n  [2]\n\n",
        CBroken::BadEscape => b"Escape\n  $ echo escape\n  foo\\x (escaped)\n\n",
        CBroken::NotUtf8 => b"Prose with a stray byte \xff in it.\n\n",
        CBroken::BadEscapedGlob => b"Glob\n  $ echo glob\n  a\\xff* (escaped) (glob)\n\n",
    }
}

struct SDoc {
    fmt: Format,
    cfg: DocCfg,
    tests: Vec<STest>,
    front_matter: bool,
    crlf_document: bool,
    broken: Option<(AnyBroken, usize)>,
    fillers: Vec<Vec<usize>>,
    escaper: Escaper,
    /// the stdout of this test ends in an unterminated OSC `ESC ] 0 ; t` (no statement by the direct oracles)
    open_osc: Option<usize>,
}

const CRAM_FILLERS: [&str; 6] = ["Some prose.\n", "# a comment line\n", "\n", " one blank is no indentation\n", "\n\n", "A title that is replaced\n"];

/// lines with the characters the two globs read differently
const GLOB_LINES: [&[u8]; 12] = [b"a*b", b"what?", b"back\\slash", b"total: *", b"C:\\Users\\me", b"a\\bc", b"tail\\", b"q\\?x", b"s\\*t", b"x", b"foo", b"d\\\\e"];

/// the bytes the test's expectations are compared with, by the harness' own reading of the document's configuration:
/// stdout followed by stderr (combined) unless every block selects one stream; CR LF kept unless every block says
/// `keep_crlf: false`
fn compared(cfg: DocCfg, out: &[u8], err: &[u8], other: bool) -> Vec<u8> {
    let raw: Vec<u8> = match (cfg, other) {
        (DocCfg::AllStderr, false) | (DocCfg::AllStdout, true) => err.to_vec(),
        (DocCfg::AllStderr, true) | (DocCfg::AllStdout, false) => out.to_vec(),
        (_, false) => [out, err].concat(),
        // "the other stream" of the combined one: stderr alone
        (_, true) => err.to_vec(),
    };
    if cfg == DocCfg::AllNoKeepCrlf {
        drop_crlf(&raw)
    } else if cfg == DocCfg::AllStripAnsi {
        strip_own(&raw)
    } else {
        raw
    }
}

/// ANSI escape sequences removed, re-stated from the documentation of `strip_ansi_escaping` / ECMA-48 (NOT the
/// library function): CSI `ESC [` parameter bytes 0x30..0x3f, intermediate bytes 0x20..0x2f, one final byte
/// 0x40..0x7e; the control strings OSC `ESC ]`, DCS `ESC P`, SOS `ESC X`, PM `ESC ^`, APC `ESC _` up to BEL or
/// `ESC \` (or the end); any other `ESC`, intermediate bytes, one final byte 0x30..0x7e. Every other byte stays.
fn strip_own(b: &[u8]) -> Vec<u8> {
    let mut v = vec![];
    let mut i = 0;
    while i < b.len() {
        if b[i] != 0x1b {
            v.push(b[i]);
            i += 1;
            continue;
        }
        i += 1;
        match b.get(i) {
            None => {}
            Some(b'[') => {
                i += 1;
                while i < b.len() && (0x30..=0x3f).contains(&b[i]) {
                    i += 1;
                }
                while i < b.len() && (0x20..=0x2f).contains(&b[i]) {
                    i += 1;
                }
                if i < b.len() && (0x40..=0x7e).contains(&b[i]) {
                    i += 1;
                }
            }
            Some(b']' | b'P' | b'X' | b'^' | b'_') => {
                i += 1;
                while i < b.len() {
                    if b[i] == 7 {
                        i += 1;
                        break;
                    }
                    if b[i] == 0x1b && b.get(i + 1) == Some(&b'\\') {
                        i += 2;
                        break;
                    }
                    i += 1;
                }
            }
            Some(_) => {
                while i < b.len() && (0x20..=0x2f).contains(&b[i]) {
                    i += 1;
                }
                if i < b.len() && (0x30..=0x7e).contains(&b[i]) {
                    i += 1;
                }
            }
        }
    }
    v
}

/// a payload whose lines hold SGR sequences (`ESC [ … m`) around and inside the text
fn sgr_payload(rng: &mut Rng) -> Vec<u8> {
    const PLAIN: [&[u8]; 8] = [b"foo", b"bar", b"beta gamma", b"x", b"total: 3", b"line 3", b"  indented", b"alpha"];
    const SGR: [&[u8]; 6] = [b"\x1b[1m", b"\x1b[0m", b"\x1b[31m", b"\x1b[38;5;196m", b"\x1b[m", b"\x1b[1;4m"];
    let n = rng.range(1, 3);
    let mut o = vec![];
    for k in 0..n {
        let line = *rng.pick(&PLAIN);
        match rng.below(4) {
            0 => o.extend_from_slice(line),
            1 => {
                o.extend_from_slice(*rng.pick(&SGR));
                o.extend_from_slice(line);
                o.extend_from_slice(b"\x1b[0m");
            }
            2 => {
                let at = rng.range(0, line.len());
                o.extend_from_slice(&line[..at]);
                o.extend_from_slice(*rng.pick(&SGR));
                o.extend_from_slice(&line[at..]);
            }
            _ => {
                o.extend_from_slice(*rng.pick(&SGR));
                o.extend_from_slice(*rng.pick(&SGR));
                o.extend_from_slice(line);
            }
        }
        if k + 1 < n || rng.chance(5, 6) {
            o.push(b'\n');
        }
    }
    o
}

fn cram_escape(line: &str) -> String {
    let mut s = String::new();
    for c in line.chars() {
        if matches!(c, '*' | '?' | '\\') {
            s.push('\\');
        }
        s.push(c);
    }
    s
}

/// one line as a glob expectation, Cram flavoured half of the time when the line holds a special character
fn script_globbed(rng: &mut Rng, exp: &str) -> String {
    if is_plain(exp) && exp.chars().any(|c| matches!(c, '*' | '?' | '\\')) && rng.chance(1, 2) {
        return match rng.below(3) {
            0 => format!("{} (glob)", cram_escape(exp)),
            1 => format!("{}* (glob)", cram_escape(exp)),
            _ => format!("{} (glob)", exp),
        };
    }
    globbed(rng, exp)
}

/// (body lines, all patterns right)
fn cram_glob_body(rng: &mut Rng, bytes: &[u8]) -> (Vec<String>, bool) {
    let text = String::from_utf8_lossy(bytes).to_string();
    let mut all_right = true;
    let mut body = vec![];
    for line in text.split_inclusive('\n') {
        let (l, eol) = match line.strip_suffix('\n') {
            Some(l) => (l, true),
            None => (line, false),
        };
        let pat = match rng.below(8) {
            0..=2 => cram_escape(l),
            3 | 4 => format!("{}*", cram_escape(l)),
            5 => {
                // the line as it is: a backslash in front of `*` / `?` / `\` is an escape for the Cram glob
                all_right = false;
                l.to_string()
            }
            6 => {
                all_right = false;
                // one special character (or the first one) replaced by `?`
                let cs: Vec<char> = l.chars().collect();
                match cs.iter().position(|c| matches!(c, '*' | '?' | '\\')) {
                    Some(at) => format!("{}?{}", cram_escape(&cs[..at].iter().collect::<String>()), cram_escape(&cs[at + 1..].iter().collect::<String>())),
                    None => format!("?{}", cram_escape(&cs[1.min(cs.len())..].iter().collect::<String>())),
                }
            }
            _ => {
                all_right = false;
                // an escaped wildcard where the line has something else
                format!("{}\\*", cram_escape(l))
            }
        };
        // a glob ignores the missing line feed
        let _ = eol;
        body.push(format!("{pat} (glob)"));
    }
    (body, all_right)
}

fn gen_doc(fmt: Format, seed: u64, idx: u64, strip_focus: bool) -> SDoc {
    let mut rng = Rng::fork(seed, if strip_focus { STREAM_COMPAT_STRIP } else { fmt.stream() }, idx);
    let escaper = if rng.chance(2, 3) { Escaper::Ascii } else { Escaper::Unicode };
    let n: usize = if rng.chance(1, 40) { 0 } else { rng.range(1, 4) };
    let cfg = match (fmt, rng.below(100)) {
        (Format::Cram, _) => DocCfg::Plain,
        (_, 0..=69) if strip_focus => DocCfg::AllStripAnsi,
        (_, 70..=89) if strip_focus => DocCfg::Deviant,
        (_, _) if strip_focus => DocCfg::Plain,
        (_, 0..=46) => DocCfg::Plain,
        (_, 47..=54) => DocCfg::AllStripAnsi,
        (_, 55..=64) => DocCfg::AllStderr,
        (_, 65..=69) => DocCfg::AllStdout,
        (_, 70..=77) => DocCfg::AllNoKeepCrlf,
        (_, 78..=85) => DocCfg::AllSkip3,
        _ => DocCfg::Deviant,
    };
    let deviant_at = rng.below(n.max(1) as u64) as usize;
    let deviant_cfg = if strip_focus { *rng.pick(&[ICfg::StripAnsi, ICfg::StripAnsi, ICfg::NoStripAnsi]) } else { *rng.pick(&[ICfg::Stderr, ICfg::Stdout, ICfg::NoKeepCrlf, ICfg::Skip3, ICfg::Timeout, ICfg::DetachedFalse, ICfg::DetachedFalse, ICfg::StripAnsi, ICfg::NoStripAnsi]) };
    let open_osc = if cfg == DocCfg::AllStripAnsi && n > 0 && rng.chance(1, 6) { Some(rng.below(n as u64) as usize) } else { None };
    let leaves_at = if rng.chance(1, 8) { Some(rng.below(n.max(1) as u64) as usize) } else { None };
    let mut tests = vec![];
    for k in 0..n {
        let mode = match rng.below(100) {
            _ if strip_focus && rng.chance(2, 3) => SMode::Base(Mode::Exact),
            0..=23 => SMode::Base(Mode::Exact),
            24..=33 => SMode::Base(Mode::Quantified),
            34..=43 => SMode::Base(Mode::Globbed),
            44..=52 => SMode::CramGlob,
            53..=58 => SMode::Base(Mode::OptionalNoise),
            59..=67 => SMode::Base(Mode::MultilineRun),
            68..=77 => SMode::Base(Mode::Stale),
            78..=81 => SMode::Base(Mode::Missing),
            82..=88 => SMode::Base(Mode::WrongStream),
            89..=98 => SMode::Base(Mode::NearMiss),
            _ => SMode::Base(Mode::Regex),
        };
        let sgr = (cfg == DocCfg::AllStripAnsi && rng.chance(3, 4)) || (strip_focus && rng.chance(1, 2));
        let out = if sgr { sgr_payload(&mut rng) } else { payload(&mut rng) };
        let err = match rng.below(6) {
            0 => out.clone(),
            1 | 2 => vec![],
            _ if sgr && rng.chance(1, 2) => sgr_payload(&mut rng),
            _ => payload(&mut rng),
        };
        let code = match rng.below(100) {
            0..=4 => 80,
            5 | 6 => 81,
            7..=13 => 1,
            14..=20 => 3,
            21..=23 => 255,
            24..=26 => 2,
            _ => 0,
        };
        // a command that leaves the shell: with the skip code (the document is skipped) or another one (error)
        let code = if leaves_at == Some(k) { *rng.pick(&[0, 1, 80, 80, 3]) } else { code };
        let icfg = match (fmt, cfg) {
            (Format::Cram, _) => ICfg::None,
            (_, DocCfg::AllStderr) => ICfg::Stderr,
            (_, DocCfg::AllStdout) => ICfg::Stdout,
            (_, DocCfg::AllNoKeepCrlf) => ICfg::NoKeepCrlf,
            (_, DocCfg::AllSkip3) => ICfg::Skip3,
            (_, DocCfg::AllStripAnsi) => ICfg::StripAnsi,
            (_, DocCfg::Deviant) if k == deviant_at => deviant_cfg,
            _ => match rng.below(10) {
                0 => ICfg::KeepCrlf,
                1 => ICfg::Combined,
                2 => ICfg::Skip80,
                3 => ICfg::StripAnsi,
                _ => ICfg::None,
            },
        };
        let expected = match (rng.below(10), code) {
            (0, _) => Expected::Wrong,
            (1, c) if c != 0 => Expected::Absent,
            (2, 0) => Expected::RightExplicitZero,
            _ => Expected::Right,
        };
        // special payloads
        let (out, err) = match mode {
            SMode::Base(Mode::NearMiss) => {
                let m = rng.range(1, 3);
                let mut p = vec![];
                for j in 0..m {
                    p.extend_from_slice(*rng.pick(&[&b"foo "[..], b"foo  ", b"foo", b"x ", b"beta gamma ", b"bar"]));
                    if j + 1 < m || rng.chance(3, 4) {
                        p.push(b'\n');
                    }
                }
                // on the stream that is compared (under combined: the first part of it)
                if cfg == DocCfg::AllStderr { (out, p) } else { (p, err) }
            }
            SMode::CramGlob => {
                let mk = |rng: &mut Rng, m: usize| {
                    let mut p = vec![];
                    for j in 0..m {
                        p.extend_from_slice(*rng.pick(&GLOB_LINES));
                        if j + 1 < m || rng.chance(3, 4) {
                            p.push(b'\n');
                        }
                    }
                    p
                };
                let m = rng.range(1, 3);
                let o = mk(&mut rng, m);
                // stdout ends in a line feed when stderr follows on the same stream
                let e = if o.ends_with(b"\n") && rng.chance(1, 3) { mk(&mut rng, 1) } else { vec![] };
                if cfg == DocCfg::AllStderr { (e, o) } else { (o, e) }
            }
            _ => (out, err),
        };
        // (iii) an unterminated control string at the end of this test's stdout
        let out = if open_osc == Some(k) { [&out[..], b"\x1b]0;t"].concat() } else { out };
        let mut t = STest {
            out,
            err,
            code,
            leaves: leaves_at == Some(k),
            icfg,
            mode,
            expected,
            comment: rng.chance(1, 6),
            cont: fmt == Format::Cram && rng.chance(1, 6),
            attached: fmt == Format::Cram && k > 0 && rng.chance(1, 6),
            body: vec![],
            near_miss_changed: false,
            cram_glob_all_right: false,
        };
        let own = own_lines_sel(&escaper, compared(cfg, &t.out, &t.err, false));
        match mode {
            SMode::Base(m) => {
                let (o, e) = (t.out.clone(), t.err.clone());
                let esc = escaper.clone();
                t.body = build_body_from(&mut rng, own.clone(), &|| own_lines_sel(&esc, compared(cfg, &o, &e, true)), m, expected, code, &script_globbed);
                if m == Mode::NearMiss {
                    t.near_miss_changed = t.body.len() >= own.len() && t.body[..own.len()] != own[..];
                }
            }
            SMode::CramGlob => {
                let (body, right) = cram_glob_body(&mut rng, &compared(cfg, &t.out, &t.err, false));
                t.cram_glob_all_right = right;
                // the exit code line as `build_body_from` writes it
                t.body = build_body_from(&mut rng, body, &|| vec![], Mode::Exact, expected, code, &script_globbed);
            }
        }
        tests.push(t);
    }
    let broken = if rng.chance(1, 12) {
        let at = rng.range(0, tests.len());
        let kind = match fmt {
            Format::Cram => AnyBroken::Cram(*rng.pick(&[CBroken::OrphanExpectation, CBroken::OrphanExitCode, CBroken::OrphanExtender, CBroken::ExitCodeTwice, CBroken::BadEscape, CBroken::NotUtf8, CBroken::BadEscapedGlob])),
            Format::Compat => AnyBroken::Md(*rng.pick(&[Broken::ExpectationBeforeCommand, Broken::ExitCodeTwice, Broken::BadInlineConfig, Broken::MissingLanguage, Broken::BadEscape, Broken::NotUtf8, Broken::BadEscapedGlob, Broken::ExtenderWithoutCommand])),
        };
        // the malformed block stands on its own
        if let Some(t) = tests.get_mut(at) {
            t.attached = false;
        }
        Some((kind, at))
    } else {
        None
    };
    let nf = match fmt {
        Format::Cram => CRAM_FILLERS.len(),
        Format::Compat => FILLERS.len(),
    } as u64;
    let fillers = (0..=tests.len()).map(|_| (0..rng.range(0, 2)).map(|_| rng.below(nf) as usize).collect()).collect();
    SDoc { fmt, cfg, tests, front_matter: fmt == Format::Compat && rng.chance(1, 6), crlf_document: rng.chance(1, 10), broken, fillers, escaper, open_osc }
}

fn command(dir: &Path, k: usize, t: &STest) -> (String, String) {
    let end = if t.leaves { format!("exit {}", t.code) } else { format!("(exit {})", t.code) };
    (format!("cat {0}/p{k}.out; cat {0}/p{k}.err >&2", dir.display()), end)
}

fn render_cram(d: &SDoc, dir: &Path) -> Vec<u8> {
    let mut doc: Vec<u8> = vec![];
    let put_broken = |doc: &mut Vec<u8>, k: usize| {
        if let Some((AnyBroken::Cram(b), at)) = d.broken {
            if at == k {
                doc.extend_from_slice(cram_broken_block(b));
            }
        }
    };
    for (k, t) in d.tests.iter().enumerate() {
        if !t.attached {
            if k > 0 {
                doc.push(b'\n');
            }
            put_broken(&mut doc, k);
            for f in &d.fillers[k] {
                doc.extend_from_slice(CRAM_FILLERS[*f].as_bytes());
            }
            doc.extend_from_slice(format!("T{k}\n").as_bytes());
        }
        let (cmd, end) = command(dir, k, t);
        if t.cont {
            doc.extend_from_slice(format!("  $ {cmd}\n  > {end}\n").as_bytes());
        } else {
            doc.extend_from_slice(format!("  $ {cmd}; {end}\n").as_bytes());
        }
        if t.comment {
            doc.extend_from_slice(b"# a comment\n");
        }
        for l in &t.body {
            doc.extend_from_slice(format!("  {l}\n").as_bytes());
        }
    }
    if !d.tests.is_empty() {
        doc.push(b'\n');
    }
    put_broken(&mut doc, d.tests.len());
    for f in &d.fillers[d.tests.len()] {
        doc.extend_from_slice(CRAM_FILLERS[*f].as_bytes());
    }
    doc.extend_from_slice(b"Text after the last test.\n");
    doc
}

fn render_compat(d: &SDoc, dir: &Path) -> Vec<u8> {
    let mut doc: Vec<u8> = vec![];
    if d.front_matter {
        doc.extend_from_slice(b"---\ntotal_timeout: 30s\n---\n");
    }
    doc.extend_from_slice(b"# A document\n\nIntroduction.\n\n");
    let fill = |doc: &mut Vec<u8>, gap: usize| {
        for f in &d.fillers[gap] {
            doc.extend_from_slice(FILLERS[*f].as_bytes());
        }
        if !d.fillers[gap].is_empty() {
            doc.push(b'\n');
        }
    };
    let put_broken = |doc: &mut Vec<u8>, k: usize| {
        if let Some((AnyBroken::Md(b), at)) = d.broken {
            if at == k {
                doc.extend_from_slice(broken_block(b));
            }
        }
    };
    for (k, t) in d.tests.iter().enumerate() {
        put_broken(&mut doc, k);
        fill(&mut doc, k);
        let ticks = t.body.iter().map(|l| l.chars().take_while(|c| *c == '`').count()).max().unwrap_or(0).max(2) + 1;
        let fence = "`".repeat(ticks);
        doc.extend_from_slice(format!("## T{k}\n\n{fence}scrut{}\n", t.icfg.text()).as_bytes());
        if t.comment {
            doc.extend_from_slice(b"# a comment\n");
        }
        let (cmd, end) = command(dir, k, t);
        doc.extend_from_slice(format!("$ {cmd}; {end}\n").as_bytes());
        for l in &t.body {
            doc.extend_from_slice(l.as_bytes());
            doc.push(b'\n');
        }
        doc.extend_from_slice(format!("{fence}\n\n").as_bytes());
    }
    put_broken(&mut doc, d.tests.len());
    fill(&mut doc, d.tests.len());
    doc.extend_from_slice(b"Text after the last test.\n");
    doc
}

fn render_doc(d: &SDoc, dir: &Path) -> Vec<u8> {
    let doc = match d.fmt {
        Format::Cram => render_cram(d, dir),
        Format::Compat => render_compat(d, dir),
    };
    if d.crlf_document {
        let mut v = Vec::with_capacity(doc.len() + 64);
        for b in doc {
            if b == b'\n' {
                v.push(b'\r');
            }
            v.push(b);
        }
        v
    } else {
        doc
    }
}

struct RanDoc {
    line: String,
    code: i32,
    /// (index, kind) in the order of the report; None = no JSON
    results: Option<Vec<(Option<usize>, String)>>,
    stderr: String,
}

/// runs the binary on the document. The index of a result is the `k` of its title `T<k>`; a result WITHOUT a title
/// (Cram: a command directly below the body of another test, the title went to the first one) is identified by its
/// position in the report.
fn run_binary(fmt: Format, dir: &Path, doc_path: &Path) -> RanDoc {
    let mut cmd = std::process::Command::new(scrut_bin());
    cmd.arg("test");
    if fmt == Format::Compat {
        cmd.arg("--cram-compat");
    }
    let out = cmd.arg("-r").arg("json").arg(doc_path).current_dir(dir).env("TMPDIR", dir.join("tmp")).env("NO_COLOR", "1").stdin(std::process::Stdio::null()).output().expect("run scrut");
    let code = out.status.code().unwrap_or(-1);
    let stdout = String::from_utf8_lossy(&out.stdout).to_string();
    let stderr = String::from_utf8_lossy(&out.stderr).to_string();
    let json: Option<serde_json::Value> = stdout.find('[').and_then(|p| serde_json::from_str(&stdout[p..]).ok());
    let results: Option<Vec<(Option<usize>, String)>> = match &json {
        Some(serde_json::Value::Array(items)) => Some(
            items
                .iter()
                .enumerate()
                .map(|(pos, it)| {
                    let title = it.get("title").and_then(|t| t.as_str()).or_else(|| it.pointer("/testcase/title").and_then(|t| t.as_str())).unwrap_or("");
                    let kind = it.pointer("/result/kind").and_then(|k| k.as_str()).unwrap_or("?").to_string();
                    let kind = if kind == "invalid_exit_code" {
                        format!("invalid_exit_code:{}:{}", it.pointer("/result/actual").and_then(|v| v.as_i64()).map_or("?".to_string(), |v| v.to_string()), it.pointer("/result/expected").and_then(|v| v.as_i64()).map_or("?".to_string(), |v| v.to_string()))
                    } else {
                        kind
                    };
                    let index = if title.is_empty() && fmt == Format::Cram { Some(pos) } else { title.strip_prefix('T').and_then(|r| r.parse::<usize>().ok()) };
                    (index, kind)
                })
                .collect(),
        ),
        _ => None,
    };
    let line = match &results {
        // "failing in <document>: …": the executor gave up (inconsistent configuration, per-test timeout, fewer
        // outputs than test cases); anything else that ends with 1 and no report is a document that cannot be read
        None if code == 1 && stderr.contains("Error: failing in ") => "exec-error".to_string(),
        None if code == 1 => "parse-error".to_string(),
        None => format!("no-json exit={code}"),
        Some(rs) => {
            let shown: Vec<String> = rs.iter().map(|(i, k)| format!("{}:{k}", i.map_or("?".to_string(), |i| i.to_string()))).collect();
            format!("{} exit={code}", if shown.is_empty() { "-".to_string() } else { shown.join(",") })
        }
    };
    RanDoc { line, code, results, stderr }
}

fn sruns_field(tests: &[(Vec<u8>, Vec<u8>, i32, bool)]) -> String {
    if tests.is_empty() {
        "-".to_string()
    } else {
        tests.iter().map(|(o, e, c, x)| format!("{}:{}:{c}{}", hex(o), hex(e), if *x { ":x" } else { "" })).collect::<Vec<_>>().join(",")
    }
}

fn case(prop: &str, fmt: Format, strip_focus: bool, seed: u64, idx: u64, root: &Path, name: String, verbose: bool) -> CaseRec {
    let d = gen_doc(fmt, seed, idx, strip_focus);
    let dir = root.join(name);
    let _ = std::fs::remove_dir_all(&dir);
    std::fs::create_dir_all(dir.join("tmp")).unwrap();
    for (k, t) in d.tests.iter().enumerate() {
        std::fs::write(dir.join(format!("p{k}.out")), &t.out).unwrap();
        std::fs::write(dir.join(format!("p{k}.err")), &t.err).unwrap();
    }
    let doc = render_doc(&d, &dir);
    let doc_path = dir.join(fmt.file());
    std::fs::write(&doc_path, &doc).unwrap();
    let ran = run_binary(fmt, &dir, &doc_path);
    if verbose {
        println!("document {} ({:?}):\n{}\n--", doc_path.display(), d.cfg, String::from_utf8_lossy(&doc));
        for (k, t) in d.tests.iter().enumerate() {
            println!("test {k} ({:?}, expected code {:?}{}): stdout {:?} stderr {:?} exit {}", t.mode, t.expected, if t.leaves { ", LEAVES the shell" } else { "" }, String::from_utf8_lossy(&t.out), String::from_utf8_lossy(&t.err), t.code);
        }
        println!("exit status {}, stderr {}", ran.code, short(&ran.stderr, 400));
    }
    let _ = std::fs::remove_dir_all(&dir);

    let tag = fmt.op();
    let runs: Vec<(Vec<u8>, Vec<u8>, i32, bool)> = d.tests.iter().map(|t| (t.out.clone(), t.err.clone(), t.code, t.leaves)).collect();
    let op = format!("{tag} {} {} {seed}.{idx}{}", hex(&doc), sruns_field(&runs), if strip_focus { ".s" } else { "" });
    let has_regex = d.tests.iter().any(|t| t.mode == SMode::Base(Mode::Regex));
    let impl_out = if has_regex && d.broken.is_none() { "unsupported".to_string() } else { ran.line.clone() };

    // ---- direct oracles ---------------------------------------------------------------------------------------------
    // the harness' own reading of the single-script execution (from the documentation of BashScriptExecutor and of
    // skip_document_code): the test cases run in order in one shell; a command that leaves the shell ends the run;
    // a test case (or the script) ending with the skip code skips the document; fewer outputs than test cases is an
    // error (exit status 1)
    let mut fails: Vec<(String, String)> = vec![];
    let describe = |what: &str| format!("{what}; `{}` reported `{}` on document {:?} with {}", fmt.command_line(), ran.line, short(&String::from_utf8_lossy(&doc), 900), d.tests.iter().enumerate().map(|(k, t)| format!("p{k}.out={} p{k}.err={} exit {}{}", hex(&t.out), hex(&t.err), t.code, if t.leaves { " (leaves)" } else { "" })).collect::<Vec<_>>().join(" "));
    let skip = d.cfg.skip_code();
    let first_leave = d.tests.iter().position(|t| t.leaves);
    let upto = first_leave.map_or(d.tests.len(), |k| k + 1);
    let skipped_doc = d.tests[..upto].iter().any(|t| t.code == skip);
    // the configuration of every block is the same as far as the executor cares (`strip_ansi_escaping` on some
    // blocks of a document is a deviation since the key is one of `set_consistent!`); a control string that a command
    // leaves open runs into the divider lines: no statement by the direct oracles, the model decides
    let some_strip = d.cfg != DocCfg::AllStripAnsi && d.tests.iter().any(|t| matches!(t.icfg, ICfg::StripAnsi | ICfg::NoStripAnsi));
    // a lone ESC / an open sequence at the end of a payload (the pool holds none, but be exact): ends inside a sequence
    let ends_open = |b: &[u8]| strip_own(&[b, b"~"].concat()).len() != strip_own(b).len() + 1;
    let open_seq = d.cfg == DocCfg::AllStripAnsi && (d.open_osc.is_some() || d.tests.iter().any(|t| ends_open(&t.out) || ends_open(&t.err) || ends_open(&[&t.out[..], &t.err[..]].concat())));
    let uniform = d.cfg != DocCfg::Deviant && !some_strip && !open_seq;
    let expect_error = uniform && !skipped_doc && first_leave.is_some();
    match (&ran.results, d.broken) {
        (_, Some((b, _))) => {
            if ran.code != 1 || ran.results.is_some() {
                fails.push((format!("C20:{tag}-exit-status"), describe(&format!("malformed document ({b:?}) but exit status {}", ran.code))));
                fails.push((format!("C07:{tag}-malformed-accepted"), describe(&format!("malformed document ({b:?}) but exit status {}", ran.code))));
            }
        }
        (None, None) => {
            if uniform && !expect_error {
                for p in ["C05", "C20"] {
                    fails.push((format!("{p}:{tag}-no-result"), describe(&format!("no JSON (exit status {}): {}", ran.code, short(&ran.stderr, 300)))));
                }
            } else if ran.code != 1 {
                fails.push((format!("C20:{tag}-exit-status"), describe(&format!("no report, exit status {}", ran.code))));
            }
        }
        (Some(rs), None) => {
            // exit status: 50 iff some verdict is a failure, else 0
            let failing = rs.iter().any(|(_, k)| k != "success" && k != "skipped");
            let want = if failing { 50 } else { 0 };
            if ran.code != want {
                fails.push((format!("C20:{tag}-exit-status"), describe(&format!("exit status {}, the reported verdicts ask for {want}", ran.code))));
            }
            // one result per test case (per `$ ` line), in document order
            let idxs: Vec<Option<usize>> = rs.iter().map(|(i, _)| *i).collect();
            if idxs != (0..d.tests.len()).map(Some).collect::<Vec<_>>() {
                fails.push((format!("C20:{tag}-result-list"), describe(&format!("results for {:?}, the document holds tests 0..{}", idxs, d.tests.len()))));
                fails.push((format!("C07:{tag}-result-list"), describe(&format!("results for {:?}, the document holds {} commands", idxs, d.tests.len()))));
            }
            if expect_error {
                fails.push((format!("C20:{tag}-left-shell-reported"), describe(&format!("test {} leaves the shell (no skip code before it): the outputs cannot be assigned, yet results are reported", first_leave.unwrap_or(0)))));
            }
            let got_of = |k: usize| rs.iter().find(|(i, _)| *i == Some(k)).map(|(_, kind)| kind.as_str());
            if uniform && skipped_doc {
                if rs.iter().any(|(_, k)| k != "skipped") {
                    fails.push((format!("C05:{tag}-skip-code-not-skipped"), describe(&format!("a test case ends with the skip code {skip}: every test case is skipped"))));
                }
            } else if uniform {
                for (k, t) in d.tests.iter().enumerate() {
                    let right_code = matches!(t.expected, Expected::Right | Expected::RightExplicitZero);
                    let plain_block = true;
                    if t.mode == SMode::Base(Mode::Exact) && right_code && plain_block && got_of(k) != Some("success") {
                        fails.push((format!("C05:{tag}-own-lines-fail"), describe(&format!("test {k} expects exactly its own output and exit code, reported {:?}", got_of(k)))));
                        // C16: the key is set on every test case of the document (inline layer, nothing above it) and
                        // the expectations are the lines without the escape sequences
                        if d.cfg == DocCfg::AllStripAnsi {
                            fails.push(("C16:script-strip-ansi-dropped".to_string(), describe(&format!("every test case sets `strip_ansi_escaping: true` and test {k} expects exactly its own output without the ANSI escape sequences, reported {:?}: the key is not in effect in the single-script executor", got_of(k)))));
                        }
                    }
                    // `\*`, `\?`, `\\` stand for the characters themselves, `*` for any run
                    if t.mode == SMode::CramGlob && t.cram_glob_all_right && right_code && got_of(k) != Some("success") {
                        fails.push((format!("C05:{tag}-escaped-glob-fails"), describe(&format!("test {k}: every expectation is its line as a Cram glob with all special characters escaped, reported {:?}", got_of(k)))));
                    }
                    if t.mode == SMode::Base(Mode::NearMiss) && t.near_miss_changed && plain_block && got_of(k) == Some("success") {
                        fails.push((format!("C05:{tag}-near-miss-succeeds"), describe(&format!("test {k}: an expectation differs from its line in one trailing blank, reported success"))));
                    }
                    if matches!(t.expected, Expected::Wrong | Expected::Absent) && got_of(k) == Some("success") {
                        fails.push((format!("C05:{tag}-wrong-exit-code-succeeds"), describe(&format!("test {k} exits {} against {:?}, reported success", t.code, t.expected))));
                    }
                }
            }
        }
    }

    let mut tags = vec![format!("{tag}:tests={}", d.tests.len()), format!("{tag}:exit={}", ran.code), format!("{tag}:doc-cfg={:?}", d.cfg), format!("{tag}:escaper={}", if matches!(d.escaper, Escaper::Ascii) { "ascii" } else { "unicode" })];
    if let Some((b, _)) = d.broken {
        tags.push(format!("{tag}:malformed={b:?}"));
    }
    if d.crlf_document {
        tags.push(format!("{tag}:crlf-document"));
    }
    if let Some(k) = d.open_osc {
        tags.push(format!("{tag}:open-osc"));
        tags.push(format!("{tag}:open-osc->{}", impl_out.split(' ').next().map(|w| if w.contains(':') || w == "-" { "report" } else { w }).unwrap_or("")));
        let _ = k;
    }
    if d.cfg == DocCfg::AllStripAnsi && d.tests.iter().any(|t| t.out.contains(&0x1b) || t.err.contains(&0x1b)) {
        tags.push(format!("{tag}:strip-ansi-with-sequences"));
    }
    if some_strip {
        tags.push(format!("{tag}:strip-ansi-on-some-blocks"));
    }
    if d.front_matter {
        tags.push(format!("{tag}:front-matter"));
    }
    if has_regex && d.broken.is_none() {
        tags.push(format!("{tag}:unsupported-regex"));
    }
    if d.broken.is_none() {
        tags.push(format!("{tag}:line={}", impl_out.split(' ').next().map(|w| if w.contains(':') || w == "-" { "report" } else { w }).unwrap_or("")));
        if let Some(k) = first_leave {
            tags.push(format!("{tag}:leaves-shell={}", if d.tests[k].code == skip { "skip-code" } else { "other-code" }));
        }
        if skipped_doc {
            tags.push(format!("{tag}:skip-code-reached"));
        }
    }
    for t in &d.tests {
        tags.push(format!("{tag}:mode={:?}", t.mode));
        if fmt == Format::Compat {
            tags.push(format!("{tag}:inline={:?}", t.icfg));
        }
        tags.push(format!("{tag}:expected-code={:?}", t.expected));
        if t.attached {
            tags.push(format!("{tag}:attached-command"));
        }
        if t.cont {
            tags.push(format!("{tag}:continuation-line"));
        }
        if t.out.windows(2).any(|w| w == b"\r\n") || t.err.windows(2).any(|w| w == b"\r\n") {
            tags.push(format!("{tag}:crlf-in-payload"));
        }
        if !t.out.is_empty() && !t.out.ends_with(b"\n") && !t.err.is_empty() {
            tags.push(format!("{tag}:stderr-continues-stdout-line"));
        }
    }
    if let Some(rs) = &ran.results {
        for (_, k) in rs {
            tags.push(format!("{tag}:verdict={}", k.split(':').next().unwrap_or("")));
        }
        for (k, t) in d.tests.iter().enumerate() {
            if let Some((_, kind)) = rs.iter().find(|(i, _)| *i == Some(k)) {
                tags.push(format!("{tag}:mode={:?}->{}", t.mode, kind.split(':').next().unwrap_or("")));
            }
        }
    }
    CaseRec { op, impl_out, oracle_fail: keep(prop, fails), nontrivial: d.broken.is_none() && !d.tests.is_empty(), tags }
}

// ───────────────────── expressions that bash continues over scrut's own footer (outside the model) ─────────────────────
//
// The integrated model takes the run of every command as given (a COMPLETE command); an expression that ends in `|`,
// `|&`, `&&`, `||`, a backslash, or inside a quote has no run of its own: bash reads on into the lines scrut puts behind
// it. These cases are judged by the direct oracle alone (op `unmodelled incomplete …`): whatever the shell makes of
// the text, a test case whose command printed something (no expectations are written) or ended with a status other
// than 0 must not be reported as succeeded, and the run must not end with exit status 0.

/// (the command that is meant, complete)
const INC_CMDS: [&str; 5] = ["sh -c 'echo garbage; exit 7'", "sh -c 'echo garbage >&2; exit 7'", "sh -c 'exit 7'", "echo garbage", "true"];
/// what is appended to it
const INC_TAILS: [&str; 5] = [" |", " |&", " &&", " ||", " \\"];
/// (expression as written, the command that is meant): unterminated quotes
const INC_QUOTES: [(&str, &str); 5] = [
    ("sh -c 'echo garbage; exit 7", "sh -c 'echo garbage; exit 7'"),
    ("sh -c \"echo garbage; exit 7", "sh -c \"echo garbage; exit 7\""),
    ("sh -c \"echo garbage", "sh -c \"echo garbage\""),
    ("echo garbage 'open", "echo garbage 'open'"),
    ("sh -c 'exit 7' \"x", "sh -c 'exit 7' \"x\""),
];
const INC_LAYOUTS: [&str; 3] = ["cram", "compat", "compat-stdout"];
const INC_POSITIONS: [&str; 2] = ["first", "middle"];

fn inc_shapes() -> Vec<(String, String)> {
    let mut v = vec![];
    for c in INC_CMDS {
        for t in INC_TAILS {
            v.push((format!("{c}{t}"), c.to_string()));
        }
    }
    for (e, c) in INC_QUOTES {
        v.push((e.to_string(), c.to_string()));
    }
    v
}

fn inc_total() -> u64 {
    (inc_shapes().len() * INC_LAYOUTS.len() * INC_POSITIONS.len()) as u64
}

fn inc_op(idx: u64) -> String {
    let n = inc_shapes().len();
    let i = idx as usize;
    format!("unmodelled incomplete {} {} {}", INC_LAYOUTS[(i / n) % INC_LAYOUTS.len()], INC_POSITIONS[i / n / INC_LAYOUTS.len()], i % n)
}

fn incomplete_case(prop: &str, op: &str, root: &Path, name: String, verbose: bool) -> CaseRec {
    let f: Vec<&str> = op.split(' ').collect();
    let shapes = inc_shapes();
    let (layout, pos) = (f[2], f[3]);
    let (expr, meant) = shapes[f[4].parse::<usize>().unwrap_or(0).min(shapes.len() - 1)].clone();
    let fmt = if layout == "cram" { Format::Cram } else { Format::Compat };
    let dir = root.join(name);
    let _ = std::fs::remove_dir_all(&dir);
    std::fs::create_dir_all(dir.join("tmp")).unwrap();
    // what the command that is meant does in plain bash
    let r = std::process::Command::new("/bin/bash").arg("-c").arg(&meant).current_dir(&dir).stdin(std::process::Stdio::null()).output().expect("run bash");
    let (ref_out, ref_err, ref_code) = (r.stdout, r.stderr, r.status.code().unwrap_or(-1));
    let compared: Vec<u8> = if layout == "compat-stdout" { ref_out.clone() } else { [ref_out.clone(), ref_err.clone()].concat() };
    let bad = ref_code != 0 || !compared.is_empty();
    // the document: (a passing test,) the incomplete expression WITHOUT expectations, a passing test
    let icfg = if layout == "compat-stdout" { " {output_stream: stdout}" } else { "" };
    let mut tests: Vec<(String, Vec<&str>)> = vec![];
    if pos == "middle" {
        tests.push(("echo before".to_string(), vec!["before"]));
    }
    let at = tests.len();
    tests.push((expr.clone(), vec![]));
    tests.push(("echo ok".to_string(), vec!["ok"]));
    let mut doc = String::new();
    if fmt == Format::Compat {
        doc.push_str("# A document\n\n");
    }
    for (k, (e, body)) in tests.iter().enumerate() {
        match fmt {
            Format::Cram => {
                doc.push_str(&format!("T{k}\n  $ {e}\n"));
                for l in body {
                    doc.push_str(&format!("  {l}\n"));
                }
                doc.push('\n');
            }
            Format::Compat => {
                doc.push_str(&format!("## T{k}\n\n```scrut{icfg}\n$ {e}\n"));
                for l in body {
                    doc.push_str(&format!("{l}\n"));
                }
                doc.push_str("```\n\n");
            }
        }
    }
    let doc_path = dir.join(fmt.file());
    std::fs::write(&doc_path, &doc).unwrap();
    let ran = run_binary(fmt, &dir, &doc_path);
    if verbose {
        println!("document {}:\n{doc}--", doc_path.display());
        println!("the command that is meant, `{meant}`, in plain bash: stdout {:?} stderr {:?} exit {ref_code}", String::from_utf8_lossy(&ref_out), String::from_utf8_lossy(&ref_err));
        println!("`{}`: {} (exit status {}; stderr: {})", fmt.command_line(), ran.line, ran.code, short(&ran.stderr, 400));
    }
    let _ = std::fs::remove_dir_all(&dir);
    let mut fails: Vec<(String, String)> = vec![];
    let describe = |what: &str| format!("{what}; `{}` reported `{}` on document {:?}; in plain bash `{meant}` writes stdout {:?} stderr {:?} and ends with {ref_code}", fmt.command_line(), ran.line, doc, String::from_utf8_lossy(&ref_out), String::from_utf8_lossy(&ref_err));
    let got: Option<String> = ran.results.as_ref().and_then(|rs| rs.iter().find(|(i, _)| *i == Some(at)).map(|(_, k)| k.clone()));
    if bad && got.as_deref() == Some("success") {
        fails.push(("C05:single-script-incomplete-expression-passes".to_string(), describe(&format!("test {at} (`{expr}`, no expectations) is reported as succeeded although its command writes output or does not end with 0"))));
    }
    if bad && ran.code == 0 {
        fails.push(("C20:single-script-incomplete-expression-exit-status".to_string(), describe(&format!("exit status 0 although the command of test {at} (`{expr}`, no expectations) writes output or does not end with 0"))));
    }
    let verdict = got.clone().map_or(ran.line.split(' ').next().unwrap_or("").to_string(), |g| g.split(':').next().unwrap_or("").to_string());
    let tail = if expr.len() > meant.len() { expr[meant.len()..].trim().to_string() } else { "open-quote".to_string() };
    CaseRec {
        op: op.to_string(),
        impl_out: "unmodelled".into(),
        oracle_fail: keep(prop, fails),
        nontrivial: bad,
        tags: vec![format!("incomplete:layout={layout}"), format!("incomplete:position={pos}"), format!("incomplete:tail={tail}"), format!("incomplete:tail={tail}->{verdict}"), format!("incomplete:command-bad={bad}")],
    }
}

/// the two streams (C05 / C20), or the Cram one alone (C07)
pub fn run(ctx: &Ctx, prop: &str) {
    let seed = ctx.seed;
    let root = tmproot("script");
    std::fs::create_dir_all(&root).unwrap();
    let n = if ctx.thorough { 2000 } else { 120 };
    ctx.run_stream("e2e-testcram", n, false, |idx| Some(case(prop, Format::Cram, false, seed, idx, &root, format!("c{idx}"), false)));
    ctx.note("e2e-testcram: Cram documents `doc.t` with 0-4 tests `cat pK.out; cat pK.err >&2; (exit N)` (two-blank indentation, titles, `> ` continuation lines, # comments, commands directly below the body of another test; expectations derived from the known COMBINED output, CR LF kept: exact, quantified, globs incl. Cram escapes `\\*` `\\?` `\\\\` right and wrong, optional noise, multiline runs, stale, missing, stderr only, trailing-blank near misses; exit code right / wrong / absent; a test ending with the skip code 80; a command that leaves the shell with `exit N`; malformed documents) through the real binary `scrut test -r json doc.t`; verdict list / `exec-error` / `parse-error` and exit status are compared with the INTEGRATED Lean model (`testcram`: read_file, Cram parser, grammar with the Cram glob, compile_testcase, script output layout, render_output, divider protocol, execScript, validate, result mapping, exit status composed)".into());
    if prop != "C07" {
        ctx.run_stream("e2e-testdoc-cram-compat", n, false, |idx| Some(case(prop, Format::Compat, false, seed, idx, &root, format!("m{idx}"), false)));
        ctx.note("e2e-testdoc-cram-compat: Markdown documents run with `--cram-compat` (Markdown parser with the Cram expectation maker and default_cram(): combined, CR LF kept; single-script executor): inline configuration written out / on every block (output_stream stderr|stdout, keep_crlf false, skip_document_code 3) / on ONE block (inconsistent configuration, per-test timeout, `detached: false`: exec-error unless consistent by the rule of set_consistent!) / strip_ansi_escaping on every block (the whole captured stream is stripped; payloads with SGR sequences) or on one block (a deviation); same expectation generators as e2e-testcram; compared with the integrated model op `testdocc`".into());
    }
    if prop != "C07" {
        run_strip(ctx, prop);
    }
    if prop != "C07" {
        ctx.run_stream("e2e-script-incomplete-expression-exhaustive", inc_total(), true, |idx| Some(incomplete_case(prop, &inc_op(idx), &root, format!("i{idx}"), false)));
        ctx.note("e2e-script-incomplete-expression-exhaustive: Cram documents, Markdown documents under --cram-compat (combined) and with `{output_stream: stdout}` on every block (separate streams: the `1>&2 echo` divider line is in the script) in which one test case -- the first of two or the middle one of three -- has NO expectations and an expression that bash continues over scrut's footer: `sh -c 'echo garbage; exit 7'`, `sh -c 'echo garbage >&2; exit 7'`, `sh -c 'exit 7'`, `echo garbage`, `true` (control) followed by ` |`, ` |&`, ` &&`, ` ||`, ` \\`, and five expressions that end inside a single / double quote; the test cases around it pass. Real binary; outside the model (a run of its own does not exist for such an expression): direct oracle only -- the command that is meant is run in plain bash, and when it writes output or does not end with 0 the test case must not be reported as succeeded (C05:single-script-incomplete-expression-passes) and the exit status must not be 0 (C20:single-script-incomplete-expression-exit-status)".into());
    }
    let _ = std::fs::remove_dir_all(&root);
}

/// the stream focused on `strip_ansi_escaping` under `--cram-compat` (C05 / C20, and C16: the key has to be in effect
/// from the inline layer in the single-script executor too)
pub fn run_strip(ctx: &Ctx, prop: &str) {
    let seed = ctx.seed;
    let root = tmproot("script-strip");
    std::fs::create_dir_all(&root).unwrap();
    let n = if ctx.thorough { 1000 } else { 80 };
    ctx.run_stream("e2e-testdoc-cram-compat-strip-ansi", n, false, |idx| Some(case(prop, Format::Compat, true, seed, idx, &root, format!("s{idx}"), false)));
    ctx.note("e2e-testdoc-cram-compat-strip-ansi: Markdown documents run with `--cram-compat` whose blocks carry `strip_ansi_escaping`: (i) `true` on every block, payloads with SGR sequences `ESC [ … m` around / inside the lines, expectations = the lines without the sequences (harness' own re-statement of ECMA-48, not the library function), (ii) the key (`true` / `false`) on ONE block (execution error unless consistent by the rule of set_consistent!), (iii) an unterminated OSC `ESC ] 0 ; t` at the end of one test's stdout (the stripping of the whole stream takes the dividers with it: model decides, `exec-error`); real binary vs. integrated model op `testdocc`; direct oracle C16:script-strip-ansi-dropped (every test sets the key, a test that expects exactly its stripped lines is not reported as succeeded) and the C05/C20 oracles of e2e-testdoc-cram-compat".into());
    let _ = std::fs::remove_dir_all(&root);
}

pub fn is_script_op(op: &str) -> bool {
    op.starts_with("testcram ") || op.starts_with("testdocc ") || op.starts_with("unmodelled incomplete ")
}

/// re-runs a recorded op: a generated case is regenerated from its seed and index and judged by all direct oracles;
/// an op without a case tag is rewritten to a fresh directory and run again (exit status vs. verdicts only)
pub fn replay(prop: &str, op: &str) -> bool {
    let parts: Vec<&str> = op.split_whitespace().collect();
    if op.starts_with("unmodelled incomplete ") {
        if parts.len() != 5 || !INC_LAYOUTS.contains(&parts[2]) || !INC_POSITIONS.contains(&parts[3]) {
            eprintln!("replay: malformed `unmodelled incomplete` op");
            return false;
        }
        let root = tmproot("script-replay");
        std::fs::create_dir_all(&root).unwrap();
        let rec = incomplete_case(prop, &parts.join(" "), &root, "r".into(), true);
        let _ = std::fs::remove_dir_all(&root);
        for (cl, d) in &rec.oracle_fail {
            println!("oracle-failure {cl}: {}", short(d, 900));
        }
        return rec.oracle_fail.is_empty();
    }
    let fmt = if parts.first() == Some(&"testcram") { Format::Cram } else { Format::Compat };
    let strip_focus = parts.get(3).is_some_and(|c| c.ends_with(".s"));
    if let Some((Ok(seed), Ok(idx))) = parts.get(3).map(|c| c.trim_end_matches(".s")).and_then(|c| c.split_once('.')).map(|(a, b)| (a.parse::<u64>(), b.parse::<u64>())) {
        let root = tmproot("script-replay");
        std::fs::create_dir_all(&root).unwrap();
        let rec = case(prop, fmt, strip_focus, seed, idx, &root, "r".into(), true);
        let _ = std::fs::remove_dir_all(&root);
        println!("{}: {}", fmt.command_line(), rec.impl_out);
        println!("model op: {}", rec.op);
        for (cl, d) in &rec.oracle_fail {
            println!("oracle-failure {cl}: {}", short(d, 600));
        }
        return rec.oracle_fail.is_empty();
    }
    if parts.len() != 3 {
        eprintln!("replay: malformed {} op", fmt.op());
        return false;
    }
    let doc = unhex(parts[1]);
    let runs: Vec<(Vec<u8>, Vec<u8>)> = if parts[2] == "-" {
        vec![]
    } else {
        parts[2]
            .split(',')
            .map(|r| {
                let f: Vec<&str> = r.split(':').collect();
                (unhex(f[0]), unhex(f.get(1).copied().unwrap_or("-")))
            })
            .collect()
    };
    let root = tmproot("script-replay");
    let dir = root.join("r");
    let _ = std::fs::remove_dir_all(&dir);
    std::fs::create_dir_all(dir.join("tmp")).unwrap();
    // the old payload directory: `$ cat <dir>/p0.out;`
    let text = String::from_utf8_lossy(&doc).to_string();
    let old_dir: Option<String> = text.find("/p0.out;").and_then(|end| text[..end].rfind("$ cat ").map(|s| text[s + 6..end].to_string()));
    let new_doc: Vec<u8> = match &old_dir {
        Some(od) => {
            let (od, nd) = (od.as_bytes(), dir.display().to_string().into_bytes());
            let mut v = vec![];
            let mut i = 0;
            while i < doc.len() {
                if doc[i..].starts_with(od) {
                    v.extend_from_slice(&nd);
                    i += od.len();
                } else {
                    v.push(doc[i]);
                    i += 1;
                }
            }
            v
        }
        None => doc.clone(),
    };
    for (k, (o, e)) in runs.iter().enumerate() {
        std::fs::write(dir.join(format!("p{k}.out")), o).unwrap();
        std::fs::write(dir.join(format!("p{k}.err")), e).unwrap();
    }
    let doc_path = dir.join(fmt.file());
    std::fs::write(&doc_path, &new_doc).unwrap();
    let ran = run_binary(fmt, &dir, &doc_path);
    println!("document:\n{}", String::from_utf8_lossy(&new_doc));
    println!("{}: {}  (exit status {}; stderr: {})", fmt.command_line(), ran.line, ran.code, short(&ran.stderr, 300));
    println!("model op: {} {} {}", fmt.op(), hex(&new_doc), parts[2]);
    let _ = std::fs::remove_dir_all(&root);
    match &ran.results {
        Some(rs) => {
            let failing = rs.iter().any(|(_, k)| k != "success" && k != "skipped");
            ran.code == if failing { 50 } else { 0 }
        }
        None => ran.code == 1,
    }
}

