//! C17: configuration survives render -> parse.
//! (a) model `toOneLiner` == real `to_yaml_one_liner` byte for byte; model `formatDuration` /
//!     `parseDuration` == humantime; (b) direct oracle on the real code:
//!     `serde_yaml::from_str(to_yaml_one_liner(c)) == c`, independent of the model;
//! (c) model `parseFlow` == `serde_yaml::from_str::<TestCaseConfig>` on rendered and on
//!     grammar-generated flow mappings (serde_yaml/libyaml themselves are trusted);
//! front-matter (`serde_yaml::to_string(&DocumentConfig)` -> `from_str`) and the code-fence
//! embedding (`MarkdownTestCaseGenerator` -> `MarkdownParser`) are oracle-only, and so is the front-matter
//! on its way through `MarkdownParser::parse` (stream `frontmatter-through-parser`).
use crate::common::*;
use scrut::config::{DocumentConfig, OutputStreamControl, TestCaseConfig, TestCaseWait};
use scrut::escaping::Escaper;
use scrut::expectation::ExpectationMaker;
use scrut::generators::generator::TestCaseGenerator;
use scrut::generators::markdown::MarkdownTestCaseGenerator;
use scrut::outcome::Outcome;
use scrut::output::{ExitStatus, Output};
use scrut::parsers::markdown::{MarkdownParser, DEFAULT_MARKDOWN_LANGUAGES};
use scrut::parsers::parser::{Parser, ParserType};
use scrut::rules::registry::RuleRegistry;
use scrut::testcase::TestCase;
use std::collections::BTreeMap;
use std::path::PathBuf;
use std::sync::Arc;
use std::time::Duration;

fn keep(prop: &str, v: Vec<(String, String)>) -> Vec<(String, String)> {
    v.into_iter().filter(|(c, _)| c.starts_with(prop)).collect()
}

/// at most `n` characters of `s`, with the full length when something was cut
fn short(s: &str, n: usize) -> String {
    let total = s.chars().count();
    if total <= n {
        s.to_string()
    } else {
        format!("{}…[{} chars]", s.chars().take(n).collect::<String>(), total)
    }
}

fn hx(s: &str) -> String {
    hex(s.as_bytes())
}

fn show_dur(d: &Duration) -> String {
    format!("{}.{}", d.as_secs(), d.subsec_nanos())
}

fn ob(v: Option<bool>) -> String {
    match v {
        Some(true) => "1".into(),
        Some(false) => "0".into(),
        None => "-".into(),
    }
}

pub fn show_cfg(c: &TestCaseConfig) -> String {
    let os = match c.output_stream {
        Some(OutputStreamControl::Stdout) => "stdout",
        Some(OutputStreamControl::Stderr) => "stderr",
        Some(OutputStreamControl::Combined) => "combined",
        None => "-",
    };
    let w = match &c.wait {
        None => "-".to_string(),
        Some(w) => format!(
            "{}/{}",
            show_dur(&w.timeout),
            match &w.path {
                None => "-".to_string(),
                Some(p) => format!("P:{}", hx(&p.to_string_lossy())),
            }
        ),
    };
    let env = if c.environment.is_empty() { "-".to_string() } else { c.environment.iter().map(|(k, v)| format!("{}={}", hx(k), hx(v))).collect::<Vec<_>>().join(",") };
    format!(
        "{};{};{};{};{};{};{};{}",
        os,
        ob(c.keep_crlf),
        c.timeout.as_ref().map(show_dur).unwrap_or("-".into()),
        ob(c.detached),
        c.skip_document_code.map(|v| v.to_string()).unwrap_or("-".into()),
        ob(c.strip_ansi_escaping),
        w,
        env
    )
}

fn is_break(c: char) -> bool {
    matches!(c, '\n' | '\r' | '\u{85}' | '\u{2028}' | '\u{2029}')
}
fn readable(c: char) -> bool {
    let n = c as u32;
    n == 9 || n == 10 || n == 13 || (0x20..=0x7e).contains(&n) || n == 0x85 || (0xa0..=0xd7ff).contains(&n) || (0xe000..=0xfffd).contains(&n) || (0x10000..=0x10ffff).contains(&n)
}

fn cfg_strings(c: &TestCaseConfig) -> Vec<String> {
    let mut v: Vec<String> = vec![];
    for (k, val) in &c.environment {
        v.push(k.clone());
        v.push(val.clone());
    }
    if let Some(w) = &c.wait {
        if let Some(p) = &w.path {
            v.push(p.to_string_lossy().to_string());
        }
    }
    v
}

/// canonical result of the real `serde_yaml::from_str::<TestCaseConfig>`
fn real_parse(text: &str) -> (String, Option<TestCaseConfig>) {
    let r = guarded(|| serde_yaml::from_str::<TestCaseConfig>(text));
    match r {
        Ok(Ok(c)) => (format!("ok {}", show_cfg(&c)), Some(c)),
        Ok(Err(_)) => ("err".into(), None),
        Err(_) => ("crash".into(), None),
    }
}

fn parseflow_rec(prop: &str, text: &str, tags: Vec<String>, nontrivial: bool, fails: Vec<(String, String)>) -> CaseRec {
    let impl_out = if text.chars().any(is_break) { "outside".to_string() } else { real_parse(text).0 };
    let mut tags = tags;
    tags.push(format!("parseflow:{}", impl_out.split(' ').next().unwrap_or("")));
    CaseRec { op: format!("parseflow {}", hx(text)), impl_out, oracle_fail: keep(prop, fails), nontrivial, tags }
}

/// the direct oracle (b): real render, real parse, equality; classifies the failure
fn oracle_one_liner(c: &TestCaseConfig) -> Vec<(String, String)> {
    let mut fails = vec![];
    let line = match guarded(|| c.to_yaml_one_liner()) {
        Ok(l) => l,
        Err(e) => return vec![("C17:render-panic".into(), format!("to_yaml_one_liner panicked: {e}"))],
    };
    let (shown, back) = real_parse(&line);
    if back.as_ref() != Some(c) {
        let strs = cfg_strings(c);
        let class = if strs.iter().any(|s| s.chars().any(|ch| !readable(ch))) {
            "C17:not-yaml-readable"
        } else if strs.iter().any(|s| s.chars().any(is_break)) {
            "C17:line-break-char"
        } else if c.environment.keys().any(|k| k.len() > 1000) {
            "C17:long-key"
        } else {
            "C17:one-liner-roundtrip"
        };
        fails.push((class.to_string(), format!("config {} renders as {} and reads back as {}", short(&show_cfg(c), 80), short(&format!("{line:?}"), 90), short(&shown, 80))));
    }
    fails
}

/// two records per config: `oneliner` (rendering) and `parseflow` (reading the real rendering)
fn cfg_rec(prop: &str, c: &TestCaseConfig, which: u64, tag: &str) -> CaseRec {
    let line = guarded(|| c.to_yaml_one_liner()).unwrap_or_else(|_| "<panic>".into());
    let nkeys = [c.output_stream.is_some(), c.keep_crlf.is_some(), c.timeout.is_some(), c.detached.is_some(), c.skip_document_code.is_some(), c.strip_ansi_escaping.is_some(), c.wait.is_some(), !c.environment.is_empty()].iter().filter(|b| **b).count();
    let tags = vec![tag.to_string(), format!("keys:{nkeys}")];
    if which == 0 {
        CaseRec { op: format!("oneliner {}", show_cfg(c)), impl_out: hx(&line), oracle_fail: keep(prop, oracle_one_liner(c)), nontrivial: nkeys >= 2 || !c.environment.is_empty() || c.wait.is_some(), tags }
    } else {
        parseflow_rec(prop, &line, tags, nkeys >= 1, vec![])
    }
}

const STRINGS: &[&str] = &[
    "a", "", " a", "a ", "\"", "\\", "\\\"", ":", "a: b", "a:b", "{", "}", "{}", ",", "a, b", "#", " #", "a #b", "é", "\t", "\n", "x\ny", "\r", "true", "True", "TRUE", "false", "1", "-1",
    "~", "null", "Null", "no", "Yes", "Y", "n", "on", "OFF", "-", "-x", "a-b", "/p/q.r", "_x", ".x", "0x1f", "1.5", "`", "```", "'", "it's", "\u{0}", "\u{1}", "\u{1b}", "\u{1f}", "\u{a0}", "\u{feff}", "\u{1F600}", "\u{fffd}", "%", "@", "&a", "*a", "!t", "|", ">", "?", "[", "]", "path", "timeout", "a\\nb", "\\u0041",
    // characters the YAML reader rejects / folds as line breaks (escaped as \uXXXX since fix d9da776)
    "\u{7f}", "\u{80}", "\u{9f}", "\u{fffe}", "\u{ffff}", "\u{85}", "x\u{85}y", "\u{2028}", " \u{2028} ", "\u{2029}",
    // format characters (Cf) in and above the BMP: zero width joiner, soft hyphen, bidi override, emoji tag sequence
    // (flag of England), musical beam control, a supplementary-plane shorthand control
    "a\u{200d}b", "co\u{ad}op", "\u{202e}x", "\u{1F3F4}\u{E0067}\u{E0062}\u{E0065}\u{E006E}\u{E0067}\u{E007F}", "\u{1D173}7", "\u{110BD}", "\u{1BCA0}x",
];

const CHARS: &[char] = &['a', 'Z', '0', '9', ' ', '"', '\\', ':', '{', '}', ',', '#', 'é', '\t', '\n', '-', '_', '.', '/', '~', '\'', '`', '\u{1}', '\u{1F600}', 'n', 'u', 'x'];
const RARE_CHARS: &[char] = &['\u{7f}', '\u{85}', '\u{2028}', '\u{9b}', '\u{ffff}', '\r', '\u{0}', '\u{200d}', '\u{E0067}', '\u{1D173}', '\u{10FFFF}'];

fn dur_boundaries() -> Vec<(u64, u32)> {
    let mut v = vec![(0u64, 0u32), (0, 1), (0, 999), (0, 1000), (0, 1001), (0, 999_999), (0, 1_000_000), (0, 1_000_001), (0, 999_999_999), (0, 500_000_000)];
    let units: [u64; 6] = [1, 60, 3600, 86400, 2_630_016, 31_557_600];
    for u in units {
        for m in [1u64, 2, 3] {
            for d in [-1i64, 0, 1] {
                let s = (u * m) as i64 + d;
                if s >= 0 {
                    v.push((s as u64, 0));
                }
            }
        }
    }
    v.push((59, 999_999_999));
    v.push((3599, 0));
    v.push((86399, 1_000));
    v.push((2_630_016 + 86400, 0));
    v.push((2_630_015, 0));
    v.push((31_557_600 - 1, 999_999_999));
    v.push((31_557_600 + 2_630_016 + 86400 + 3600 + 60 + 1, 1_001_001));
    v.push((u64::MAX, 0));
    v.push((u64::MAX, 999_999_999));
    v.push((u64::MAX - 1, 1));
    v.push((u64::MAX / 2, 123_456_789));
    v.push((900, 0));
    v.push((1u64 << 32, 0));
    v.push((1u64 << 63, 7));
    v
}

fn rand_dur(r: &mut Rng) -> (u64, u32) {
    let secs = match r.below(6) {
        0 => 0,
        1 => r.below(120),
        2 => r.below(100_000),
        3 => r.below(100_000_000),
        4 => r.next() >> r.below(40),
        _ => r.next(),
    };
    let nanos = match r.below(5) {
        0 => 0,
        1 => (r.below(1000) * 1_000_000) as u32,
        2 => (r.below(1_000_000) * 1000) as u32,
        _ => r.below(1_000_000_000) as u32,
    };
    (secs, nanos)
}

fn dur_recs(prop: &str, secs: u64, nanos: u32, which: u64, tag: &str) -> CaseRec {
    let d = Duration::new(secs, nanos);
    let text = humantime::format_duration(d).to_string();
    let mut fails = vec![];
    let back = guarded(|| humantime::parse_duration(&text));
    if !matches!(&back, Ok(Ok(b)) if *b == d) {
        fails.push(("C17:duration-roundtrip".to_string(), format!("{secs}s {nanos}ns formats as {text:?} and parses as {back:?}")));
    }
    let nparts = text.split(' ').count();
    let tags = vec![tag.to_string(), format!("dur-parts:{nparts}")];
    if which == 0 {
        CaseRec { op: format!("durfmt {secs} {nanos}"), impl_out: hx(&text), oracle_fail: keep(prop, fails), nontrivial: nparts >= 2, tags }
    } else {
        durparse_rec(&text, tags, nparts >= 2)
    }
}

fn durparse_rec(text: &str, mut tags: Vec<String>, nontrivial: bool) -> CaseRec {
    let impl_out = match guarded(|| humantime::parse_duration(text)) {
        Ok(Ok(d)) => format!("ok {}", show_dur(&d)),
        Ok(Err(_)) => "err".to_string(),
        Err(_) => "crash".to_string(),
    };
    tags.push(format!("durparse:{}", impl_out.split(' ').next().unwrap_or("")));
    CaseRec { op: format!("durparse {}", hx(text)), impl_out, oracle_fail: vec![], nontrivial, tags }
}

const DUR_TOKENS: &[&str] = &[
    "0", "1", "2", "9", "10", "59", "60", "999", "1000", "18446744073709551615", "18446744073709551616", "584542046090", "584542046091", "1000000000", "999999999", "00", "s", "m", "h", "d", "w", "M", "y", "ms", "us", "ns", "µs", "sec", "secs", "min", "mins", "hr", "hours", "day", "days", "week", "month", "months", "year", "years", "yrs", "nanos", "millis", "usec", "x", "S", " ", "  ", "\t", "\u{a0}", ".", ".5", ".25", ".000000001", ".0", "-", "+", "é", "_",
];

fn rand_dur_text(r: &mut Rng) -> String {
    let n = r.range(0, 6);
    let mut s = String::new();
    for _ in 0..n {
        s.push_str(*r.pick(DUR_TOKENS));
    }
    s
}

fn rand_string(r: &mut Rng) -> String {
    match r.below(4) {
        0 => r.pick(STRINGS).to_string(),
        _ => {
            let n = r.range(0, 6);
            (0..n).map(|_| if r.chance(1, 40) { *r.pick(RARE_CHARS) } else { *r.pick(CHARS) }).collect()
        }
    }
}

fn rand_name(r: &mut Rng) -> String {
    match r.below(3) {
        0 => ["FOO", "BAR", "a", "_x", "PATH", "x.y", "A-B", "/k"][r.below(8) as usize].to_string(),
        1 => r.pick(STRINGS).to_string(),
        _ => rand_string(r),
    }
}

fn rand_cfg(r: &mut Rng) -> TestCaseConfig {
    let b = |r: &mut Rng| if r.chance(1, 2) { Some(r.chance(1, 2)) } else { None };
    let d = |r: &mut Rng| {
        let (s, n) = if r.chance(1, 3) { *r.pick(&dur_boundaries()) } else { rand_dur(r) };
        Duration::new(s, n)
    };
    let mut c = TestCaseConfig::default();
    if r.chance(1, 2) {
        c.output_stream = Some([OutputStreamControl::Stdout, OutputStreamControl::Stderr, OutputStreamControl::Combined][r.below(3) as usize].clone());
    }
    c.keep_crlf = b(r);
    c.detached = b(r);
    c.strip_ansi_escaping = b(r);
    if r.chance(1, 2) {
        c.timeout = Some(d(r));
    }
    if r.chance(1, 2) {
        c.skip_document_code = Some(match r.below(6) {
            0 => 0,
            1 => -1,
            2 => i32::MIN,
            3 => i32::MAX,
            4 => r.below(256) as i32,
            _ => r.next() as i32,
        });
    }
    if r.chance(1, 2) {
        c.wait = Some(TestCaseWait { timeout: d(r), path: if r.chance(2, 3) { Some(PathBuf::from(rand_name(r))) } else { None } });
    }
    if r.chance(2, 3) {
        for _ in 0..r.range(1, 3) {
            c.environment.insert(rand_name(r), rand_string(r));
        }
    }
    c
}

/// config number `idx` of the exhaustive key-subset scope: 256 subsets x 3 value variants
fn subset_cfg(idx: u64) -> TestCaseConfig {
    let mask = idx % 256;
    let var = (idx / 256) as usize;
    let durs = [Duration::from_secs(234), Duration::new(0, 0), Duration::new(u64::MAX, 999_999_999)];
    let mut c = TestCaseConfig::default();
    if mask & 1 != 0 {
        c.output_stream = Some([OutputStreamControl::Stdout, OutputStreamControl::Stderr, OutputStreamControl::Combined][var].clone());
    }
    if mask & 2 != 0 {
        c.keep_crlf = Some(var == 0);
    }
    if mask & 4 != 0 {
        c.timeout = Some(durs[var]);
    }
    if mask & 8 != 0 {
        c.detached = Some(var != 0);
    }
    if mask & 16 != 0 {
        c.skip_document_code = Some([123, -1, i32::MIN][var]);
    }
    if mask & 32 != 0 {
        c.strip_ansi_escaping = Some(var == 1);
    }
    if mask & 64 != 0 {
        c.wait = Some(TestCaseWait { timeout: durs[(var + 1) % 3], path: [Some(PathBuf::from("/tmp/wait")), None, Some(PathBuf::from("a b: {c}, \"d\" #e"))][var].clone() });
    }
    if mask & 128 != 0 {
        c.environment = match var {
            0 => BTreeMap::from([("foo".to_string(), "bar".to_string())]),
            1 => BTreeMap::from([("A".to_string(), "".to_string()), ("true".to_string(), "x: {y}, \"z\" \\ #c é\t\n".to_string())]),
            _ => BTreeMap::from([("".to_string(), " ".to_string()), ("a b".to_string(), "~".to_string()), ("Z".to_string(), "null".to_string())]),
        };
    }
    c
}

/// config number `idx` of the string-position scope
fn string_cfg(idx: u64) -> TestCaseConfig {
    let n = STRINGS.len() as u64;
    let mut c = TestCaseConfig::default();
    if idx < n {
        c.environment.insert("K".into(), STRINGS[idx as usize].into());
    } else if idx < 2 * n {
        c.environment.insert(STRINGS[(idx - n) as usize].into(), "v".into());
    } else if idx < 3 * n {
        c.wait = Some(TestCaseWait { timeout: Duration::from_secs(1), path: Some(PathBuf::from(STRINGS[(idx - 2 * n) as usize])) });
    } else {
        let j = idx - 3 * n;
        c.environment.insert(STRINGS[(j / n) as usize].into(), STRINGS[(j % n) as usize].into());
        c.environment.insert("M".into(), "m".into());
    }
    c
}

const FLOW_KEYS: &[&str] = &["output_stream", "keep_crlf", "timeout", "detached", "skip_document_code", "strip_ansi_escaping", "wait", "environment", "unknown", "\"keep_crlf\"", "\"wait\"", "K", "Timeout"];
const FLOW_VALUES: &[&str] = &[
    "true", "True", "TRUE", "false", "False", "yes", "~", "null", "Null", "", "1", "-5", "+7", "007", "0", "2147483647", "2147483648", "-2147483648", "-2147483649", "80", "stdout", "\"stderr\"", "combined", "Stdout", "bogus",
    "3m 4s", "\"1h\"", "0s", "1.5s", "5", "1e3", "1.5", ".5", "-.5", "1.", ".inf", ".nan", "\"\"", "\"null\"", "\"true\"", "\"5\"", "1h 2m 3s 4ms 5us 6ns", "1year 2months 3days", "1 h", "2w", "1s1s", "999999999999999999999s",
    "{timeout: 1s}", "{timeout: 2s, path: /x}", "{timeout: 1s, path: ~}", "{timeout: 1s, path: \"~\"}", "{timeout: 1s, path: \"a b\"}", "{path: x}", "{timeout: 1s, timeout: 2s}", "{timeout: 1s, other: 3}", "{timeout: null}", "{timeout: \"3s\", path: true}",
    "{A: b, \"C\": \"d\\n\\u00e9\\x41\"}", "{A: 1, A: 2}", "{}", "{ }", "{a: true, b: ~, c: 1.0, d: }", "{A: \"\\\"\\\\\\/\\b\\f\\n\\r\\t\\0\\a\\v\\e\\ \\_\"}", "{A: \"\\U0001F600\"}", "{A: \"\\ud800\"}", "{A: \"\\uD83D\\uDE00\"}", "{A: \"\\q\"}", "{A: \"x}", "{A: \"a\tb\"}", "{A: b c , D:  e  }", "{A: -}", "{A: - x}", "{A: -x}", "{\"A\":\"b\"}", "{\"A\":b}", "{A:}",
    "a b", "a#b", "a #b", "a:b", "a: b", "x y  z", "é", "@x", "`x", "|", "%x", "-", "- 1", "?", "? x", "a?", ":x"
];

fn rand_flow(r: &mut Rng) -> String {
    let mut s = String::new();
    if r.chance(1, 10) {
        s.push_str(if r.chance(1, 2) { " " } else { "\t" });
    }
    s.push('{');
    if r.chance(1, 8) {
        s.push(' ');
    }
    let n = r.range(0, 4);
    for i in 0..n {
        let key_sel = r.below(10);
        let key: &str = if key_sel < 7 { FLOW_KEYS[r.below(8) as usize] } else { *r.pick(FLOW_KEYS) };
        s.push_str(key);
        s.push_str(match r.below(8) {
            0 => ":  ",
            1 => " : ",
            2 => ":\t",
            _ => ": ",
        });
        // mostly values that fit the key's type, sometimes anything
        let v: &str = if r.chance(1, 4) {
            *r.pick(FLOW_VALUES)
        } else {
            match key.trim_matches('"') {
                "keep_crlf" | "detached" | "strip_ansi_escaping" => ["true", "false", "True", "FALSE", "~", "yes", "\"true\"", "1", ""][r.below(9) as usize],
                "output_stream" => ["stdout", "stderr", "combined", "\"stdout\"", "Stdout", "~", ""][r.below(7) as usize],
                "skip_document_code" => ["0", "80", "-1", "+7", "007", "2147483647", "2147483648", "-2147483648", "~", "\"5\"", "1.0", "x"][r.below(12) as usize],
                "timeout" => ["3m 4s", "0s", "\"1h\"", "1.5s", "null", "\"\"", "~", "", "5", "1h 2m 3s 4ms 5us 6ns", "1year 2months 3days", "1 h", "0"][r.below(13) as usize],
                "wait" => ["3m 4s", "\"1h\"", "5", "1.5", "true", "~", "0s", "{timeout: 1s}", "{timeout: 2s, path: /x}", "{timeout: 1s, path: ~}", "{path: x}", "{timeout: 1s, timeout: 2s}", "{timeout: 1s, path: \"a b\"}", "{timeout: 1s, other: 3}", "1e3", ".5", "1 h"][r.below(17) as usize],
                "environment" => ["{A: b, \"C\": \"d\\n\\u00e9\\x41\"}", "{A: 1, A: 2}", "{}", "{a: true, b: ~, c: 1.0, d: }", "{A: b c , D:  e  }", "{\"A\":\"b\"}", "{A: \"\\U0001F600\"}", "x", "~", "{A: -x}"][r.below(10) as usize],
                _ => *r.pick(FLOW_VALUES),
            }
        };
        s.push_str(v);
        if i + 1 < n {
            s.push_str(match r.below(8) {
                0 => ",",
                1 => " , ",
                2 => ",  ",
                _ => ", ",
            });
        } else if r.chance(1, 10) {
            s.push_str(", ");
        }
    }
    if r.chance(1, 30) {
        return s; // unterminated
    }
    s.push('}');
    if r.chance(1, 10) {
        s.push_str(if r.chance(1, 2) { " " } else { "x" });
    }
    s
}

fn document_config(r: &mut Rng) -> DocumentConfig {
    let mut d = DocumentConfig::default();
    let paths = |r: &mut Rng| -> Vec<PathBuf> { (0..r.range(0, 2)).map(|_| PathBuf::from(rand_name(r))).collect() };
    d.append = paths(r);
    d.prepend = paths(r);
    if r.chance(1, 2) {
        d.shell = Some(PathBuf::from(rand_name(r)));
    }
    d.total_timeout = match r.below(5) {
        0 => None,
        1 => Some(Duration::from_secs(900)),
        2 => Some(Duration::new(900, 5)),
        _ => {
            let (s, n) = rand_dur(r);
            Some(Duration::new(s, n))
        }
    };
    if r.chance(2, 3) {
        d.defaults = rand_cfg(r);
    }
    d
}

/// front-matter: oracle only (the block emitter of serde_yaml is not modelled)
fn frontmatter_case(prop: &str, d: &DocumentConfig) -> CaseRec {
    let mut fails = vec![];
    let mut tag = "fm:equal";
    let tt = d.total_timeout.unwrap_or(Duration::ZERO);
    match guarded(|| serde_yaml::to_string(d)) {
        Ok(Ok(y)) => match guarded(|| serde_yaml::from_str::<DocumentConfig>(&y)) {
            Ok(Ok(back)) => {
                if back != *d {
                    // equal apart from a dropped default total_timeout?
                    let mut patched = back.clone();
                    patched.total_timeout = d.total_timeout;
                    if patched == *d && d.total_timeout.map(|t| t.as_secs()) == Some(900) && back.total_timeout.is_none() {
                        // after the parsers' `default_markdown()/default_cram().with_overrides_from(parsed)` the value is 900 s again
                        let eff = DocumentConfig::default_markdown().with_overrides_from(&back);
                        let eff0 = DocumentConfig::default_markdown().with_overrides_from(d);
                        if eff == eff0 {
                            tag = "fm:default-total-timeout-dropped-but-effective-equal";
                        } else {
                            tag = "fm:default-total-timeout-subsecond-lost";
                            fails.push(("C17:default-total-timeout-not-serialised".to_string(), format!("total_timeout {:?} is not serialised; effective value after layering is {:?}", d.total_timeout, eff.total_timeout)));
                        }
                    } else {
                        let strs: Vec<String> = d.append.iter().chain(d.prepend.iter()).chain(d.shell.iter()).map(|p| p.to_string_lossy().to_string()).chain(cfg_strings(&d.defaults)).collect();
                        let class = if strs.iter().any(|s| s.chars().any(|ch| !readable(ch) || is_break(ch))) { "C17:front-matter-special-chars" } else { "C17:front-matter-roundtrip" };
                        tag = "fm:differs";
                        fails.push((class.to_string(), format!("{} serialises as {} and reads back as {}", short(&format!("{d:?}"), 90), short(&format!("{y:?}"), 90), short(&format!("{back:?}"), 90))));
                    }
                }
            }
            other => {
                tag = "fm:unreadable";
                fails.push(("C17:front-matter-roundtrip".to_string(), format!("{} serialises as {} which does not parse: {}", short(&format!("{d:?}"), 90), short(&format!("{y:?}"), 90), short(&format!("{:?}", other.map(|r| r.map(|_| ()).map_err(|e| e.to_string()))), 90))));
            }
        },
        _ => {
            tag = "fm:unserialisable";
            fails.push(("C17:front-matter-roundtrip".to_string(), format!("{} cannot be serialised", short(&format!("{d:?}"), 200))));
        }
    }
    CaseRec { op: format!("durfmt {} {}", tt.as_secs(), tt.subsec_nanos()), impl_out: hx(&humantime::format_duration(tt).to_string()), oracle_fail: keep(prop, fails), nontrivial: !d.defaults.is_empty(), tags: vec![tag.to_string()] }
}

/// strings whose YAML block form is a block scalar that ends in a line break (`|`, `|+`, with or without indentation
/// indicator)
const NL_STRINGS: &[&str] = &["hello\n", "a\nb\n", "x\n\n", "\n", " lead\n", "tab\there\n", "é\n", "#c\n", "a: b\n", "- x\n", "/bin/sh\n", "---\n", "a\n\nb\n", "```\n"];

/// document configurations for the stream `frontmatter-through-parser`: a string that ends in a line break (rendered
/// as a block scalar) in every position a string can have - as the textually last entry of the front-matter
/// (`total_timeout` = the default, which is not written; nothing behind it) and not last - plus the random configurations of `front-matter-oracle`
fn fm_parser_config(r: &mut Rng, idx: u64) -> (DocumentConfig, String) {
    let s = |r: &mut Rng| r.pick(NL_STRINGS).to_string();
    let mut d = DocumentConfig::default();
    let shape = idx % 12;
    let tag = match shape {
        0 => {
            d.shell = Some(PathBuf::from(s(r)));
            "shell-last"
        }
        1 => {
            if r.chance(1, 2) {
                d.prepend.push(PathBuf::from(rand_name(r)));
            }
            d.prepend.push(PathBuf::from(s(r)));
            "prepend-last"
        }
        2 => {
            d.defaults.wait = Some(TestCaseWait { timeout: Duration::from_secs(r.range(1, 90) as u64), path: Some(PathBuf::from(s(r))) });
            "wait-path-last"
        }
        3 => {
            if r.chance(1, 2) {
                d.defaults.environment.insert("A".into(), rand_string(r));
            }
            d.defaults.environment.insert("MSG".into(), s(r));
            "environment-last"
        }
        4 => {
            d.append.push(PathBuf::from(s(r)));
            "append-last"
        }
        5 => {
            d.shell = Some(PathBuf::from(s(r)));
            d.total_timeout = Some(Duration::from_secs(300));
            "shell-not-last"
        }
        6 => {
            d.defaults.environment.insert("MSG".into(), s(r));
            d.defaults.environment.insert("Z".into(), "z".into());
            if r.chance(1, 2) {
                d.shell = Some(PathBuf::from("/bin/sh"));
            }
            "environment-not-last"
        }
        7 => {
            d.prepend.push(PathBuf::from(s(r)));
            d.prepend.push(PathBuf::from("setup.md"));
            "prepend-not-last"
        }
        8 => {
            d.defaults.wait = Some(TestCaseWait { timeout: Duration::from_secs(2), path: Some(PathBuf::from(s(r))) });
            d.shell = Some(PathBuf::from("bash"));
            "wait-path-not-last"
        }
        9 => {
            // a random configuration whose last string ends in a line break
            d = document_config(r);
            d.shell = Some(PathBuf::from(format!("{}\n", rand_string(r).replace('\r', ""))));
            "random-shell-last"
        }
        _ => {
            d = document_config(r);
            "random"
        }
    };
    // `total_timeout: None` is written as `total_timeout: 'null'` (behind everything else); only the default of 900 s is
    // not written at all: that is how a string gets to be the textually last entry of what scrut renders
    if tag.ends_with("-last") && !tag.ends_with("not-last") {
        d.total_timeout = Some(Duration::from_secs(900));
    }
    (d, tag.to_string())
}

fn fm_document(yaml: &str) -> String {
    format!("---\n{yaml}---\n\n# t\n\n```scrut\n$ true\n```\n")
}

/// what `MarkdownParser::parse` returns as the document configuration of the document that carries `yaml` as its
/// front-matter
fn fm_through_parser(yaml: &str) -> Result<DocumentConfig, String> {
    let doc = fm_document(yaml);
    let parser = MarkdownParser::new(Arc::new(ExpectationMaker::new(RuleRegistry::default())), DEFAULT_MARKDOWN_LANGUAGES, None);
    match guarded(|| parser.parse(&doc).map(|(d, ts)| (d, ts.len())).map_err(|e| format!("{e:#}"))) {
        Ok(Ok((d, 1))) => Ok(d),
        Ok(Ok((_, n))) => Err(format!("{n} tests instead of one")),
        Ok(Err(e)) => Err(e),
        Err(p) => Err(format!("panic: {p}")),
    }
}

/// is the textually last entry of the YAML text a block scalar (`key: |…` / `- |…` followed by nothing but its lines)?
fn last_entry_is_block_scalar(yaml: &str) -> bool {
    let lines: Vec<&str> = yaml.lines().collect();
    let is_head = |l: &str| {
        let t = l.trim_end();
        let ind = t.rsplit(|c| c == ' ').next().unwrap_or("");
        (ind.starts_with('|') || ind.starts_with('>')) && ind.len() <= 3 && (t.contains(": ") || t.trim_start().starts_with("- "))
    };
    match (0..lines.len()).rev().find(|i| is_head(lines[*i])) {
        None => false,
        Some(h) => {
            let indent = lines[h].len() - lines[h].trim_start().len();
            lines[h + 1..].iter().all(|l| l.trim().is_empty() || l.len() - l.trim_start().len() > indent || (lines[h].trim_start().starts_with("- ") && l.len() - l.trim_start().len() >= indent + 2))
        }
    }
}

/// the front-matter as `scrut` reads it: rendered with serde_yaml, placed between `---` lines of a Markdown document,
/// read by `MarkdownParser::parse`. The configuration that comes back must be the one rendered (after the layering
/// over `default_markdown()` that `parse` applies): every string character for character, in particular the final
/// line break of a block scalar, also where it is the last entry of the front-matter.
fn frontmatter_parser_oracle(d: &DocumentConfig, yaml: &str) -> (Vec<(String, String)>, &'static str) {
    // the emitter ends a block scalar whose value ends in U+2028 / U+2029 / NEL with THAT character (a line break to
    // YAML) and writes no line feed behind it: placed in front of `---` the delimiter is not on a line of its own for
    // scrut (whose lines end at line feeds only). Such a text is no front-matter that anybody can write between two
    // `---` lines without adding a line feed, i.e. without changing the value: outside this stream (the direct
    // round trip of `front-matter-oracle` covers the value). A false alarm of the thorough tier until this guard.
    if !yaml.ends_with('\n') {
        return (vec![], "fmp:not-line-terminated");
    }
    let want = DocumentConfig::default_markdown().with_overrides_from(d);
    let class = if last_entry_is_block_scalar(yaml) { "C17:frontmatter-last-block-scalar" } else { "C17:frontmatter-through-parser" };
    match fm_through_parser(yaml) {
        Ok(got) if got == want => (vec![], "fmp:equal"),
        other => {
            // what the serialiser itself loses (reported by `front-matter-oracle`) is not the parser's doing
            let direct = guarded(|| serde_yaml::from_str::<DocumentConfig>(yaml).ok()).unwrap_or(None).map(|b| DocumentConfig::default_markdown().with_overrides_from(&b));
            if let (Ok(got), Some(direct)) = (&other, &direct) {
                if got == direct {
                    return (vec![], "fmp:serialiser-differs");
                }
            }
            let shown = match &other {
                Ok(got) => format!("reads back as {}", short(&format!("{got:?}"), 160)),
                Err(e) => format!("is not read: {}", short(e, 160)),
            };
            (vec![(class.to_string(), format!("{} rendered as front-matter {} {}", short(&format!("{d:?}"), 160), short(&format!("{yaml:?}"), 120), shown))], "fmp:differs")
        }
    }
}

fn frontmatter_parser_case(prop: &str, d: &DocumentConfig, shape: &str) -> CaseRec {
    match guarded(|| serde_yaml::to_string(d)) {
        Ok(Ok(y)) => {
            let (fails, tag) = frontmatter_parser_oracle(d, &y);
            let tags = vec![tag.to_string(), format!("fmp:shape={shape}"), format!("fmp:last-entry-block-scalar={}", last_entry_is_block_scalar(&y))];
            CaseRec { op: format!("oracle-only fmparse {}", hx(&y)), impl_out: "oracle-only".into(), oracle_fail: keep(prop, fails), nontrivial: y.len() > 3, tags }
        }
        _ => CaseRec { op: "oracle-only fmparse -".into(), impl_out: "oracle-only".into(), oracle_fail: vec![], nontrivial: false, tags: vec!["fmp:unserialisable".into()] },
    }
}

/// `MarkdownTestCaseGenerator` -> `MarkdownParser`: the config placed on the fence line comes back
fn fence_case(prop: &str, c: &TestCaseConfig) -> CaseRec {
    let base = TestCaseConfig::default_markdown();
    let full = c.with_defaults_from(&base);
    let mut fails = vec![];
    let mut tag = "fence:equal".to_string();
    let doc = guarded(|| {
        let tc = TestCase { title: "T".into(), shell_expression: "echo hi".into(), expectations: vec![], exit_code: None, line_number: 1, config: full.clone() };
        let outcome = Outcome { location: None, output: Output { stdout: "hi\n".into(), stderr: "".into(), exit_code: ExitStatus::Code(0) }, testcase: tc, format: ParserType::Markdown, escaping: Escaper::default(), result: Ok(()) };
        MarkdownTestCaseGenerator::default().generate_testcases(&[&outcome])
    });
    let line = guarded(|| full.diff(&base).to_yaml_one_liner()).unwrap_or_default();
    match doc {
        Ok(Ok(doc)) => {
            let parser = MarkdownParser::new(Arc::new(ExpectationMaker::new(RuleRegistry::default())), DEFAULT_MARKDOWN_LANGUAGES, None);
            match guarded(|| parser.parse(&doc)) {
                Ok(Ok((_, tcs))) => {
                    if tcs.len() != 1 || tcs[0].config != full {
                        // only report here what the one-liner itself reads back correctly: the embedding is at fault
                        let one_ok = oracle_one_liner(&full.diff(&base)).is_empty();
                        tag = if one_ok { "fence:differs".into() } else { "fence:one-liner-defect".into() };
                        if one_ok {
                            fails.push(("C17:fence-embedding".to_string(), format!("config {} embedded as {} comes back as {}", short(&show_cfg(&full), 80), short(&format!("{doc:?}"), 90), short(&format!("{:?}", tcs.iter().map(|t| show_cfg(&t.config)).collect::<Vec<_>>()), 80))));
                        }
                    }
                }
                other => {
                    let one_ok = oracle_one_liner(&full.diff(&base)).is_empty();
                    tag = if one_ok { "fence:unparsable".into() } else { "fence:one-liner-defect".into() };
                    if one_ok {
                        fails.push(("C17:fence-embedding".to_string(), format!("config {} embedded as {} does not parse: {}", short(&show_cfg(&full), 80), short(&format!("{doc:?}"), 90), short(&format!("{:?}", other.map(|r| r.map(|_| ()).map_err(|e| format!("{e:#}")))), 80))));
                    }
                }
            }
        }
        other => {
            tag = "fence:generator-failed".into();
            fails.push(("C17:fence-embedding".to_string(), format!("generator failed for {}: {}", short(&show_cfg(&full), 100), short(&format!("{:?}", other.map(|r| r.map(|_| ()).map_err(|e| e.to_string()))), 150))));
        }
    }
    parseflow_rec(prop, &line, vec![tag], !full.diff(&base).is_empty(), fails)
}

pub fn run(ctx: &Ctx, prop: &str) {
    let bounds = dur_boundaries();
    let nb = bounds.len() as u64;
    ctx.run_stream("duration-boundaries-exhaustive", 2 * nb, true, |idx| {
        let (s, n) = bounds[(idx / 2) as usize];
        Some(dur_recs(prop, s, n, idx % 2, "dur:boundary"))
    });
    let n = if ctx.thorough { 400_000 } else { 30_000 };
    ctx.run_stream("duration-random", n, false, |idx| {
        let mut r = Rng::fork(ctx.seed, 1701, idx / 2);
        let (s, ns) = rand_dur(&mut r);
        Some(dur_recs(prop, s, ns, idx % 2, "dur:random"))
    });
    let n = if ctx.thorough { 400_000 } else { 30_000 };
    ctx.run_stream("duration-text-malformed", n, false, |idx| {
        let mut r = Rng::fork(ctx.seed, 1702, idx);
        let t = rand_dur_text(&mut r);
        Some(durparse_rec(&t, vec!["dur:text".into()], t.len() > 2))
    });
    ctx.run_stream("key-subsets-exhaustive", 2 * 768, true, |idx| Some(cfg_rec(prop, &subset_cfg(idx / 2), idx % 2, "cfg:subset")));
    let ns = STRINGS.len() as u64;
    ctx.run_stream("string-positions-exhaustive", 2 * (3 * ns + ns * ns), true, |idx| Some(cfg_rec(prop, &string_cfg(idx / 2), idx % 2, "cfg:strings")));
    ctx.run_stream("long-names-exhaustive", 2 * 8 * 4 * 2, true, |idx| {
        let j = idx / 2;
        let len = 1020 + (j % 8) as usize;
        let kind = (j / 8) % 4;
        let name = match kind {
            0 => "a".repeat(len),
            1 => format!("{} ", "a".repeat(len - 1)),
            2 => "é".repeat(len / 2),
            _ => format!("{}\"", "a".repeat(len - 2)),
        };
        let mut c = TestCaseConfig::default();
        if j / 32 == 0 {
            c.environment.insert(name, "v".into());
        } else {
            c.environment.insert("K".into(), name.clone());
            c.wait = Some(TestCaseWait { timeout: Duration::from_secs(1), path: Some(PathBuf::from(name)) });
        }
        Some(cfg_rec(prop, &c, idx % 2, "cfg:long"))
    });
    let n = if ctx.thorough { 300_000 } else { 20_000 };
    ctx.run_stream("configs-random", n, false, |idx| {
        let mut r = Rng::fork(ctx.seed, 1703, idx / 2);
        Some(cfg_rec(prop, &rand_cfg(&mut r), idx % 2, "cfg:random"))
    });
    let n = if ctx.thorough { 600_000 } else { 40_000 };
    ctx.run_stream("flow-grammar-random", n, false, |idx| {
        let mut r = Rng::fork(ctx.seed, 1704, idx);
        let t = rand_flow(&mut r);
        Some(parseflow_rec(prop, &t, vec!["flow:grammar".into()], t.len() > 4, vec![]))
    });
    let n = if ctx.thorough { 100_000 } else { 8_000 };
    ctx.run_stream("front-matter-oracle", n, false, |idx| {
        let mut r = Rng::fork(ctx.seed, 1705, idx);
        Some(frontmatter_case(prop, &document_config(&mut r)))
    });
    let n = if ctx.thorough { 120_000 } else { 12_000 };
    ctx.run_stream("frontmatter-through-parser", n, false, |idx| {
        let mut r = Rng::fork(ctx.seed, 1707, idx);
        let (d, shape) = fm_parser_config(&mut r, idx);
        Some(frontmatter_parser_case(prop, &d, &shape))
    });
    let n = if ctx.thorough { 100_000 } else { 8_000 };
    ctx.run_stream("fence-embedding-oracle", n, false, |idx| {
        let c = if idx < 768 {
            subset_cfg(idx)
        } else if idx < 768 + 3 * ns {
            string_cfg(idx - 768)
        } else {
            let mut r = Rng::fork(ctx.seed, 1706, idx);
            rand_cfg(&mut r)
        };
        Some(fence_case(prop, &c))
    });
    ctx.note("serde_yaml/unsafe-libyaml are trusted: parseFlow is compared with them on rendered one-liners and on grammar-generated flow mappings; inputs containing YAML line-break characters are outside the modelled subset on both sides (canonical answer `outside`)".into());
    ctx.note("front-matter (serde_yaml block emitter) and the code-fence embedding are checked by oracle on the real code only; `frontmatter-through-parser` reads the rendered front-matter with MarkdownParser::parse (the lines between the `---` lines), with strings that end in a line break as the last entry and elsewhere".into());
}

fn unhex_str(h: &str) -> Option<String> {
    String::from_utf8(unhex(h)).ok()
}

fn parse_dur(s: &str) -> Option<Duration> {
    let (a, b) = s.split_once('.')?;
    Some(Duration::new(a.parse().ok()?, b.parse().ok()?))
}

/// inverse of `show_cfg`
fn parse_cfg(s: &str) -> Option<TestCaseConfig> {
    let f: Vec<&str> = s.split(';').collect();
    if f.len() != 8 {
        return None;
    }
    let b = |x: &str| match x {
        "1" => Some(true),
        "0" => Some(false),
        _ => None,
    };
    let mut c = TestCaseConfig::default();
    c.output_stream = match f[0] {
        "stdout" => Some(OutputStreamControl::Stdout),
        "stderr" => Some(OutputStreamControl::Stderr),
        "combined" => Some(OutputStreamControl::Combined),
        _ => None,
    };
    c.keep_crlf = b(f[1]);
    c.timeout = if f[2] == "-" { None } else { Some(parse_dur(f[2])?) };
    c.detached = b(f[3]);
    c.skip_document_code = if f[4] == "-" { None } else { Some(f[4].parse().ok()?) };
    c.strip_ansi_escaping = b(f[5]);
    if f[6] != "-" {
        let (d, p) = f[6].split_once('/')?;
        let path = if p == "-" { None } else { Some(PathBuf::from(unhex_str(p.strip_prefix("P:")?)?)) };
        c.wait = Some(TestCaseWait { timeout: parse_dur(d)?, path });
    }
    if f[7] != "-" {
        for kv in f[7].split(',') {
            let (k, v) = kv.split_once('=')?;
            c.environment.insert(unhex_str(k)?, unhex_str(v)?);
        }
    }
    Some(c)
}

pub fn replay(prop: &str, op: &str) -> bool {
    let parts: Vec<&str> = op.split(' ').collect();
    match parts.as_slice() {
        ["oneliner", cfg] => match parse_cfg(cfg) {
            Some(c) => {
                let line = c.to_yaml_one_liner();
                let (shown, back) = real_parse(&line);
                println!("config: {c:?}\nto_yaml_one_liner: {line:?}\nserde_yaml::from_str -> {shown}");
                let ok = back.as_ref() == Some(&c);
                for (class, what) in keep(prop, oracle_one_liner(&c)) {
                    println!("[{class}] {what}");
                }
                ok
            }
            None => {
                eprintln!("cannot decode config {cfg}");
                false
            }
        },
        ["parseflow", h] => {
            let text = String::from_utf8_lossy(&unhex(h)).to_string();
            let (shown, _) = real_parse(&text);
            println!("text: {text:?}\nserde_yaml::from_str::<TestCaseConfig> -> {shown}");
            false
        }
        ["durfmt", s, n] => {
            let d = Duration::new(s.parse().unwrap_or(0), n.parse().unwrap_or(0));
            let t = humantime::format_duration(d).to_string();
            let back = humantime::parse_duration(&t);
            println!("{d:?} -> {t:?} -> {back:?}");
            matches!(back, Ok(b) if b == d)
        }
        ["oracle-only", "fmparse", h] => {
            let yaml = String::from_utf8_lossy(&unhex(h)).to_string();
            let direct = guarded(|| serde_yaml::from_str::<DocumentConfig>(&yaml).ok()).unwrap_or(None);
            println!("front-matter (serde_yaml::to_string of a DocumentConfig): {yaml:?}\ndocument: {:?}", fm_document(&yaml));
            match direct {
                None => {
                    println!("serde_yaml::from_str does not read the text back");
                    false
                }
                Some(d) => {
                    println!("serde_yaml::from_str -> {d:?}\nMarkdownParser::parse  -> {:?}", fm_through_parser(&yaml));
                    let (fails, _) = frontmatter_parser_oracle(&d, &yaml);
                    for (class, what) in keep(prop, fails.clone()) {
                        println!("[{class}] {what}");
                    }
                    fails.is_empty()
                }
            }
        }
        ["durparse", h] => {
            let text = String::from_utf8_lossy(&unhex(h)).to_string();
            println!("{text:?} -> {:?}", humantime::parse_duration(&text));
            true
        }
        _ => {
            eprintln!("cannot replay {op}");
            false
        }
    }
}
