//! C05 / C14 / C15 / C20: verdict, executor loop, result mapping, exit status.
//! In-process: `TestCase::validate`, `StatefulExecutor` with a scripted `Runner`.
//! End-to-end: the real `scrut` binary on generated documents with real bash.
use crate::common::*;
use scrut::config::{DocumentConfig, OutputStreamControl, TestCaseConfig};
use scrut::executors::context::Context;
use scrut::executors::error::{ExecutionError, ExecutionTimeout};
use scrut::executors::executor::Executor;
use scrut::executors::runner::Runner;
use scrut::executors::stateful_executor::StatefulExecutor;
use scrut::expectation::ExpectationMaker;
use scrut::output::{ExitStatus, Output};
use scrut::rules::registry::RuleRegistry;
use scrut::testcase::{TestCase, TestCaseError};
use std::collections::BTreeMap;
use std::path::{Path, PathBuf};
use std::sync::{Arc, Mutex};
use std::time::Duration;

#[derive(Clone, Copy, PartialEq, Debug)]
pub enum St {
    Code(i32),
    Timeout,
    Skipped,
    Detached,
    Unknown,
}
impl St {
    fn show(&self) -> String {
        match self {
            St::Code(c) => format!("c{c}"),
            St::Timeout => "t".into(),
            St::Skipped => "s".into(),
            St::Detached => "d".into(),
            St::Unknown => "u".into(),
        }
    }
    fn to_real(&self) -> ExitStatus {
        match self {
            St::Code(c) => ExitStatus::Code(*c),
            St::Timeout => ExitStatus::Timeout(Duration::from_millis(1)),
            St::Skipped => ExitStatus::Skipped,
            St::Detached => ExitStatus::Detached,
            St::Unknown => ExitStatus::Unknown,
        }
    }
    fn of_real(s: &ExitStatus) -> St {
        match s {
            ExitStatus::Code(c) => St::Code(*c),
            ExitStatus::Timeout(_) => St::Timeout,
            ExitStatus::Skipped => St::Skipped,
            ExitStatus::Detached => St::Detached,
            ExitStatus::Unknown => St::Unknown,
        }
    }
}

#[derive(Clone, Debug)]
pub struct T {
    pub expected: Option<i32>,
    pub stream: char, // u o e c
    pub skip: Option<i32>,
    pub timeout: Option<u64>,
    pub acc_empty: bool,
    pub status: St,
    pub acc_out: bool,
    pub acc_err: bool,
    pub dur: Option<u64>,
    /// `config.wait` in ms: time that passes before the command starts and before the remaining time of the document is
    /// looked at; sat out no longer than what is left of the document limit (the model's `cappedWait`)
    pub wait: u64,
}
impl T {
    fn field(&self) -> String {
        let o = |x: Option<i64>| x.map(|v| v.to_string()).unwrap_or("-".into());
        format!(
            "{},{},{},{},{},{},{},{},{}{}",
            o(self.expected.map(|v| v as i64)),
            self.stream,
            o(self.skip.map(|v| v as i64)),
            o(self.timeout.map(|v| v as i64)),
            self.acc_empty as u8,
            self.status.show(),
            self.acc_out as u8,
            self.acc_err as u8,
            o(self.dur.map(|v| v as i64)),
            if self.wait > 0 { format!(",{}", self.wait) } else { String::new() }
        )
    }
    fn stream_cfg(&self) -> Option<OutputStreamControl> {
        match self.stream {
            'o' => Some(OutputStreamControl::Stdout),
            'e' => Some(OutputStreamControl::Stderr),
            'c' => Some(OutputStreamControl::Combined),
            _ => None,
        }
    }
    fn testcase(&self, mk: &ExpectationMaker, line: usize) -> TestCase {
        TestCase {
            title: format!("t{line}"),
            shell_expression: "true".into(),
            expectations: vec![mk.parse(if self.acc_empty { "ok (?)" } else { "ok" }).unwrap()],
            exit_code: self.expected,
            line_number: line,
            config: TestCaseConfig { output_stream: self.stream_cfg(), skip_document_code: self.skip, timeout: self.timeout.map(Duration::from_millis), ..Default::default() },
        }
    }
    fn output(&self) -> Output {
        Output {
            stdout: (if self.acc_out { &b"ok\n"[..] } else { &b"bad\n"[..] }).into(),
            stderr: (if self.acc_err { &b"ok\n"[..] } else { &b"bad\n"[..] }).into(),
            exit_code: self.status.to_real(),
        }
    }
}

fn verdict_name(r: &Result<(), TestCaseError>) -> String {
    match r {
        Ok(()) => "success".into(),
        Err(TestCaseError::InvalidExitCode { actual, expected }) => format!("invalid_exit_code:{actual}:{expected}"),
        Err(TestCaseError::MalformedOutput(_)) => "malformed_output".into(),
        Err(TestCaseError::InternalError(_)) => "internal_error".into(),
        Err(TestCaseError::Timeout) => "timeout".into(),
        Err(TestCaseError::Skipped) => "skipped".into(),
    }
}

fn mk() -> ExpectationMaker {
    ExpectationMaker::new(RuleRegistry::default())
}

const STATUSES: [St; 8] = [St::Code(0), St::Code(1), St::Code(80), St::Code(7), St::Timeout, St::Skipped, St::Detached, St::Unknown];

/// stream 1: the decision table of `TestCase::validate`
fn validate_case(prop: &str, idx: u64) -> CaseRec {
    let mut r = idx;
    let mut take = |n: u64| {
        let v = r % n;
        r /= n;
        v as usize
    };
    let status = [St::Code(0), St::Code(1), St::Code(80), St::Code(255), St::Code(-1), St::Timeout, St::Skipped, St::Detached, St::Unknown][take(9)];
    let expected = [None, Some(0), Some(1), Some(255)][take(4)];
    let stream = ['u', 'o', 'e', 'c'][take(4)];
    let acc_out = take(2) == 1;
    let acc_err = take(2) == 1;
    let acc_empty = take(2) == 1;
    let t = T { expected, stream, skip: None, timeout: None, acc_empty, status, acc_out, acc_err, dur: None, wait: 0 };
    let tc = t.testcase(&mk(), 1);
    let res = guarded(|| tc.validate(&t.output()));
    let mut fails = vec![];
    let impl_out = match &res {
        Err(p) => {
            fails.push(("C05:crash".into(), format!("validate panicked: {p}")));
            "crash".to_string()
        }
        Ok(r) => {
            // direct oracle (the property, not the model)
            let sel = if stream == 'e' { acc_err } else { acc_out };
            let should = matches!(status, St::Code(c) if c == expected.unwrap_or(0)) && sel;
            if r.is_ok() != should {
                fails.push(("C05:verdict".into(), format!("validate returned {} but exit-code/output acceptance says {}", verdict_name(r), if should { "success" } else { "failure" })));
            }
            if let St::Code(c) = status {
                if c != expected.unwrap_or(0) && !matches!(r, Err(TestCaseError::InvalidExitCode { actual, expected: e }) if *actual == c && *e == expected.unwrap_or(0)) {
                    fails.push(("C05:wrong-code-not-reported".into(), format!("exit code {c} differs from the expected one but the result is {}", verdict_name(r))));
                }
            }
            verdict_name(r)
        }
    };
    let o = |x: Option<i32>| x.map(|v| v.to_string()).unwrap_or("-".into());
    CaseRec {
        op: format!("validate {} {} {} {} {}", o(expected), stream, status.show(), acc_out as u8, acc_err as u8),
        impl_out,
        oracle_fail: keep(prop, fails),
        nontrivial: true,
        tags: vec![format!("validate:status={}", status.show())],
    }
}

fn keep(prop: &str, fails: Vec<(String, String)>) -> Vec<(String, String)> {
    fails.into_iter().filter(|(c, _)| c.starts_with(prop)).collect()
}

struct Scripted {
    script: Arc<Vec<T>>,
    log: Arc<Mutex<Vec<(usize, Option<Duration>, Option<String>, PathBuf)>>>,
    dir: PathBuf,
}
impl Runner for Scripted {
    fn run(&self, name: &str, testcase: &TestCase, _context: &Context) -> anyhow::Result<Output> {
        let idx: usize = name.trim_start_matches("exec").parse::<usize>().unwrap_or(0).saturating_sub(1);
        self.log.lock().unwrap().push((idx, testcase.config.timeout, testcase.config.environment.get("SCRUT_TEST").cloned(), self.dir.clone()));
        Ok(self.script.get(idx).map(|t| t.output()).unwrap_or_default())
    }
}

fn doc_field(cram: bool, total: Option<u64>, tests: &[T]) -> String {
    let mut s = format!("{}{}", if cram { "C" } else { "" }, total.map(|v| v.to_string()).unwrap_or("-".into()));
    for t in tests {
        s.push(';');
        s.push_str(&t.field());
    }
    s
}

fn classify_limit(t: &T, total: Option<u64>, l: Option<Duration>) -> String {
    match l {
        None => "-".into(),
        Some(d) => {
            let ms = d.as_millis() as u64;
            if t.timeout == Some(ms) && d.subsec_nanos() % 1_000_000 == 0 {
                format!("P{ms}")
            } else {
                let tot = total.unwrap_or(900_000);
                if tot != 0 && d <= Duration::from_millis(tot) && d + Duration::from_millis(1500) > Duration::from_millis(tot) {
                    "G".into()
                } else {
                    format!("?{ms}")
                }
            }
        }
    }
}

/// stream 2: the real `StatefulExecutor` with a scripted runner
fn exec_case(prop: &str, total: Option<u64>, tests: Vec<T>, tmp: &Path) -> CaseRec {
    let m = mk();
    let tcs: Vec<TestCase> = tests.iter().enumerate().map(|(i, t)| t.testcase(&m, 10 * (i + 1))).collect();
    let refs: Vec<&TestCase> = tcs.iter().collect();
    let script = Arc::new(tests.clone());
    let log = Arc::new(Mutex::new(vec![]));
    let (s2, l2) = (script.clone(), log.clone());
    let ex = StatefulExecutor::new(Box::new(move |p: &Path| Box::new(Scripted { script: s2.clone(), log: l2.clone(), dir: p.to_path_buf() }) as Box<dyn Runner>));
    let ctx = Context {
        work_directory: tmp.to_path_buf(),
        temp_directory: tmp.to_path_buf(),
        file: PathBuf::from("doc.md"),
        config: DocumentConfig { total_timeout: total.map(Duration::from_millis), ..Default::default() },
    };
    let res = guarded(|| ex.execute_all(&refs, &ctx));
    let log = log.lock().unwrap().clone();
    let mut fails = vec![];
    let show_outs = |outs: &[Output]| outs.iter().map(|o| St::of_real(&o.exit_code).show()).collect::<Vec<_>>().join(",");
    let res_s = match &res {
        Err(p) => {
            fails.push((format!("{prop}:crash"), format!("execute_all panicked: {p}")));
            "crash".to_string()
        }
        Ok(Ok(outs)) => format!("ok:{}", show_outs(outs)),
        Ok(Err(ExecutionError::Skipped(i))) => format!("skipped:{i}"),
        Ok(Err(ExecutionError::Timeout(ExecutionTimeout::Total, outs))) => format!("timeout:G:{}:{}", outs.len().saturating_sub(1), show_outs(outs)),
        Ok(Err(ExecutionError::Timeout(ExecutionTimeout::Index(i), outs))) => format!("timeout:P:{i}:{}", show_outs(outs)),
        Ok(Err(e)) => format!("error:{}", e.to_string().chars().take(40).collect::<String>()),
    };
    let limits: Vec<String> = log.iter().map(|(i, l, _, _)| classify_limit(&tests[*i], total, *l)).collect();
    // direct oracles
    // C20: the runner is called for indices 0,1,2,… once each, in order
    let order: Vec<usize> = log.iter().map(|x| x.0).collect();
    if order != (0..order.len()).collect::<Vec<_>>() {
        fails.push(("C20:order".into(), format!("runner called for indices {:?}", order)));
    }
    // C18: SCRUT_TEST=<path>:<line> for every call, one shared state directory
    for (i, _, env, dir) in &log {
        if env.as_deref() != Some(&format!("doc.md:{}", 10 * (i + 1))) {
            fails.push(("C18:scrut-test-env".into(), format!("SCRUT_TEST for test {i} is {:?}", env)));
        }
        if dir != &log[0].3 {
            fails.push(("C18:state-dir".into(), "runners of one document received different state directories".into()));
        }
    }
    // C14: the limit handed is min(per-test, what is left of the document limit)
    for (i, l, _, _) in &log {
        let tot = total.unwrap_or(900_000);
        let per = tests[*i].timeout;
        let want_global = tot != 0 && per.map_or(true, |p| tot < p);
        let got = classify_limit(&tests[*i], total, *l);
        let ok = if want_global { got == "G" } else if let Some(p) = per { got == format!("P{p}") } else { got == "-" };
        if !ok {
            fails.push(("C14:limit".into(), format!("test {i}: per-test limit {:?} ms, document limit {} ms, but the runner was handed {:?}", per, tot, l)));
        }
    }
    // C15: skipped iff the first terminal event is a skip code / skipped status
    {
        let mut want: Option<usize> = None;
        for (i, t) in tests.iter().enumerate() {
            match t.status {
                St::Code(c) if c == t.skip.unwrap_or(80) => {
                    want = Some(i);
                    break;
                }
                St::Skipped => {
                    want = Some(i);
                    break;
                }
                St::Timeout | St::Unknown => break,
                _ => {}
            }
        }
        let got = match &res {
            Ok(Err(ExecutionError::Skipped(i))) => Some(*i),
            _ => None,
        };
        if want != got {
            fails.push(("C15:skip".into(), format!("expected skip at {:?}, executor reported {:?}", want, got)));
        }
    }
    // C05: every test after an aborted (unknown) one carries no exit code
    if let Ok(Ok(outs)) = &res {
        if let Some(u) = tests.iter().position(|t| t.status == St::Unknown) {
            if outs.len() != tests.len() || outs[u + 1..].iter().any(|o| matches!(o.exit_code, ExitStatus::Code(_))) {
                fails.push(("C05:not-run".into(), "a test case after an aborted execution carries an exit code".into()));
            }
            for (tc, o) in tcs.iter().zip(outs.iter()).skip(u) {
                if tc.validate(o).is_ok() {
                    fails.push(("C05:not-run-succeeded".into(), format!("test case at line {} did not run (or was aborted) but validates as succeeded", tc.line_number)));
                }
            }
        }
    }
    let mut tags = vec![format!("exec:len={}", tests.len()), format!("exec:result={}", res_s.split(':').next().unwrap_or(""))];
    tags.push(format!("exec:total={}", total.map(|v| v.to_string()).unwrap_or("-".into())));
    CaseRec {
        op: format!("exec {}", doc_field(false, total, &tests)),
        impl_out: format!("{} limits={}", res_s, limits.join(",")),
        oracle_fail: keep(prop, fails),
        nontrivial: tests.len() >= 2,
        tags,
    }
}

fn gen_tests(rng: &mut Rng, len: usize, statuses: Option<&[St]>) -> Vec<T> {
    (0..len)
        .map(|i| {
            let status = match statuses {
                Some(s) => s[i],
                None => *rng.pick(&STATUSES),
            };
            T {
                expected: *rng.pick(&[None, None, Some(0), Some(1), Some(80), Some(7)]),
                stream: *rng.pick(&['u', 'o', 'e', 'c']),
                skip: *rng.pick(&[None, None, Some(7), Some(0)]),
                timeout: *rng.pick(&[None, None, Some(1000), Some(5000), Some(3_600_000)]),
                acc_empty: rng.chance(1, 2),
                status,
                acc_out: rng.chance(2, 3),
                acc_err: rng.chance(1, 2),
                dur: None,
                wait: 0,
            }
        })
        .collect()
}

// ---------------------------------------------------------------------------------------------
// end-to-end: real binary, real bash

#[derive(Clone, Debug)]
enum Beh {
    Pass,
    PassCode(i32),
    BadOut,
    BadCode(i32),
    Skip(Option<i32>), // custom skip code set inline
    Timeout,           // sleeps past its own per-test limit
    Kill,
    /// the wrapper shell is ended by a trappable signal (TERM = 15, HUP = 1, INT = 2) after writing the expected output
    Signal(u8),
    Detached,
    Sleep(u64), // sleeps that long (ms) and passes; used with a document limit
    /// the same, in a shell that ignores SIGTERM (`trap '' TERM`) or defers it (`trap : TERM`): "is aborted" must not depend on the command's cooperation
    SleepNoTerm(u64, bool),
    /// `{wait: <w>ms}` then a sleep of `ms`: the wait passes before the remaining time of the document is looked at
    /// (and is sat out no longer than what is left of the document limit)
    WaitSleep(u64, u64),
    /// Cram only: the command leaves the shell (`exit N`): the one script ends here
    ExitShell(i32),
}

#[derive(Clone, Debug)]
struct EDoc {
    /// `Some(c)`: a MARKDOWN document with front-matter `defaults: {skip_document_code: c}` that is run with
    /// `--cram-compat` (single-script execution, `cram` is true then)
    compat_skip: Option<i32>,
    cram: bool,
    broken: bool,
    total: Option<u64>,
    tests: Vec<(Beh, Option<u64>)>, // behaviour, per-test timeout
}

fn scrut_bin() -> String {
    std::env::var("SCRUT_BIN").unwrap_or("/verif/.build/repo-target/debug/scrut".into())
}

fn render_doc(d: &EDoc, di: usize, marker: &Path) -> (String, Vec<T>) {
    let mut s = String::new();
    let mut ts = vec![];
    if d.broken {
        // a scrut block that holds an expectation with a malformed regex: cannot be parsed
        return ("# broken\n\n```scrut\n$ echo a\n[a (regex)\n```\n".to_string(), ts);
    }
    if !d.cram {
        if let Some(t) = d.total {
            s.push_str(&format!("---\ntotal_timeout: {}ms\n---\n\n", t));
        }
    }
    if let Some(c) = d.compat_skip {
        s.push_str(&format!("---\ndefaults:\n  skip_document_code: {c}\n---\n\n"));
    }
    let doc_skip = d.compat_skip.unwrap_or(80);
    let markdown_syntax = !d.cram || d.compat_skip.is_some();
    for (ti, (b, to)) in d.tests.iter().enumerate() {
        let id = format!("D{di}T{ti}");
        let mark = format!("echo {id} >> {}", marker.display());
        let mut cfg: Vec<String> = vec![];
        if let Some(t) = to {
            cfg.push(format!("timeout: {}ms", t));
        }
        let (cmd, exp, code, model): (String, &str, Option<i32>, T) = {
            let base = T { expected: None, stream: if d.cram && d.compat_skip.is_none() { 'c' } else { 'o' }, skip: Some(doc_skip), timeout: *to, acc_empty: false, status: St::Code(0), acc_out: true, acc_err: true, dur: None, wait: 0 };
            match b {
                Beh::Pass => (format!("{mark}; echo ok"), "ok", None, base),
                Beh::PassCode(c) => (format!("{mark}; echo ok; (exit {c})"), "ok", Some(*c), T { expected: Some(*c), status: St::Code(*c), ..base }),
                Beh::BadOut => (format!("{mark}; echo bad"), "ok", None, T { acc_out: false, ..base }),
                Beh::BadCode(c) => (format!("{mark}; echo ok; (exit {c})"), "ok", None, T { status: St::Code(*c), ..base }),
                Beh::Skip(custom) => {
                    let c = custom.unwrap_or(doc_skip);
                    if let Some(c) = custom {
                        cfg.push(format!("skip_document_code: {c}"));
                    }
                    (format!("{mark}; echo ok; (exit {c})"), "ok", None, T { status: St::Code(c), skip: Some(c), ..base })
                }
                Beh::Timeout => (format!("{mark}; sleep 3; echo ok"), "ok", None, T { status: St::Timeout, ..base }),
                Beh::Kill => (format!("{mark}; kill -9 $$"), "ok", None, T { status: St::Unknown, acc_out: false, ..base }),
                // the output written before the signal is exactly what is expected: only the missing exit code tells
                Beh::Signal(n) => (format!("{mark}; echo ok; kill -{n} $$; sleep 1; echo late"), "ok", None, T { status: St::Unknown, acc_out: true, ..base }),
                Beh::Detached => {
                    cfg.push("detached: true".into());
                    // no marker: a detached command runs asynchronously
                    ("sleep 0.01".to_string(), "", None, T { status: St::Detached, acc_empty: true, ..base })
                }
                Beh::Sleep(ms) => (format!("{mark}; sleep {}.{:03}; echo ok", ms / 1000, ms % 1000), "ok", None, T { dur: Some(*ms), ..base }),
                Beh::WaitSleep(w, ms) => {
                    cfg.push(format!("wait: {w}ms"));
                    (format!("{mark}; sleep {}.{:03}; echo ok", ms / 1000, ms % 1000), "ok", None, T { dur: Some(*ms), wait: *w, ..base })
                }
                Beh::SleepNoTerm(ms, ignore) => (format!("{mark}; trap {} TERM; sleep {}.{:03}; echo ok", if *ignore { "''" } else { ":" }, ms / 1000, ms % 1000), "ok", None, T { dur: Some(*ms), ..base }),
                // dur = Some(1) is the model's marker for "leaves the shell with this code"
                Beh::ExitShell(c) => (format!("{mark}; echo ok; exit {c}"), "ok", Some(*c), T { expected: Some(*c), status: St::Code(*c), dur: Some(1), ..base }),
            }
        };
        if !markdown_syntax {
            s.push_str(&format!("{id}\n  $ {cmd}\n"));
            if !exp.is_empty() {
                s.push_str(&format!("  {exp}\n"));
            }
            if let Some(c) = code {
                s.push_str(&format!("  [{c}]\n"));
            }
            s.push('\n');
        } else {
            s.push_str(&format!("# {id}\n\n```scrut{}\n$ {cmd}\n", if cfg.is_empty() { "".to_string() } else { format!(" {{{}}}", cfg.join(", ")) }));
            if !exp.is_empty() {
                s.push_str(&format!("{exp}\n"));
            }
            if let Some(c) = code {
                s.push_str(&format!("[{c}]\n"));
            }
            s.push_str("```\n\n");
        }
        ts.push(model);
    }
    (s, ts)
}

/// independent statement of what the run must report (written from the property texts)
fn doc_errs(d: &EDoc) -> bool {
    spec_outcomes(d).is_none()
}

fn spec_outcomes(d: &EDoc) -> Option<Vec<(usize, &'static str)>> {
    if d.broken {
        return None;
    }
    let kinds = |b: &Beh| match b {
        Beh::Pass | Beh::PassCode(_) | Beh::Sleep(_) | Beh::SleepNoTerm(..) | Beh::WaitSleep(..) => "success",
        Beh::BadOut => "malformed_output",
        Beh::BadCode(_) => "invalid_exit_code",
        Beh::Kill | Beh::Signal(_) => "internal_error",
        _ => "?",
    };
    let n = d.tests.len();
    if d.cram {
        // all run in one script, up to a command that leaves the shell
        let upto = d.tests.iter().position(|(b, _)| matches!(b, Beh::ExitShell(_))).unwrap_or(n);
        if let Some((Beh::ExitShell(x), _)) = d.tests.get(upto) {
            if *x == d.compat_skip.unwrap_or(80) {
                return Some((0..n).map(|i| (i, "skipped")).collect());
            }
        }
        // a test case that ended with the skip code skips the document
        if d.tests[..upto].iter().any(|(b, _)| matches!(b, Beh::Skip(_))) {
            return Some((0..n).map(|i| (i, "skipped")).collect());
        }
        if upto < n {
            return None; // fewer results than test cases: scrut cannot assign them, exit 1
        }
        return Some(d.tests.iter().enumerate().map(|(i, (b, _))| (i, kinds(b))).collect());
    }
    let mut out = vec![];
    for (i, (b, _)) in d.tests.iter().enumerate() {
        match b {
            Beh::Skip(_) => return Some((0..n).map(|i| (i, "skipped")).collect()),
            Beh::Timeout => {
                out.push((i, "timeout"));
                for j in i + 1..n {
                    out.push((j, "skipped"));
                }
                return Some(out);
            }
            Beh::Kill | Beh::Signal(_) => {
                // aborted: this one and everything after it did not complete: never a success
                for j in i..n {
                    out.push((j, "internal_error"));
                }
                return Some(out);
            }
            Beh::Detached => {}
            b => out.push((i, kinds(b))),
        }
    }
    Some(out)
}

/// which tests must have executed, in order
fn spec_markers(d: &EDoc, di: usize) -> Vec<String> {
    let mut v = vec![];
    if d.broken {
        return v;
    }
    for (ti, (b, _)) in d.tests.iter().enumerate() {
        if matches!(b, Beh::Detached) {
            continue;
        }
        v.push(format!("D{di}T{ti}"));
        if !d.cram && matches!(b, Beh::Skip(_) | Beh::Timeout | Beh::Kill | Beh::Signal(_)) {
            break;
        }
        if d.cram && matches!(b, Beh::ExitShell(_)) {
            break;
        }
    }
    v
}

fn e2e_case(prop: &str, docs: Vec<EDoc>, tmproot: &Path, idx: u64) -> CaseRec {
    let dir = tmproot.join(format!("e2e-{idx}"));
    let _ = std::fs::remove_dir_all(&dir);
    std::fs::create_dir_all(dir.join("tmp")).unwrap();
    let marker = dir.join("marker");
    let mut paths = vec![];
    let mut models = vec![];
    for (di, d) in docs.iter().enumerate() {
        let (text, ts) = render_doc(d, di, &marker);
        let p = dir.join(format!("doc{di}.{}", if d.cram && !d.broken && d.compat_skip.is_none() { "t" } else { "md" }));
        std::fs::write(&p, text).unwrap();
        paths.push(p);
        models.push(ts);
    }
    let out = std::process::Command::new(scrut_bin())
        .arg("test")
        .arg("-r")
        .arg("json")
        .args(if docs.iter().any(|d| d.compat_skip.is_some()) { vec!["--cram-compat"] } else { vec![] })
        .args(&paths)
        .current_dir(&dir)
        .env("TMPDIR", dir.join("tmp"))
        .env("NO_COLOR", "1")
        .output()
        .expect("run scrut");
    let code = out.status.code().unwrap_or(-1);
    let stdout = String::from_utf8_lossy(&out.stdout).to_string();
    let json: Option<serde_json::Value> = stdout.find('[').and_then(|p| serde_json::from_str(&stdout[p..]).ok());
    let mut per_doc: BTreeMap<usize, Vec<(usize, String)>> = BTreeMap::new();
    let mut fails = vec![];
    if let Some(serde_json::Value::Array(items)) = &json {
        for it in items {
            let title = it.get("title").and_then(|t| t.as_str()).or_else(|| it.pointer("/testcase/title").and_then(|t| t.as_str())).unwrap_or("");
            let kind = it.pointer("/result/kind").and_then(|k| k.as_str()).unwrap_or("?").to_string();
            if let Some(rest) = title.strip_prefix('D') {
                let mut sp = rest.split('T');
                if let (Some(a), Some(b)) = (sp.next().and_then(|x| x.parse::<usize>().ok()), sp.next().and_then(|x| x.parse::<usize>().ok())) {
                    per_doc.entry(a).or_default().push((b, kind));
                    continue;
                }
            }
            fails.push((format!("{prop}:unidentified-outcome"), format!("outcome with title {title:?}")));
        }
    } else if code != 1 {
        fails.push((format!("{prop}:no-json"), format!("exit {code}, no JSON on stdout: {}", String::from_utf8_lossy(&out.stderr).chars().take(200).collect::<String>())));
    }
    // canonical implementation line (same shape as the model's `rundocs`)
    let first_err = docs.iter().position(doc_errs);
    let first_broken = docs.iter().position(|d| d.broken);
    let shown: Vec<String> = docs
        .iter()
        .enumerate()
        .take(first_err.map(|e| e + 1).unwrap_or(docs.len()))
        .map(|(di, d)| {
            if d.broken {
                "ERR".to_string()
            } else {
                per_doc.get(&di).map(|v| v.iter().map(|(i, k)| format!("{i}:{k}")).collect::<Vec<_>>().join(",")).unwrap_or_default()
            }
        })
        .collect();
    let impl_out = if code == 1 && json.is_none() { "ERR exit=1".to_string() } else { format!("{} exit={}", shown.join("|"), code) };
    // for an erroring run scrut prints nothing: compare only the exit status there
    let model_docs: Vec<String> = docs.iter().zip(models.iter()).map(|(d, ts)| if d.broken { "ERR".to_string() } else { doc_field(d.cram, d.total, ts) }).collect();
    // direct oracles -------------------------------------------------------------------------
    let want_exit = if first_err.is_some() {
        1
    } else if docs.iter().any(|d| spec_outcomes(d).unwrap_or_default().iter().any(|(_, k)| *k != "success" && *k != "skipped")) {
        50
    } else {
        0
    };
    if code != want_exit {
        fails.push(("C20:exit-status".into(), format!("exit status {code}, expected {want_exit}")));
    }
    // markers: documents before an execution error did run (a parse error prevents every run)
    if first_broken.is_none() && first_err.is_some() {
        let marks: Vec<String> = std::fs::read_to_string(&marker).unwrap_or_default().lines().map(|l| l.to_string()).collect();
        let want: Vec<String> = docs.iter().enumerate().take(first_err.unwrap() + 1).flat_map(|(di, d)| spec_markers(d, di)).collect();
        if marks != want {
            fails.push(("C20:execution-order".into(), format!("executed {:?}, expected {:?}", marks, want)));
        }
    }
    if first_err.is_none() {
        for (di, d) in docs.iter().enumerate() {
            let want = spec_outcomes(d).unwrap();
            let got: Vec<(usize, String)> = per_doc.get(&di).cloned().unwrap_or_default();
            let wantv: Vec<(usize, String)> = want.iter().map(|(i, k)| (*i, k.to_string())).collect();
            if got != wantv {
                let cls = if want.iter().all(|(_, k)| *k == "skipped") || got.iter().any(|(_, k)| k == "skipped") {
                    "C15:skip-e2e"
                } else if want.iter().any(|(_, k)| *k == "timeout") {
                    "C14:timeout-e2e"
                } else if want.iter().any(|(_, k)| *k == "internal_error") {
                    "C05:aborted-e2e"
                } else {
                    "C20:results-e2e"
                };
                fails.push((cls.into(), format!("document {di}: reported {:?}, expected {:?}", got, wantv)));
                if cls != "C20:results-e2e" {
                    // whatever else it is, it is also a wrong set of results for the test cases
                    fails.push(("C20:results-e2e".into(), format!("document {di}: reported {:?}, expected {:?}", got, wantv)));
                }
                if got.iter().any(|(i, k)| k == "success" && !wantv.contains(&(*i, "success".into()))) {
                    fails.push(("C05:false-success-e2e".into(), format!("document {di}: {:?} reported as succeeded", got)));
                }
            }
            // one result per non-detached test, at most one per test
            let mut idxs: Vec<usize> = got.iter().map(|x| x.0).collect();
            idxs.dedup();
            if idxs.len() != got.len() || !idxs.windows(2).all(|w| w[0] < w[1]) {
                fails.push(("C20:duplicate-result".into(), format!("document {di}: result indices {:?}", got)));
            }
        }
        // execution order / once
        let marks: Vec<String> = std::fs::read_to_string(&marker).unwrap_or_default().lines().map(|l| l.to_string()).collect();
        let want: Vec<String> = docs.iter().enumerate().flat_map(|(di, d)| spec_markers(d, di)).collect();
        if marks != want {
            fails.push(("C20:execution-order".into(), format!("executed {:?}, expected {:?}", marks, want)));
        }
    }
    // C18: nothing left behind in TMPDIR
    let left: Vec<String> = std::fs::read_dir(dir.join("tmp")).map(|r| r.filter_map(|e| e.ok()).map(|e| e.file_name().to_string_lossy().to_string()).collect()).unwrap_or_default();
    if !left.is_empty() {
        fails.push(("C18:leftover".into(), format!("TMPDIR still holds {:?}", left)));
    }
    let _ = std::fs::remove_dir_all(&dir);
    let mut tags = vec![format!("e2e:docs={}", docs.len()), format!("e2e:exit={code}")];
    for d in &docs {
        for (b, _) in &d.tests {
            tags.push(format!("e2e:beh={}", format!("{:?}", b).split('(').next().unwrap_or("")));
        }
    }
    CaseRec { op: format!("rundocs {}", model_docs.join("|")), impl_out, oracle_fail: keep(prop, fails), nontrivial: docs.iter().map(|d| d.tests.len()).sum::<usize>() >= 2, tags }
}

/// prepend / append documents from the front-matter and from -P / -A: one run, one main document;
/// every test appends its position in the expected order to the marker file
fn prepend_append_case(prop: &str, idx: u64, uid: u64, tmproot: &Path) -> CaseRec {
    let mut r = idx;
    let mut take = |n: u64| {
        let v = r % n;
        r /= n;
        v as usize
    };
    let (cli_pre, fm_pre, fm_post, cli_post) = (take(3), take(3), take(3), take(3));
    let failing_pos = take(4); // which group holds one failing test (0 = none)
    let dir = tmproot.join(format!("pa-{uid}-{idx}"));
    let _ = std::fs::remove_dir_all(&dir);
    std::fs::create_dir_all(dir.join("tmp")).unwrap();
    std::fs::create_dir_all(dir.join("docs/sub")).unwrap();
    let marker = dir.join("marker");
    let mut pos = 0usize;
    let mut expected_kinds: Vec<&'static str> = vec![];
    let mut mk_doc = |path: &Path, ntests: usize, front: &str, fail: bool, pos: &mut usize, kinds: &mut Vec<&'static str>| {
        let mut s = String::from(front);
        for t in 0..ntests {
            let bad = fail && t == 0;
            s.push_str(&format!("# D0T{0}\n\n```scrut\n$ echo D0T{0} >> {1}; echo {2}\nok\n```\n\n", *pos, marker.display(), if bad { "bad" } else { "ok" }));
            kinds.push(if bad { "malformed_output" } else { "success" });
            *pos += 1;
        }
        std::fs::write(path, s).unwrap();
    };
    let mut cli_pre_paths = vec![];
    for i in 0..cli_pre {
        let p = dir.join(format!("cli-pre{i}.md"));
        mk_doc(&p, 1, "", failing_pos == 1 && i == 0, &mut pos, &mut expected_kinds);
        cli_pre_paths.push(p);
    }
    let mut fm = String::new();
    let mut fm_pre_names = vec![];
    for i in 0..fm_pre {
        let p = dir.join(format!("docs/sub/fm-pre{i}.md"));
        mk_doc(&p, 1, "", false, &mut pos, &mut expected_kinds);
        fm_pre_names.push(format!("sub/fm-pre{i}.md"));
    }
    let own_start = pos;
    // the main document is written after its prepends are numbered, its appends after it
    let own_tests = 2;
    pos += own_tests;
    let mut own_kinds: Vec<&'static str> = (0..own_tests).map(|t| if failing_pos == 2 && t == 0 { "malformed_output" } else { "success" }).collect();
    let mut tail_kinds: Vec<&'static str> = vec![];
    let mut fm_post_names = vec![];
    for i in 0..fm_post {
        let p = dir.join(format!("docs/fm-post{i}.md"));
        mk_doc(&p, 1, "", false, &mut pos, &mut tail_kinds);
        fm_post_names.push(format!("fm-post{i}.md"));
    }
    let mut cli_post_paths = vec![];
    for i in 0..cli_post {
        let p = dir.join(format!("cli-post{i}.md"));
        mk_doc(&p, 1, "", failing_pos == 3 && i == 0, &mut pos, &mut tail_kinds);
        cli_post_paths.push(p);
    }
    if !fm_pre_names.is_empty() || !fm_post_names.is_empty() {
        fm.push_str("---\n");
        if !fm_pre_names.is_empty() {
            fm.push_str(&format!("prepend: [{}]\n", fm_pre_names.join(", ")));
        }
        if !fm_post_names.is_empty() {
            fm.push_str(&format!("append: [{}]\n", fm_post_names.join(", ")));
        }
        fm.push_str("---\n\n");
    }
    let main = dir.join("docs/main.md");
    {
        let mut p2 = own_start;
        let mut k2 = vec![];
        mk_doc(&main, own_tests, &fm, failing_pos == 2, &mut p2, &mut k2);
    }
    expected_kinds.append(&mut own_kinds);
    expected_kinds.append(&mut tail_kinds);
    let total = pos;
    let mut cmd = std::process::Command::new(scrut_bin());
    cmd.arg("test").arg("-r").arg("json");
    if !cli_pre_paths.is_empty() {
        cmd.arg("-P");
        cmd.args(&cli_pre_paths);
    }
    if !cli_post_paths.is_empty() {
        cmd.arg("-A");
        cmd.args(&cli_post_paths);
    }
    // `--` ends the multi-value options
    let out = cmd.arg("--").arg(&main).current_dir(&dir).env("TMPDIR", dir.join("tmp")).output().expect("run scrut");
    let code = out.status.code().unwrap_or(-1);
    let stdout = String::from_utf8_lossy(&out.stdout).to_string();
    let json: Option<serde_json::Value> = stdout.find('[').and_then(|p| serde_json::from_str(&stdout[p..]).ok());
    let mut got: Vec<(usize, String)> = vec![];
    if let Some(serde_json::Value::Array(items)) = &json {
        for it in items {
            let title = it.get("title").and_then(|t| t.as_str()).or_else(|| it.pointer("/testcase/title").and_then(|t| t.as_str())).unwrap_or("");
            let kind = it.pointer("/result/kind").and_then(|k| k.as_str()).unwrap_or("?").to_string();
            if let Some(i) = title.strip_prefix("D0T").and_then(|x| x.parse::<usize>().ok()) {
                got.push((i, kind));
            }
        }
    }
    let mut fails = vec![];
    let marks: Vec<String> = std::fs::read_to_string(&marker).unwrap_or_default().lines().map(|l| l.to_string()).collect();
    let want_marks: Vec<String> = (0..total).map(|i| format!("D0T{i}")).collect();
    if marks != want_marks {
        fails.push(("C20:prepend-append-order".to_string(), format!("executed {:?}, expected {:?} (cli -P {cli_pre}, front-matter prepend {fm_pre}, append {fm_post}, cli -A {cli_post}); stderr: {}", marks, want_marks, String::from_utf8_lossy(&out.stderr).chars().take(200).collect::<String>())));
    }
    let want: Vec<(usize, String)> = expected_kinds.iter().enumerate().map(|(i, k)| (i, k.to_string())).collect();
    if got != want {
        fails.push(("C20:results-e2e".to_string(), format!("reported {:?}, expected {:?}", got, want)));
    }
    let want_exit = if expected_kinds.iter().any(|k| *k != "success") { 50 } else { 0 };
    if code != want_exit {
        fails.push(("C20:exit-status".to_string(), format!("exit status {code}, expected {want_exit}")));
    }
    let _ = std::fs::remove_dir_all(&dir);
    // model: one document whose test list is prepend ++ own ++ append
    let ts: Vec<T> = expected_kinds.iter().map(|k| T { expected: None, stream: 'o', skip: Some(80), timeout: None, acc_empty: false, status: St::Code(0), acc_out: *k == "success", acc_err: true, dur: None, wait: 0 }).collect();
    CaseRec {
        op: format!("rundocs {}", doc_field(false, None, &ts)),
        impl_out: format!("{} exit={}", got.iter().map(|(i, k)| format!("{i}:{k}")).collect::<Vec<_>>().join(","), code),
        oracle_fail: keep(prop, fails),
        nontrivial: cli_pre + fm_pre + fm_post + cli_post >= 1,
        tags: vec!["e2e:prepend-append".into()],
    }
}

/// a directory tree given on the command line (alone, or next to an explicitly named document): every test case of
/// every document with a matching extension (`md`, `markdown`, `t`, `cram`) below it runs exactly once, in the order
/// of its document; files with other extensions are not documents; the exit status follows the verdicts
fn dir_case(prop: &str, idx: u64, tmproot: &Path) -> CaseRec {
    let mut rng = Rng::fork(idx, 77, idx);
    let dir = tmproot.join(format!("dir-{idx}"));
    let _ = std::fs::remove_dir_all(&dir);
    std::fs::create_dir_all(dir.join("tmp")).unwrap();
    std::fs::create_dir_all(dir.join("docs/sub/deeper")).unwrap();
    let marker = dir.join("marker");
    // a quarter of the runs: Markdown documents are the files matching a custom --match-markdown pattern, and a
    // `.md` file in the tree is then no document (it holds a failing test that must not run)
    let custom_match = idx % 4 == 0;
    let places: [&str; 6] = if custom_match { ["docs/a.mdx", "docs/b.t", "docs/sub/c.mdx", "docs/sub/deeper/d.cram", "docs/sub/e.mdx", "docs/z.mdx"] } else { ["docs/a.md", "docs/b.t", "docs/sub/c.markdown", "docs/sub/deeper/d.cram", "docs/sub/e.md", "docs/z.md"] };
    let mut docs: Vec<EDoc> = vec![];
    let mut want_fail = false;
    for (di, rel) in places.iter().enumerate() {
        if di > 1 && rng.chance(1, 3) {
            docs.push(EDoc { compat_skip: None, cram: false, broken: true, total: None, tests: vec![] }); // placeholder: not written
            continue;
        }
        let cram = rel.ends_with(".t") || rel.ends_with(".cram");
        let n = rng.range(1, 3);
        let tests: Vec<(Beh, Option<u64>)> = (0..n).map(|_| (if rng.chance(1, 4) { Beh::BadOut } else { Beh::Pass }, None)).collect();
        want_fail |= tests.iter().any(|(b, _)| matches!(b, Beh::BadOut));
        let d = EDoc { compat_skip: None, cram, broken: false, total: None, tests };
        let (text, _) = render_doc(&d, di, &marker);
        std::fs::write(dir.join(rel), text).unwrap();
        docs.push(d);
    }
    // not documents: wrong extension (would fail every test if it were run), a directory named like a document
    std::fs::write(dir.join("docs/notes.txt"), "# no\n\n```scrut\n$ echo D9T0 >> marker; false\nnever\n```\n").unwrap();
    std::fs::write(dir.join("docs/sub/README"), "  $ false\n  never\n").unwrap();
    std::fs::create_dir_all(dir.join("docs/sub/empty.md")).unwrap();
    // a directory that is only reachable through a symbolic link inside the tree: its documents are documents too
    let linked = EDoc { compat_skip: None, cram: false, broken: false, total: None, tests: vec![(if rng.chance(1, 3) { Beh::BadOut } else { Beh::Pass }, None), (Beh::Pass, None)] };
    want_fail |= linked.tests.iter().any(|(b, _)| matches!(b, Beh::BadOut));
    std::fs::create_dir_all(dir.join("outside")).unwrap();
    let (text, _) = render_doc(&linked, 8, &marker);
    std::fs::write(dir.join(if custom_match { "outside/f.mdx" } else { "outside/f.md" }), text).unwrap();
    if custom_match {
        std::fs::write(dir.join("docs/decoy.md"), "# no\n\n```scrut\n$ echo D9T1 >> marker; false\nnever\n```\n").unwrap();
    }
    let _ = std::os::unix::fs::symlink(dir.join("outside"), dir.join("docs/sub/linked"));
    // an explicitly named document outside the tree, before or after the directory
    let extra = EDoc { compat_skip: None, cram: false, broken: false, total: None, tests: vec![(Beh::Pass, None)] };
    let (text, _) = render_doc(&extra, 7, &marker);
    let extra_name = if custom_match { "extra.mdx" } else { "extra.md" };
    std::fs::write(dir.join(extra_name), text).unwrap();
    let extra_first = rng.chance(1, 2);
    let mut cmd = std::process::Command::new(scrut_bin());
    cmd.arg("test").arg("-r").arg("json");
    if custom_match {
        cmd.arg("--match-markdown").arg("*.mdx");
    }
    if extra_first {
        cmd.arg(dir.join(extra_name));
    }
    cmd.arg(dir.join("docs"));
    if !extra_first {
        cmd.arg(dir.join(extra_name));
    }
    let out = cmd.current_dir(&dir).env("TMPDIR", dir.join("tmp")).env("NO_COLOR", "1").output().expect("run scrut");
    let code = out.status.code().unwrap_or(-1);
    let stdout = String::from_utf8_lossy(&out.stdout).to_string();
    let json: Option<serde_json::Value> = stdout.find('[').and_then(|p| serde_json::from_str(&stdout[p..]).ok());
    let mut got: Vec<String> = vec![];
    if let Some(serde_json::Value::Array(items)) = &json {
        for it in items {
            let title = it.get("title").and_then(|t| t.as_str()).or_else(|| it.pointer("/testcase/title").and_then(|t| t.as_str())).unwrap_or("");
            let kind = it.pointer("/result/kind").and_then(|k| k.as_str()).unwrap_or("?");
            got.push(format!("{title}:{kind}"));
        }
    }
    let mut fails = vec![];
    // expected per document: its tests in order; across documents the order is the file system's
    let mut want: Vec<Vec<String>> = vec![];
    for (di, d) in docs.iter().enumerate() {
        if d.broken {
            continue;
        }
        want.push(d.tests.iter().enumerate().map(|(ti, (b, _))| format!("D{di}T{ti}:{}", if matches!(b, Beh::BadOut) { "malformed_output" } else { "success" })).collect());
    }
    want.push(linked.tests.iter().enumerate().map(|(ti, (b, _))| format!("D8T{ti}:{}", if matches!(b, Beh::BadOut) { "malformed_output" } else { "success" })).collect());
    want.push(vec!["D7T0:success".to_string()]);
    let marks: Vec<String> = std::fs::read_to_string(&marker).unwrap_or_default().lines().map(|l| l.to_string()).collect();
    for w in &want {
        // results of one document: each once, in order, contiguous
        let pos: Vec<Option<usize>> = w.iter().map(|x| got.iter().position(|g| g == x)).collect();
        let dup = w.iter().any(|x| got.iter().filter(|g| *g == x).count() != 1);
        let ordered = pos.iter().all(|p| p.is_some()) && pos.windows(2).all(|p| p[0].unwrap() + 1 == p[1].unwrap());
        if dup || !ordered {
            fails.push(("C20:directory-results".to_string(), format!("document results {:?} not reported once each, in order, in {:?}", w, got)));
        }
        let ids: Vec<String> = w.iter().map(|x| x.split(':').next().unwrap().to_string()).collect();
        let mpos: Vec<Option<usize>> = ids.iter().map(|x| marks.iter().position(|g| g == x)).collect();
        if ids.iter().any(|x| marks.iter().filter(|g| *g == x).count() != 1) || !mpos.windows(2).all(|p| p[0] < p[1]) {
            fails.push(("C20:directory-execution".to_string(), format!("test cases {:?} not executed once each, in order: {:?}", ids, marks)));
        }
    }
    let n_want: usize = want.iter().map(|w| w.len()).sum();
    if got.len() != n_want || marks.len() != n_want {
        fails.push(("C20:directory-results".to_string(), format!("{} results and {} executions for {} test cases: {:?}", got.len(), marks.len(), n_want, got)));
    }
    if extra_first != (got.first().map(|g| g.starts_with("D7")).unwrap_or(false)) || extra_first == (got.last().map(|g| g.starts_with("D7")).unwrap_or(false)) {
        fails.push(("C20:directory-argument-order".to_string(), format!("the explicitly named document was given {} the directory: {:?}", if extra_first { "before" } else { "after" }, got)));
    }
    let want_exit = if want_fail { 50 } else { 0 };
    if code != want_exit {
        fails.push(("C20:exit-status".to_string(), format!("directory run: exit status {code}, expected {want_exit}; stderr {}", String::from_utf8_lossy(&out.stderr).chars().take(200).collect::<String>())));
    }
    let _ = std::fs::remove_dir_all(&dir);
    CaseRec { op: "noop".into(), impl_out: "ok".into(), oracle_fail: keep(prop, fails), nontrivial: true, tags: vec!["e2e:directory".into(), format!("e2e:directory-docs={}", want.len()), format!("e2e:directory-custom-match={custom_match}")] }
}

fn gen_edoc(rng: &mut Rng, allow_broken: bool) -> EDoc {
    let cram = rng.chance(1, 4);
    let broken = allow_broken && rng.chance(1, 12);
    let n = rng.range(1, 4);
    let mut tests = vec![];
    for _ in 0..n {
        let b = if cram {
            match rng.below(10) {
                0 => Beh::BadOut,
                1 => Beh::BadCode(3),
                2 => Beh::PassCode(2),
                3 => Beh::Skip(None),
                4 => Beh::ExitShell(3),
                5 => Beh::ExitShell(80),
                _ => Beh::Pass,
            }
        } else {
            match rng.below(14) {
                0 => Beh::BadOut,
                1 => Beh::BadCode(3),
                2 => Beh::PassCode(2),
                3 => Beh::Skip(None),
                4 => Beh::Skip(Some(7)),
                5 => Beh::Timeout,
                6 => rng.pick(&[Beh::Kill, Beh::Signal(15), Beh::Signal(1), Beh::Signal(2)]).clone(),
                7 => Beh::Detached,
                8 => Beh::PassCode(80),
                _ => Beh::Pass,
            }
        };
        let to = if matches!(b, Beh::Timeout) { Some(300) } else if !cram && rng.chance(1, 5) { Some(20_000) } else { None };
        // PassCode(80) with default skip code would skip: give it expected code 80 but a custom skip code
        tests.push((b, to));
    }
    // PassCode(80) is a skip under the default skip code: express it as such
    let tests = tests.into_iter().map(|(b, t)| if matches!(b, Beh::PassCode(80)) { (Beh::Skip(None), t) } else { (b, t) }).collect();
    EDoc { compat_skip: None, cram, broken, total: None, tests }
}

/// time-based documents for C14: sleeps against per-test and document limits (generous margins)
fn timed_docs() -> Vec<EDoc> {
    let s = |ms: u64, to: Option<u64>| (Beh::Sleep(ms), to);
    vec![
        // per-test limit longer than the document limit: the document limit must win
        EDoc { compat_skip: None, cram: false, broken: false, total: Some(700), tests: vec![s(2500, Some(20_000)), s(10, None)] },
        // per-test limit shorter than the document limit
        EDoc { compat_skip: None, cram: false, broken: false, total: Some(20_000), tests: vec![s(10, None), s(2500, Some(400)), s(10, None)] },
        // cumulative: two sleeps of 0.6 s against a document limit of 1 s
        EDoc { compat_skip: None, cram: false, broken: false, total: Some(1000), tests: vec![s(600, None), s(900, None), s(10, None)] },
        // everything inside all limits
        EDoc { compat_skip: None, cram: false, broken: false, total: Some(20_000), tests: vec![s(100, Some(5_000)), s(100, None)] },
        // unlimited document, per-test limit hit in last position
        EDoc { compat_skip: None, cram: false, broken: false, total: Some(0), tests: vec![s(10, None), s(2500, Some(300))] },
        // the overrunning command ignores / defers SIGTERM: it must be aborted at the limit all the same
        // (6 s of sleep against a limit of 0.4 s: the bound of limit + margin is far below the sleep)
        EDoc { compat_skip: None, cram: false, broken: false, total: Some(20_000), tests: vec![s(10, None), (Beh::SleepNoTerm(6000, true), Some(400)), s(10, None)] },
        EDoc { compat_skip: None, cram: false, broken: false, total: Some(500), tests: vec![(Beh::SleepNoTerm(6000, false), None), s(10, None)] },
        // the document limit runs out while a test case WAITS: it is due with nothing left and must be reported as
        // timed out, the run fails
        EDoc { compat_skip: None, cram: false, broken: false, total: Some(1000), tests: vec![s(10, None), (Beh::WaitSleep(1600, 10), None), s(10, None), s(10, None)] },
        // wait and command together overrun the document limit, neither does alone: 1.5 s + 1.5 s against 2 s
        EDoc { compat_skip: None, cram: false, broken: false, total: Some(2000), tests: vec![s(10, None), (Beh::WaitSleep(1500, 1500), None), s(10, None)] },
        // ... and inside the limit: 0.3 s + 0.3 s against 5 s
        EDoc { compat_skip: None, cram: false, broken: false, total: Some(5000), tests: vec![(Beh::WaitSleep(300, 300), None), s(10, None)] },
    ]
}

fn timed_spec(d: &EDoc) -> Vec<(usize, &'static str)> {
    // simulate wall clock with the documented semantics
    let mut now = 0u64;
    let mut out = vec![];
    let total = match d.total {
        None => Some(900_000),
        Some(0) => None,
        Some(t) => Some(t),
    };
    for (i, (b, to)) in d.tests.iter().enumerate() {
        let dur = match b { Beh::Sleep(ms) | Beh::SleepNoTerm(ms, _) | Beh::WaitSleep(_, ms) => *ms, _ => 0 };
        let wait = if let Beh::WaitSleep(w, _) = b { *w } else { 0 };
        // the wait passes before the remaining time of the document is looked at (fix 5800e20); it is sat out no
        // longer than what is left of the document limit (the model's `startOf`)
        now += total.map_or(wait, |t| wait.min(t.saturating_sub(now)));
        let rem = total.map(|t| t.saturating_sub(now));
        let lim = match (to, rem) {
            (Some(p), Some(r)) => Some((*p).min(r)),
            (Some(p), None) => Some(*p),
            (None, r) => r,
        };
        if lim.map_or(false, |l| l <= dur) {
            out.push((i, "timeout"));
            for j in i + 1..d.tests.len() {
                out.push((j, "skipped"));
            }
            return out;
        }
        now += dur;
        out.push((i, "success"));
    }
    out
}

fn timed_case(prop: &str, d: EDoc, tmproot: &Path, idx: u64) -> CaseRec {
    let want = timed_spec(&d);
    let dir = tmproot.join(format!("timed-{idx}"));
    let _ = std::fs::remove_dir_all(&dir);
    std::fs::create_dir_all(dir.join("tmp")).unwrap();
    let marker = dir.join("marker");
    let (text, ts) = render_doc(&d, 0, &marker);
    let p = dir.join("doc0.md");
    std::fs::write(&p, text).unwrap();
    let t0 = std::time::Instant::now();
    let out = std::process::Command::new(scrut_bin()).arg("test").arg("-r").arg("json").arg(&p).current_dir(&dir).env("TMPDIR", dir.join("tmp")).output().expect("run scrut");
    let wall = t0.elapsed();
    let code = out.status.code().unwrap_or(-1);
    let stdout = String::from_utf8_lossy(&out.stdout).to_string();
    let json: Option<serde_json::Value> = stdout.find('[').and_then(|p| serde_json::from_str(&stdout[p..]).ok());
    let mut got: Vec<(usize, String)> = vec![];
    if let Some(serde_json::Value::Array(items)) = &json {
        for it in items {
            let title = it.get("title").and_then(|t| t.as_str()).or_else(|| it.pointer("/testcase/title").and_then(|t| t.as_str())).unwrap_or("");
            let kind = it.pointer("/result/kind").and_then(|k| k.as_str()).unwrap_or("?").to_string();
            if let Some(i) = title.strip_prefix("D0T").and_then(|x| x.parse::<usize>().ok()) {
                got.push((i, kind));
            }
        }
    }
    let mut fails = vec![];
    let wantv: Vec<(usize, String)> = want.iter().map(|(i, k)| (*i, k.to_string())).collect();
    if got != wantv {
        fails.push(("C14:timed-e2e".into(), format!("total={:?} tests={:?}: reported {:?}, expected {:?}", d.total, d.tests, got, wantv)));
        fails.push(("C20:results-e2e".into(), format!("total={:?} tests={:?}: reported {:?}, expected {:?}", d.total, d.tests, got, wantv)));
    }
    let want_exit = if want.iter().any(|(_, k)| *k == "timeout") { 50 } else { 0 };
    if code != want_exit {
        fails.push(("C14:timed-exit".into(), format!("exit status {code}, expected {want_exit}")));
        fails.push(("C20:exit-status".into(), format!("timed document total={:?} tests={:?}: exit status {code}, expected {want_exit}", d.total, d.tests)));
    }
    // upper bound on wall time: the sum of what may run plus a generous margin
    let bound: u64 = {
        let mut now = 0u64;
        for (i, (b, _)) in d.tests.iter().enumerate() {
            let dur = match b { Beh::Sleep(ms) | Beh::SleepNoTerm(ms, _) | Beh::WaitSleep(_, ms) => *ms, _ => 0 };
            let total = match d.total { None => 900_000, Some(0) => u64::MAX, Some(t) => t };
            if let Beh::WaitSleep(w, _) = b {
                // capped by what is left of the document limit
                now += (*w).min(total.saturating_sub(now));
            }
            if want.get(i).map(|w| w.1) == Some("timeout") {
                let lim = d.tests[i].1.unwrap_or(u64::MAX).min(total.saturating_sub(now));
                now += lim;
                break;
            }
            now += dur;
        }
        now + 2500
    };
    if wall.as_millis() as u64 > bound {
        fails.push(("C14:not-aborted-in-time".into(), format!("run took {} ms, bound {} ms", wall.as_millis(), bound)));
    }
    let _ = std::fs::remove_dir_all(&dir);
    CaseRec {
        op: format!("rundocs {}", doc_field(false, d.total, &ts)),
        impl_out: format!("{} exit={}", got.iter().map(|(i, k)| format!("{i}:{k}")).collect::<Vec<_>>().join(","), code),
        oracle_fail: keep(prop, fails),
        nontrivial: true,
        tags: vec!["e2e:timed".into()],
    }
}

/// reported kinds of the test cases titled `first`, `second`, ... of a `-r json` run
fn titled_kinds(stdout: &str, titles: &[&str]) -> Vec<(usize, String)> {
    let json: Option<serde_json::Value> = stdout.find('[').and_then(|p| serde_json::from_str(&stdout[p..]).ok());
    let mut got: Vec<(usize, String)> = vec![];
    if let Some(serde_json::Value::Array(items)) = &json {
        for it in items {
            let title = it.get("title").and_then(|t| t.as_str()).or_else(|| it.pointer("/testcase/title").and_then(|t| t.as_str())).unwrap_or("");
            let kind = it.pointer("/result/kind").and_then(|k| k.as_str()).unwrap_or("?").to_string();
            if let Some(i) = titles.iter().position(|t| *t == title) {
                got.push((i, kind));
            }
        }
    }
    got
}

/// the `wait` of a test case ALONE outlasts the document limit: the wait is sat out no longer than what is left of the
/// limit, the test case is due with nothing left (timeout), the later ones are skipped, the run is over at the limit.
/// idx: 0 `{wait: 3s}` under front matter `total_timeout: 1s`; 1 the same under `--timeout-seconds 1`;
/// 2 / 3 `{wait: {timeout: 3s, path: never-there}}` under the two kinds of limit; 4 / 5 the two forms of wait behind a
/// test case that has used 0.3 s of the limit up; 6 control: a wait of 0.5 s under 5 s is sat out in full and passes
fn wait_outlasts_case(prop: &str, idx: u64, tmproot: &Path) -> CaseRec {
    let control = idx == 6;
    let path_form = idx == 2 || idx == 3 || idx == 5;
    let cli_limit = idx == 1 || idx == 3;
    let lead = idx == 4 || idx == 5;
    let (wait_ms, limit_ms): (u64, u64) = if control { (500, 5000) } else { (3000, 1000) };
    let dir = tmproot.join(format!("waitcap-{idx}"));
    let _ = std::fs::remove_dir_all(&dir);
    std::fs::create_dir_all(dir.join("tmp")).unwrap();
    let started = dir.join("started");
    let wait_cfg = if path_form { format!("wait: {{timeout: {}s, path: never-there}}", wait_ms / 1000) } else if control { format!("wait: {wait_ms}ms") } else { format!("wait: {}s", wait_ms / 1000) };
    let mut text = String::new();
    let mut args: Vec<String> = vec![];
    if cli_limit {
        args.push("--timeout-seconds".into());
        args.push(format!("{}", limit_ms / 1000));
    } else {
        text.push_str(&format!("---\ntotal_timeout: {}s\n---\n\n", limit_ms / 1000));
    }
    let mut titles: Vec<&str> = vec![];
    if lead {
        text.push_str("# lead\n\n```scrut\n$ sleep 0.3; echo ok\nok\n```\n\n");
        titles.push("lead");
    }
    text.push_str(&format!("# waits\n\n```scrut {{{wait_cfg}}}\n$ echo started > {}; echo ok\nok\n```\n\n# later\n\n```scrut\n$ echo ok\nok\n```\n\n# last\n\n```scrut\n$ echo ok\nok\n```\n", started.display()));
    titles.extend(["waits", "later", "last"]);
    let p = dir.join("doc.md");
    std::fs::write(&p, text).unwrap();
    let t0 = std::time::Instant::now();
    let out = std::process::Command::new(scrut_bin()).arg("test").arg("-r").arg("json").args(&args).arg(&p).current_dir(&dir).env("TMPDIR", dir.join("tmp")).output().expect("run scrut");
    let wall = t0.elapsed().as_millis() as u64;
    let code = out.status.code().unwrap_or(-1);
    let got = titled_kinds(&String::from_utf8_lossy(&out.stdout), &titles);
    let w = lead as usize; // index of the test case that waits
    let kind = |i: usize| got.iter().find(|(j, _)| *j == i).map(|(_, k)| k.as_str()).unwrap_or("?").to_string();
    let mut fails = vec![];
    let what = format!("`{{{wait_cfg}}}` under {} of {limit_ms} ms{}", if cli_limit { "--timeout-seconds" } else { "total_timeout" }, if lead { ", behind a test case of 0.3 s" } else { "" });
    if control {
        if got.iter().any(|(_, k)| k != "success") || got.len() != titles.len() || code != 0 || wall < wait_ms {
            fails.push(("C14:timed-e2e".to_string(), format!("{what}: reported {got:?}, exit status {code}, after {wall} ms; expected three successes, exit status 0, not before {wait_ms} ms")));
        }
    } else {
        let mut why = vec![];
        if wall > limit_ms + 1500 {
            why.push(format!("the run took {wall} ms against a document limit of {limit_ms} ms"));
        }
        if kind(w) != "timeout" {
            why.push(format!("the waiting test case was reported {:?}, not \"timeout\"", kind(w)));
        }
        for i in w + 1..titles.len() {
            if kind(i) != "skipped" {
                why.push(format!("test case {i} (after the aborted one) was reported {:?}, not \"skipped\"", kind(i)));
            }
        }
        if lead && kind(0) != "success" {
            why.push(format!("the test case in front was reported {:?}", kind(0)));
        }
        if !why.is_empty() {
            fails.push(("C14:wait-outlasts-document-limit".to_string(), format!("{what}: {} (reported {got:?}, exit status {code})", why.join("; "))));
        }
        if code != 50 {
            fails.push(("C14:timed-exit".to_string(), format!("{what}: exit status {code}, expected 50")));
            fails.push(("C20:exit-status".to_string(), format!("{what}: exit status {code}, expected 50")));
        }
    }
    let _ = std::fs::remove_dir_all(&dir);
    let base = T { expected: None, stream: 'o', skip: Some(80), timeout: None, acc_empty: false, status: St::Code(0), acc_out: true, acc_err: true, dur: Some(10), wait: 0 };
    let mut model: Vec<T> = vec![];
    if lead {
        model.push(T { dur: Some(300), ..base.clone() });
    }
    model.push(T { wait: wait_ms, ..base.clone() });
    model.push(base.clone());
    model.push(base);
    CaseRec {
        op: format!("rundocs {} case=waitcap.{idx}", doc_field(false, Some(limit_ms), &model)),
        impl_out: format!("{} exit={}", got.iter().map(|(i, k)| format!("{i}:{k}")).collect::<Vec<_>>().join(","), code),
        oracle_fail: keep(prop, fails),
        nontrivial: true,
        tags: vec!["e2e:wait-outlasts-document-limit".into(), format!("e2e:waitcap-form={}", if path_form { "path" } else { "plain" }), format!("e2e:waitcap-limit={}", if cli_limit { "cli" } else { "front-matter" })],
    }
}

/// a time limit beyond what the clock can express (`Instant + Duration` overflows) is no limit: the document passes.
/// idx: 0 Markdown under `--timeout-seconds 18446744073709551615`; 1 Cram under the same; 2 front matter
/// `total_timeout: 0s` and a block `{timeout: 500000000000years}`; 3 the same per-test limit under the default
/// document limit (control: the smaller limit is the one handed on, nothing overflows)
fn huge_limit_case(prop: &str, idx: u64, tmproot: &Path) -> CaseRec {
    let dir = tmproot.join(format!("hugelimit-{idx}"));
    let _ = std::fs::remove_dir_all(&dir);
    std::fs::create_dir_all(dir.join("tmp")).unwrap();
    let huge_cli = vec!["--timeout-seconds".to_string(), "18446744073709551615".to_string()];
    let (name, text, args): (&str, String, Vec<String>) = match idx {
        0 => ("doc.md", "# first\n\n```scrut\n$ echo ok\nok\n```\n\n# second\n\n```scrut\n$ echo ok\nok\n```\n".to_string(), huge_cli),
        1 => ("doc.t", "first\n  $ echo ok\n  ok\n\nsecond\n  $ echo ok\n  ok\n".to_string(), huge_cli),
        2 => ("doc.md", "---\ntotal_timeout: 0s\n---\n\n# first\n\n```scrut {timeout: 500000000000years}\n$ echo ok\nok\n```\n\n# second\n\n```scrut\n$ echo ok\nok\n```\n".to_string(), vec![]),
        _ => ("doc.md", "# first\n\n```scrut {timeout: 500000000000years}\n$ echo ok\nok\n```\n\n# second\n\n```scrut\n$ echo ok\nok\n```\n".to_string(), vec![]),
    };
    let p = dir.join(name);
    std::fs::write(&p, text).unwrap();
    let out = std::process::Command::new(scrut_bin()).arg("test").arg("-r").arg("json").args(&args).arg(&p).current_dir(&dir).env("TMPDIR", dir.join("tmp")).output().expect("run scrut");
    let code = out.status.code().unwrap_or(-1);
    let got = titled_kinds(&String::from_utf8_lossy(&out.stdout), &["first", "second"]);
    let mut fails = vec![];
    if code != 0 || got != vec![(0usize, "success".to_string()), (1usize, "success".to_string())] {
        let stderr = String::from_utf8_lossy(&out.stderr);
        let hint = stderr.lines().find(|l| l.contains("panicked") || l.contains("overflow")).unwrap_or("").to_string();
        fails.push(("C14:huge-limit-crashes".to_string(), format!("huge limit scenario {idx} ({name}, arguments {args:?}): exit status {code}, reported {got:?}; expected two successes and exit status 0 {hint}")));
    }
    let _ = std::fs::remove_dir_all(&dir);
    let cram = idx == 1;
    // the model counts in ms: the largest value the op line carries stands for "beyond the clock"
    let huge = i64::MAX as u64;
    let base = T { expected: None, stream: if cram { 'c' } else { 'o' }, skip: Some(80), timeout: None, acc_empty: false, status: St::Code(0), acc_out: true, acc_err: true, dur: if cram { None } else { Some(10) }, wait: 0 };
    let first = T { timeout: if idx >= 2 { Some(huge) } else { None }, ..base.clone() };
    let total = match idx { 0 | 1 => Some(huge), 2 => Some(0), _ => None };
    CaseRec {
        op: format!("rundocs {} case=hugelimit.{idx}", doc_field(cram, total, &[first, base])),
        impl_out: format!("{} exit={}", got.iter().map(|(i, k)| format!("{i}:{k}")).collect::<Vec<_>>().join(","), code),
        oracle_fail: keep(prop, fails),
        nontrivial: true,
        tags: vec!["e2e:huge-limit".into()],
    }
}

/// "is aborted": once scrut has reported the timeout and exited, the command does not go on running. The slow
/// command writes a marker when its sleep is over; the marker must never appear.
/// idx: kind of limit (4) x the command ignores SIGTERM (2); idx 8 and 9 are controls that end inside the limit;
/// idx 10..13: the command closes stdout and stderr before it sleeps (reading its output ends at once, the limit
/// has to hold for the wait for its exit)
fn abort_case(prop: &str, idx: u64, tmproot: &Path) -> CaseRec {
    let control = idx == 8 || idx == 9;
    let closes = idx >= 10;
    let limit = idx % 4;
    let ignore_term = idx / 4 % 2 == 1 && !control && !closes;
    let dir = tmproot.join(format!("abort-{idx}"));
    let _ = std::fs::remove_dir_all(&dir);
    std::fs::create_dir_all(dir.join("tmp")).unwrap();
    let marker = dir.join("late");
    // limits of 300 ms against 1.2 s of sleep; the command line limit counts in seconds: 1 s against 2 s
    let (sleep_ms, limit_ms) = if control { (100u64, 5000u64) } else if limit >= 2 { (2000, 1000) } else { (1200, 300) };
    let slow = format!("{}{}sleep {}.{:03}; echo late > {}; echo ok", if closes { "exec 1>&- 2>&-; " } else { "" }, if ignore_term { "trap '' TERM; " } else { "" }, sleep_ms / 1000, sleep_ms % 1000, marker.display());
    let (name, text, args): (&str, String, Vec<String>) = match limit {
        0 => ("doc.md", format!("# first\n\n```scrut\n$ echo ok\nok\n```\n\n# slow\n\n```scrut {{timeout: {limit_ms}ms}}\n$ {slow}\nok\n```\n"), vec![]),
        1 => ("doc.md", format!("---\ntotal_timeout: {limit_ms}ms\n---\n\n# slow\n\n```scrut\n$ {slow}\nok\n```\n"), vec![]),
        2 => ("doc.md", format!("# slow\n\n```scrut\n$ {slow}\nok\n```\n"), vec!["--timeout-seconds".into(), format!("{}", limit_ms / 1000)]),
        _ => ("doc.t", format!("first\n  $ echo ok\n  ok\n\nslow\n  $ {slow}\n  ok\n"), vec!["--timeout-seconds".into(), format!("{}", limit_ms / 1000)]),
    };
    let p = dir.join(name);
    std::fs::write(&p, text).unwrap();
    let t0 = std::time::Instant::now();
    let out = std::process::Command::new(scrut_bin()).arg("test").arg("-r").arg("json").args(&args).arg(&p).current_dir(&dir).env("TMPDIR", dir.join("tmp")).output().expect("run scrut");
    let wall = t0.elapsed().as_millis() as u64;
    let code = out.status.code().unwrap_or(-1);
    let mut fails = vec![];
    let want = if control { 0 } else { 50 };
    if code != want {
        fails.push(("C14:timed-exit".into(), format!("abort scenario {idx}: exit status {code}, expected {want}")));
    }
    if !control && wall > limit_ms + 2500 {
        fails.push(("C14:not-aborted-in-time".into(), format!("abort scenario {idx}: run took {wall} ms against a limit of {limit_ms} ms")));
    }
    // what was reported, in the model's terms: [first,] slow under the limit
    let stdout = String::from_utf8_lossy(&out.stdout).to_string();
    let json: Option<serde_json::Value> = stdout.find('[').and_then(|p| serde_json::from_str(&stdout[p..]).ok());
    let has_first = limit == 0 || limit == 3;
    let mut got: Vec<(usize, String)> = vec![];
    if let Some(serde_json::Value::Array(items)) = &json {
        for it in items {
            let title = it.get("title").and_then(|t| t.as_str()).or_else(|| it.pointer("/testcase/title").and_then(|t| t.as_str())).unwrap_or("");
            let kind = it.pointer("/result/kind").and_then(|k| k.as_str()).unwrap_or("?").to_string();
            match title {
                "first" => got.push((0, kind)),
                "slow" => got.push((has_first as usize, kind)),
                _ => {}
            }
        }
    }
    let cram = limit == 3;
    let base = T { expected: None, stream: if cram { 'c' } else { 'o' }, skip: Some(80), timeout: None, acc_empty: false, status: St::Code(0), acc_out: true, acc_err: true, dur: None, wait: 0 };
    let mut model: Vec<T> = vec![];
    if has_first {
        model.push(T { ..base.clone() });
    }
    if cram {
        // the model of a Cram document has no clock: the script as a whole ends with a status (`dur = 1` marks where)
        model.push(T { dur: Some(1), status: St::Timeout, ..base.clone() });
    } else {
        model.push(T { dur: Some(sleep_ms), timeout: if limit == 0 { Some(limit_ms) } else { None }, ..base.clone() });
    }
    let total = if limit == 0 { None } else { Some(limit_ms) };
    // look only after the command would have ended by itself
    let until = sleep_ms + 500;
    if wall < until {
        std::thread::sleep(Duration::from_millis(until - wall));
    }
    if control != marker.exists() {
        let what = if control { "the control command (inside all limits) did not run to its end".to_string() } else { format!("the command went on after scrut reported the timeout and exited: its marker appeared (limit kind {limit}, {limit_ms} ms against {sleep_ms} ms of sleep, SIGTERM ignored: {ignore_term}, output streams closed first: {closes})") };
        fails.push(("C14:not-aborted".into(), what));
    }
    let _ = std::fs::remove_dir_all(&dir);
    CaseRec {
        op: format!("rundocs {} case=abort.{idx}", doc_field(cram, total, &model)),
        impl_out: format!("{} exit={}", got.iter().map(|(i, k)| format!("{i}:{k}")).collect::<Vec<_>>().join(","), code),
        oracle_fail: keep(prop, fails),
        nontrivial: true,
        tags: vec!["e2e:abort".into(), format!("e2e:abort-limit={limit}")],
    }
}

/// a shell expression larger than the pipe buffer (64 KiB) whose shell ends before it has read all of it: the command
/// finishes at once, inside every limit, and must not be reported as timed out.
/// idx 0: control (150 KB of comment lines in FRONT of the command: everything is read); 1: `exit 0` first; 2: `echo early; exit 3` first
fn oversized_case(prop: &str, idx: u64, tmproot: &Path) -> CaseRec {
    let dir = tmproot.join(format!("oversized-{idx}"));
    let _ = std::fs::remove_dir_all(&dir);
    std::fs::create_dir_all(dir.join("tmp")).unwrap();
    let filler: String = format!("> # {}\n", "x".repeat(100)).repeat(1500);
    let (head, tail, exp) = match idx {
        0 => ("$ : start\n", "> echo ok\n", "ok\n"),
        1 => ("$ exit 0\n", "", ""),
        _ => ("$ echo early; exit 3\n", "", "early\n[3]\n"),
    };
    let text = format!("# first\n\n```scrut\n{head}{filler}{tail}{exp}```\n\n# second\n\n```scrut\n$ echo hi\nhi\n```\n");
    let p = dir.join("doc.md");
    std::fs::write(&p, text).unwrap();
    let t0 = std::time::Instant::now();
    let out = std::process::Command::new(scrut_bin()).arg("test").arg("-r").arg("json").arg(&p).current_dir(&dir).env("TMPDIR", dir.join("tmp")).output().expect("run scrut");
    let wall = t0.elapsed().as_millis() as u64;
    let code = out.status.code().unwrap_or(-1);
    let stdout = String::from_utf8_lossy(&out.stdout).to_string();
    let json: Option<serde_json::Value> = stdout.find('[').and_then(|p| serde_json::from_str(&stdout[p..]).ok());
    let kinds: Vec<String> = (0..2).map(|i| json.as_ref().and_then(|j| j.pointer(&format!("/{i}/result/kind")).and_then(|v| v.as_str()).map(|s| s.to_string())).unwrap_or("?".into())).collect();
    let mut fails = vec![];
    // (the same broken pipe surfaces as a timeout or, when the write hits it first, as an unknown exit: one finding)
    if kinds.iter().any(|k| k == "timeout") || (idx != 0 && kinds != ["success", "success"]) {
        let class = if idx == 0 { "C14:spurious-timeout" } else { "C14:spurious-timeout-shell-left-oversized-expression" };
        fails.push((class.to_string(), format!("a shell expression of 150 KB whose first line is {:?}: reported {:?} after {wall} ms (document limit 15 min, no per-test limit), exit status {code}", head.trim_end(), kinds)));
    } else if kinds != ["success", "success"] {
        fails.push(("C14:oversized-expression-outcome".to_string(), format!("a shell expression of 150 KB whose first line is {:?}: reported {:?}, exit status {code}", head.trim_end(), kinds)));
    }
    let _ = std::fs::remove_dir_all(&dir);
    let base = T { expected: None, stream: 'o', skip: Some(80), timeout: None, acc_empty: false, status: St::Code(0), acc_out: true, acc_err: true, dur: None, wait: 0 };
    let first = if idx == 2 { T { expected: Some(3), status: St::Code(3), ..base.clone() } } else { T { acc_empty: idx == 1, ..base.clone() } };
    // the model knows nothing of pipes: it says what the property says. The implementation line is the model's
    // whenever no spurious timeout was reported (so the open finding is carried by the oracle class alone).
    let impl_kinds = if fails.iter().any(|f| f.0.starts_with("C14:spurious-timeout")) { "0:success,1:success".to_string() } else { kinds.iter().enumerate().map(|(i, k)| format!("{i}:{k}")).collect::<Vec<_>>().join(",") };
    let impl_exit = if fails.iter().any(|f| f.0.starts_with("C14:spurious-timeout")) { 0 } else { code };
    CaseRec {
        op: format!("rundocs {} case=oversized.{idx}", doc_field(false, None, &[first, base])),
        impl_out: format!("{impl_kinds} exit={impl_exit}"),
        oracle_fail: keep(prop, fails),
        nontrivial: true,
        tags: vec!["e2e:oversized-expression".into()],
    }
}

/// the skip code 0 in single-script execution: the script that runs to its end exits with 0 itself
fn script_skip_code_zero_case(prop: &str, tmproot: &Path) -> CaseRec {
    let dir = tmproot.join("sst-zero");
    let _ = std::fs::remove_dir_all(&dir);
    std::fs::create_dir_all(dir.join("tmp")).unwrap();
    let p = dir.join("doc.md");
    std::fs::write(&p, "# t\n\n```scrut {skip_document_code: 0}\n$ false\n[1]\n```\n").unwrap();
    let out = std::process::Command::new(scrut_bin()).arg("test").arg("-r").arg("json").arg("--cram-compat").arg(&p).current_dir(&dir).env("TMPDIR", dir.join("tmp")).output().expect("run scrut");
    let code = out.status.code().unwrap_or(-1);
    let stdout = String::from_utf8_lossy(&out.stdout).to_string();
    let json: Option<serde_json::Value> = stdout.find('[').and_then(|p| serde_json::from_str(&stdout[p..]).ok());
    let kind = json.as_ref().and_then(|j| j.pointer("/0/result/kind").and_then(|v| v.as_str()).map(|s| s.to_string())).unwrap_or("?".into());
    let mut fails = vec![];
    if kind != "success" {
        fails.push(("C15:script-skip-code-zero".to_string(), format!("`{{skip_document_code: 0}}` / `$ false` / `[1]` under --cram-compat: reported {kind:?} (exit {code}) although no test case ended with 0")));
    }
    let _ = std::fs::remove_dir_all(&dir);
    // the model agrees with the binary here (C15_script_skipped_cause_fails_on_witness): no model line of its own
    CaseRec { op: "noop".into(), impl_out: "ok".into(), oracle_fail: keep(prop, fails), nontrivial: true, tags: vec!["e2e:script-skip-code-zero".into()] }
}

/// single-script execution: a test case ends with the skip code WITHOUT leaving the shell, a later one runs into the
/// document's time limit. The document is skipped (as in per-process execution, where execution ends at the skip
/// code); with another exit code in that place the timeout is reported.
/// idx: skip / control (2) x Cram document / Markdown under --cram-compat (2) x the later test case sleeps into the
/// limit / kills the shell (2); idx 8: the skip code 0 (open finding C15:script-skip-code-zero)
fn script_skip_then_timeout_case(prop: &str, idx: u64, tmproot: &Path) -> CaseRec {
    if idx == 8 {
        return script_skip_code_zero_case(prop, tmproot);
    }
    let skip = idx % 2 == 0;
    let compat = idx / 2 % 2 == 1;
    let killed = idx / 4 % 2 == 1;
    let dir = tmproot.join(format!("sst-{idx}"));
    let _ = std::fs::remove_dir_all(&dir);
    std::fs::create_dir_all(dir.join("tmp")).unwrap();
    let first = if skip { "(exit 80)" } else { "(exit 3)" };
    let code_line = if skip { "" } else { "[3]\n" };
    let slow = if killed { "kill -9 $$" } else { "sleep 3" };
    let (name, text) = if compat {
        ("doc.md", format!("# first\n\n```scrut\n$ {first}\n{code_line}```\n\n# slow\n\n```scrut\n$ {slow}; echo ok\nok\n```\n"))
    } else {
        ("doc.t", format!("first\n  $ {first}\n{}\nslow\n  $ {slow}; echo ok\n  ok\n", if skip { String::new() } else { "  [3]\n".to_string() }))
    };
    let p = dir.join(name);
    std::fs::write(&p, text).unwrap();
    let mut cmd = std::process::Command::new(scrut_bin());
    cmd.arg("test").arg("-r").arg("json").arg("--timeout-seconds").arg("1");
    if compat {
        cmd.arg("--cram-compat");
    }
    let out = cmd.arg(&p).current_dir(&dir).env("TMPDIR", dir.join("tmp")).output().expect("run scrut");
    let code = out.status.code().unwrap_or(-1);
    let stdout = String::from_utf8_lossy(&out.stdout).to_string();
    let json: Option<serde_json::Value> = stdout.find('[').and_then(|p| serde_json::from_str(&stdout[p..]).ok());
    let kinds: Vec<String> = (0..2).map(|i| json.as_ref().and_then(|j| j.pointer(&format!("/{i}/result/kind")).and_then(|v| v.as_str()).map(|s| s.to_string())).unwrap_or("?".into())).collect();
    // a killed shell without a skip code in front is an execution error: exit status 1, nothing reported
    let (want, want_exit): (Vec<&str>, i32) = if skip { (vec!["skipped", "skipped"], 0) } else if killed { (vec!["?", "?"], 1) } else { (vec!["timeout", "skipped"], 50) };
    let mut fails = vec![];
    if kinds != want || code != want_exit {
        let what = format!("single-script document [{first}; {slow}] under --timeout-seconds 1{}: reported {:?} exit {code}, expected {:?} exit {want_exit}", if compat { " --cram-compat" } else { "" }, kinds, want);
        fails.push(("C15:skip-e2e".to_string(), what.clone()));
        fails.push(("C14:timed-e2e".to_string(), what.clone()));
        fails.push(("C20:results-e2e".to_string(), what));
    }
    let _ = std::fs::remove_dir_all(&dir);
    let base = T { expected: None, stream: if compat { 'o' } else { 'c' }, skip: Some(80), timeout: None, acc_empty: true, status: St::Code(0), acc_out: true, acc_err: true, dur: None, wait: 0 };
    let t0 = if skip { T { status: St::Code(80), ..base.clone() } } else { T { expected: Some(3), status: St::Code(3), ..base.clone() } };
    // the model of a single-script document has no clock: the script as a whole ends with a status (`dur = 1` marks where)
    let t1 = T { dur: Some(1), status: if killed { St::Unknown } else { St::Timeout }, acc_empty: false, ..base.clone() };
    let impl_out = if kinds.iter().all(|k| k == "?") { format!("ERR exit={code}") } else { format!("{} exit={}", kinds.iter().enumerate().map(|(i, k)| format!("{i}:{k}")).collect::<Vec<_>>().join(","), code) };
    CaseRec {
        op: format!("rundocs {} case=sst.{idx}", doc_field(true, Some(1000), &[t0, t1])),
        impl_out,
        oracle_fail: keep(prop, fails),
        nontrivial: true,
        tags: vec!["e2e:script-skip-then-timeout".into(), format!("e2e:sst-skip={skip}")],
    }
}

pub fn run(ctx: &Ctx, prop: &str) {
    let tmproot = std::env::temp_dir().join(format!("scrut-verif-exec-{}", std::process::id()));
    std::fs::create_dir_all(&tmproot).unwrap();
    // 1. validate table (exhaustive)
    ctx.run_stream("validate-table", 9 * 4 * 4 * 2 * 2 * 2, true, |idx| Some(validate_case(prop, idx)));
    // 2. scripted executor: all status sequences up to length 3 (thorough: 4) x document limits
    let maxlen = if ctx.thorough { 4 } else { 3 };
    let mut offsets = vec![];
    let mut total_cases = 0u64;
    for len in 0..=maxlen {
        offsets.push((len, total_cases));
        total_cases += 8u64.pow(len as u32) * 4;
    }
    let seed = ctx.seed;
    let tr = tmproot.clone();
    ctx.run_stream("executor-scripted", total_cases, false, |idx| {
        let (len, base) = *offsets.iter().rev().find(|(_, b)| *b <= idx).unwrap();
        let mut r = idx - base;
        let total = [None, Some(0), Some(2000), Some(60_000)][(r % 4) as usize];
        r /= 4;
        let mut sts = vec![];
        for _ in 0..len {
            sts.push(STATUSES[(r % 8) as usize]);
            r /= 8;
        }
        let mut rng = Rng::fork(seed, 11, idx);
        let tests = gen_tests(&mut rng, len, Some(&sts));
        Some(exec_case(prop, total, tests, &tr))
    });
    ctx.note(format!("executor-scripted: every status sequence over {{c0,c1,c80,c7,timeout,skipped,detached,unknown}} up to length {maxlen} x document limit {{absent,0,2s,60s}}, per-test fields (expected code, stream, skip code, timeout, acceptance) drawn from the seed"));
    // 3. end-to-end with the real binary and bash
    let n_e2e = if ctx.thorough { 400 } else { 48 };
    let tr = tmproot.clone();
    ctx.run_stream("e2e-binary", n_e2e, false, |idx| {
        let mut rng = Rng::fork(seed, 12, idx);
        let nd = rng.range(1, 3);
        let docs: Vec<EDoc> = (0..nd).map(|_| gen_edoc(&mut rng, true)).collect();
        Some(e2e_case(prop, docs, &tr, idx))
    });
    // 3b. every ordered pair of behaviours in one Markdown document: [a, pass, b, pass]
    let behs = [Beh::Pass, Beh::PassCode(2), Beh::BadOut, Beh::BadCode(3), Beh::Skip(None), Beh::Skip(Some(7)), Beh::Timeout, Beh::Kill, Beh::Detached, Beh::Signal(15)];
    let tr = tmproot.clone();
    let nb = behs.len() as u64;
    ctx.run_stream("e2e-behaviour-pairs-exhaustive", nb * nb, true, |idx| {
        let a = behs[(idx / nb) as usize].clone();
        let b = behs[(idx % nb) as usize].clone();
        let to = |x: &Beh| if matches!(x, Beh::Timeout) { Some(300) } else { None };
        let tests = vec![(a.clone(), to(&a)), (Beh::Pass, None), (b.clone(), to(&b)), (Beh::Pass, None)];
        Some(e2e_case(prop, vec![EDoc { compat_skip: None, cram: false, broken: false, total: None, tests }], &tr, 10_000 + idx))
    });
    // 3b'. a detached test case first, then every ordered pair, then a test case that times out: the results of the
    // timeout path must belong to the right test cases (outputs and test cases stay aligned around detached ones)
    let tr = tmproot.clone();
    ctx.run_stream("e2e-detached-pair-timeout-exhaustive", nb * nb, true, |idx| {
        let a = behs[(idx / nb) as usize].clone();
        let b = behs[(idx % nb) as usize].clone();
        let to = |x: &Beh| if matches!(x, Beh::Timeout) { Some(300) } else { None };
        let tests = vec![(Beh::Detached, None), (a.clone(), to(&a)), (b.clone(), to(&b)), (Beh::Timeout, Some(300)), (Beh::Pass, None)];
        Some(e2e_case(prop, vec![EDoc { compat_skip: None, cram: false, broken: false, total: None, tests }], &tr, 30_000 + idx))
    });
    let cbehs = [Beh::Pass, Beh::PassCode(2), Beh::BadOut, Beh::BadCode(3), Beh::Skip(None), Beh::ExitShell(3), Beh::ExitShell(80), Beh::ExitShell(0)];
    let tr = tmproot.clone();
    let ncb = cbehs.len() as u64;
    ctx.run_stream("e2e-cram-behaviour-pairs-exhaustive", ncb * ncb, true, |idx| {
        let a = cbehs[(idx / ncb) as usize].clone();
        let b = cbehs[(idx % ncb) as usize].clone();
        let tests = vec![(a, None), (Beh::Pass, None), (b, None), (Beh::Pass, None)];
        Some(e2e_case(prop, vec![EDoc { compat_skip: None, cram: true, broken: false, total: None, tests }], &tr, 20_000 + idx))
    });
    // 3b''. Markdown documents run with --cram-compat and a document-wide custom skip code: [a, pass, b, pass]
    let tr = tmproot.clone();
    let kbehs = [Beh::Pass, Beh::BadOut, Beh::BadCode(3), Beh::Skip(None), Beh::ExitShell(3), Beh::ExitShell(80), Beh::ExitShell(42), Beh::PassCode(80)];
    let nk = kbehs.len() as u64;
    ctx.run_stream("e2e-compat-custom-skip-pairs-exhaustive", nk * nk * 2, true, |idx| {
        let code = if idx % 2 == 0 { 42 } else { 80 };
        let a = kbehs[((idx / 2) / nk) as usize].clone();
        let b = kbehs[((idx / 2) % nk) as usize].clone();
        // PassCode(80) under the default code is a skip: express it as such
        let fix = |x: Beh| if code == 80 && matches!(x, Beh::PassCode(80)) { Beh::Skip(None) } else { x };
        let tests = vec![(fix(a), None), (Beh::Pass, None), (fix(b), None), (Beh::Pass, None)];
        Some(e2e_case(prop, vec![EDoc { compat_skip: Some(code), cram: true, broken: false, total: None, tests }], &tr, 40_000 + idx))
    });
    // 3c. prepend / append from front-matter and command line (C20; thorough for the others)
    if prop == "C20" || ctx.thorough {
        let tr = tmproot.clone();
        let all = 81 * 4;
        let n = if ctx.thorough { all } else { 40 };
        ctx.run_stream("e2e-prepend-append", n, ctx.thorough, |i| {
            // quick: a seeded sample of the 324 combinations; thorough: all of them
            let idx = if ctx.thorough { i } else { Rng::fork(seed, 13, i).below(all) };
            Some(prepend_append_case(prop, idx, i, &tr))
        });
    }
    // 3d. directories on the command line (C20)
    if prop == "C20" || ctx.thorough {
        let tr = tmproot.clone();
        ctx.run_stream("e2e-directory", if ctx.thorough { 200 } else { 24 }, false, |i| Some(dir_case(prop, seed.wrapping_mul(1000) + i, &tr)));
    }
    // 4. wall-clock documents (C14; a short list, each a few seconds at most)
    if prop == "C14" || prop == "C20" || ctx.thorough {
        let docs = timed_docs();
        let tr = tmproot.clone();
        ctx.run_stream("e2e-timed", docs.len() as u64, false, |idx| Some(timed_case(prop, docs[idx as usize].clone(), &tr, idx)));
    }
    // 4b. a timed-out command is aborted, not abandoned (C14)
    if prop == "C14" || ctx.thorough {
        let tr = tmproot.clone();
        ctx.run_stream("e2e-timeout-aborts-exhaustive", 14, true, |idx| Some(abort_case(prop, idx, &tr)));
    }
    // 4b0. a wait that alone outlasts the document limit is cut at the limit (C14; the exit status also for C20)
    if prop == "C14" || prop == "C20" || ctx.thorough {
        let tr = tmproot.clone();
        ctx.run_stream("e2e-wait-outlasts-document-limit-exhaustive", 7, true, |idx| Some(wait_outlasts_case(prop, idx, &tr)));
    }
    // 4b1. a limit beyond what the clock can express is no limit (C14; the exit status also for C20)
    if prop == "C14" || prop == "C20" || ctx.thorough {
        let tr = tmproot.clone();
        ctx.run_stream("e2e-huge-limit-exhaustive", 4, true, |idx| Some(huge_limit_case(prop, idx, &tr)));
    }
    // 4b'. single-script execution: a skip code in front of a timeout skips the document (C15; also C14, C20)
    if prop == "C15" || prop == "C14" || ctx.thorough {
        let tr = tmproot.clone();
        ctx.run_stream("e2e-script-skip-then-timeout-exhaustive", 9, true, |idx| Some(script_skip_then_timeout_case(prop, idx, &tr)));
    }
    // 4c. a command that ends at once is not a timeout, however large its shell expression (C14)
    if prop == "C14" || ctx.thorough {
        let tr = tmproot.clone();
        ctx.run_stream("e2e-oversized-expression-exhaustive", 3, true, |idx| Some(oversized_case(prop, idx, &tr)));
    }
    let _ = std::fs::remove_dir_all(&tmproot);
}

pub fn replay(prop: &str, op: &str) -> bool {
    // replays `validate …` and `exec …` ops in-process; `rundocs` ops are regenerated end-to-end by their seed
    let parts: Vec<&str> = op.split_whitespace().collect();
    let tmp = std::env::temp_dir().join(format!("scrut-verif-replay-{}", std::process::id()));
    std::fs::create_dir_all(&tmp).unwrap();
    let ok = match parts.first() {
        Some(&"exec") | Some(&"rundocs") => {
            let mut all_ok = true;
            for d in parts[1].split('|') {
                if d == "ERR" {
                    continue;
                }
                let mut fields = d.split(';');
                let total = fields.next().and_then(|t| t.trim_start_matches('C').parse::<u64>().ok());
                let tests: Vec<T> = fields
                    .filter(|f| !f.is_empty())
                    .map(|f| {
                        let x: Vec<&str> = f.split(',').collect();
                        let st = match x[5] {
                            "t" => St::Timeout,
                            "s" => St::Skipped,
                            "d" => St::Detached,
                            "u" => St::Unknown,
                            c => St::Code(c[1..].parse().unwrap_or(0)),
                        };
                        T { expected: x[0].parse().ok(), stream: x[1].chars().next().unwrap(), skip: x[2].parse().ok(), timeout: x[3].parse().ok(), acc_empty: x[4] == "1", status: st, acc_out: x[6] == "1", acc_err: x[7] == "1", dur: None, wait: 0 }
                    })
                    .collect();
                let c = exec_case(prop, total, tests, &tmp);
                println!("impl: {}", c.impl_out);
                for (cl, d) in &c.oracle_fail {
                    println!("oracle-failure {cl}: {d}");
                }
                all_ok &= c.oracle_fail.is_empty();
            }
            all_ok
        }
        _ => {
            eprintln!("replay of this op kind is not supported in-process: {op}");
            false
        }
    };
    let _ = std::fs::remove_dir_all(&tmp);
    ok
}
