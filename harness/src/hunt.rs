//! The corpus of concrete inputs on which the REAL binary was shown to violate a property ("hunt round": fresh
//! sub-agents that saw only the property text and the unchanged code, DESIGN §12.3c). Every input is a shell script
//! `/verif/hunt/<property>/<name>.sh <scrut binary>` that builds its documents in a scratch directory, runs the binary
//! and exits with 1 when the violation is PRESENT, with 0 when it is absent (anything else: inconclusive).
//!
//! * a script whose finding was repaired (`fixed:` line in known_findings.txt) is a regression case: it must exit 0;
//! * a script whose finding is open is listed in known_findings.txt under the class `<property>:hunt-<name>`: the
//!   check prints its KNOWN-FINDING line; when a repair makes it exit 0 nothing is reported.
//!
//! The cases are oracle-only (the model has no part in them); they run one after the other (several of them measure
//! time) before the result is handed to the common reporting.
use crate::common::*;
use std::path::PathBuf;

fn scrut_bin() -> String {
    std::env::var("SCRUT_BIN").unwrap_or("/verif/.build/repo-target/debug/scrut".into())
}

fn hunt_dir() -> PathBuf {
    PathBuf::from(std::env::var("VERIF_DIR").unwrap_or("/verif".into())).join("hunt")
}

fn scripts(prop: &str) -> Vec<PathBuf> {
    let mut v: Vec<PathBuf> = match std::fs::read_dir(hunt_dir().join(prop)) {
        Ok(rd) => rd
            .filter_map(|e| e.ok().map(|e| e.path()))
            .filter(|p| p.extension().map_or(false, |x| x == "sh") && !p.file_name().map_or(true, |n| n.to_string_lossy().starts_with('_')))
            .collect(),
        Err(_) => vec![],
    };
    v.sort();
    v
}

const LIMIT_SECS: u64 = 180;

fn run_script(prop: &str, script: &PathBuf, base: &PathBuf) -> CaseRec {
    let name = script.file_stem().unwrap().to_string_lossy().to_string();
    let op = format!("oracle-only hunt {prop} {name}");
    let out = std::process::Command::new("timeout")
        .arg(format!("{LIMIT_SECS}"))
        .arg("bash")
        .arg(script)
        .arg(scrut_bin())
        .env("HUNT_BASE", base)
        .env("TMPDIR", base)
        .env_remove("SCRUT_TEST")
        .stdin(std::process::Stdio::null())
        .output();
    let (code, text) = match out {
        Ok(o) => (o.status.code().unwrap_or(-1), format!("{}{}", String::from_utf8_lossy(&o.stdout), String::from_utf8_lossy(&o.stderr))),
        Err(e) => (-2, format!("cannot run the script: {e}")),
    };
    let mut fails = vec![];
    let state = match code {
        0 => "absent",
        1 => {
            let line = text.lines().rev().find(|l| l.contains("VIOLATION")).or_else(|| text.lines().rev().find(|l| !l.trim().is_empty())).unwrap_or("").to_string();
            fails.push((format!("{prop}:hunt-{name}"), format!("hunt/{prop}/{name}.sh exits 1 on this binary: {}", line.chars().take(300).collect::<String>())));
            "present"
        }
        _ => "inconclusive",
    };
    CaseRec { op, impl_out: "oracle-only".to_string(), oracle_fail: fails, nontrivial: true, tags: vec![format!("hunt:{name}:{state}")] }
}

pub fn run(ctx: &Ctx, prop: &str) {
    let list = scripts(prop);
    if list.is_empty() {
        return;
    }
    let base = std::env::temp_dir().join(format!("scrut-verif-hunt-{}", std::process::id()));
    let _ = std::fs::remove_dir_all(&base);
    std::fs::create_dir_all(&base).expect("scratch directory of the hunt corpus");
    let recs: Vec<std::sync::Mutex<Option<CaseRec>>> = list.iter().map(|s| std::sync::Mutex::new(Some(run_script(prop, s, &base)))).collect();
    let _ = std::fs::remove_dir_all(&base);
    ctx.run_stream("hunt-corpus-exhaustive", recs.len() as u64, true, |idx| recs[idx as usize].lock().unwrap().take());
}

pub fn is_hunt_op(op: &str) -> bool {
    op.trim_start().starts_with("oracle-only hunt ")
}

pub fn replay(prop: &str, op: &str) -> bool {
    let f: Vec<&str> = op.split_whitespace().collect();
    if f.len() < 4 {
        eprintln!("malformed hunt op");
        return false;
    }
    let script = hunt_dir().join(f[2]).join(format!("{}.sh", f[3]));
    let base = std::env::temp_dir().join(format!("scrut-verif-hunt-{}", std::process::id()));
    std::fs::create_dir_all(&base).expect("scratch directory");
    println!("bash {} {}", script.display(), scrut_bin());
    let rec = run_script(prop, &script, &base);
    let _ = std::fs::remove_dir_all(&base);
    for (c, t) in &rec.oracle_fail {
        println!("[{c}] {t}");
    }
    println!("{}", rec.tags.join(" "));
    rec.oracle_fail.is_empty()
}
