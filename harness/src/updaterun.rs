//! C09 / C10 end to end against the INTEGRATED model of `scrut update`: `scrut update --replace --assume-yes <one
//! Markdown document>` with the real binary vs. `Model/UpdateRun.lean` (`upddoc` op), which composes the piece models
//! (read_file, Markdown parser, expectation grammar, rules, inline configuration, `render_output`, `split_at_newline`,
//! the greedy matcher, `validate`, the executor's skip handling, `Outcome::generate_testcase` on the update path,
//! `MarkdownUpdateGenerator::generate_update`, `updated == content`) in the order of src/bin/commands/update.rs.
//!
//! `cli-update-e2e` (cli.rs) ties the binary to the model of `generate_update` only, fed with the texts the REAL
//! library generated; here nothing of the library stands between the document + known outputs and the written file:
//! which outcome goes to which block, which stream is judged and which one is regenerated for a wrong exit code, that
//! passing tests keep their lines and that an unchanged document is not written are all decided inside the model.
//!
//! The commands have KNOWN output: `cat <abs>/pK.out; cat <abs>/pK.err >&2; (exit N)` (generator of testrun.rs with
//! another mix: more stale / partly matching expectations, fewer quantifiers, no escaper choice).
use crate::cli::{file_parse, fresh_dir, scrut, scrut_bodies, sv};
use crate::common::*;
use crate::generate::{c10_outside, c10_ref_segments, keep, unicode_other, RefSeg};
use crate::testrun::{build_body, own_lines, payload, render_doc, runs_field, short, Broken, Cfg, Doc, Expected, Mode, TSpec, FILLERS, LINES};
use scrut::diff::DiffLine;
use scrut::escaping::Escaper;
use scrut::newline::replace_crlf;
use scrut::output::{ExitStatus, Output};
use scrut::parsers::parser::ParserType;
use scrut::testcase::TestCaseError;
use std::path::{Path, PathBuf};

const STREAM: u64 = 75;

fn tmproot(what: &str) -> PathBuf {
    let base = std::env::temp_dir();
    let ok = base.to_str().map_or(false, |s| s.starts_with('/') && s.chars().all(|c| c.is_ascii_alphanumeric() || "/_-.".contains(c)));
    let base = if ok { base } else { PathBuf::from("/tmp") };
    base.join(format!("scrut-verif-upddoc-{what}-{}", std::process::id()))
}

/// the fillers of testrun.rs plus scrut blocks WITHOUT code (they hold no test and consume no outcome)
const FILLERS_UPD: [&str; 10] = [FILLERS[0], FILLERS[1], FILLERS[2], FILLERS[3], FILLERS[4], FILLERS[5], FILLERS[6], FILLERS[7], "```scrut\n```\n", "```scrut {timeout: 3s}\n# only a comment\n```\n"];

/// `n` lines from a small pool (so that lines repeat), the last one with or without line feed
fn payload_n(rng: &mut Rng, n: usize) -> Vec<u8> {
    let pool: Vec<&[u8]> = (0..rng.range(2, 4)).map(|_| if rng.chance(2, 3) { LINES[rng.below(14) as usize] } else { *rng.pick(&LINES) }).collect();
    let mut o = vec![];
    for k in 0..n {
        o.extend_from_slice(*rng.pick(&pool));
        if k + 1 < n || rng.chance(4, 5) {
            o.push(b'\n');
        }
    }
    o
}

fn gen_doc(seed: u64, idx: u64) -> Doc {
    let mut rng = Rng::fork(seed, STREAM, idx);
    // `scrut update` without `-e`: the default of the Markdown format
    let escaper = Escaper::Unicode;
    let n = rng.range(1, 4);
    let mut tests = vec![];
    for _ in 0..n {
        let cfg = match rng.below(100) {
            0..=49 => Cfg::None,
            50..=74 => Cfg::Stderr,
            75..=79 => Cfg::Stdout,
            80..=84 => Cfg::Combined,
            85..=88 => Cfg::KeepCrlf,
            89 | 90 => Cfg::NoKeepCrlf,
            91..=94 => Cfg::StripAnsi,
            95 | 96 => Cfg::Skip3,
            _ => Cfg::TimeoutStderr,
        };
        let mode = match rng.below(100) {
            0..=21 => Mode::Exact,
            22..=37 => Mode::Stale,
            38..=59 => Mode::Mixed,
            60..=67 => Mode::Missing,
            68..=75 => Mode::WrongStream,
            76..=83 => Mode::NearMiss,
            // a minority with quantifiers (retained quantified expectations are a known finding of C09 / C10)
            84..=87 => Mode::Quantified,
            88..=91 => Mode::Globbed,
            92..=94 => Mode::OptionalNoise,
            95..=98 => Mode::MultilineRun,
            _ => Mode::Regex,
        };
        let stderr_selected = matches!(cfg, Cfg::Stderr | Cfg::TimeoutStderr);
        let mut out = payload(&mut rng);
        let mut err = match rng.below(6) {
            0 => out.clone(),
            1 => vec![],
            _ => payload(&mut rng),
        };
        match mode {
            // partly matching needs a few lines on the stream that is compared
            Mode::Mixed | Mode::Stale if rng.chance(3, 4) => {
                let n = rng.range(3, 6);
                let p = payload_n(&mut rng, n);
                if stderr_selected {
                    err = p
                } else {
                    out = p
                }
            }
            // a near miss needs lines that end in a blank (and lines that do not)
            Mode::NearMiss => {
                let n = rng.range(1, 3);
                let mut p = vec![];
                for k in 0..n {
                    p.extend_from_slice(*rng.pick(&[&b"foo "[..], b"foo  ", b"foo", b"x ", b"beta gamma ", b"bar"]));
                    if k + 1 < n || rng.chance(3, 4) {
                        p.push(b'\n');
                    }
                }
                if stderr_selected {
                    err = p
                } else {
                    out = p
                }
            }
            _ => {}
        }
        let code = match rng.below(60) {
            0 => 80,
            1..=9 => 1,
            10..=15 => 3,
            16..=19 => 255,
            _ => 0,
        };
        let expected = match (rng.below(20), code) {
            (0..=2, _) => Expected::Wrong,
            (3 | 4, c) if c != 0 => Expected::Absent,
            (5 | 6, 0) => Expected::RightExplicitZero,
            _ => Expected::Right,
        };
        let mut t = TSpec { out, err, code, cfg, mode, expected, comment: rng.chance(1, 5), body: vec![], near_miss_changed: false };
        t.body = build_body(&mut rng, &escaper, &t);
        if mode == Mode::NearMiss {
            let own = own_lines(&escaper, cfg, &t.out, &t.err, false);
            t.near_miss_changed = t.body.len() >= own.len() && t.body[..own.len()] != own[..];
        }
        tests.push(t);
    }
    let broken = if rng.chance(1, 25) {
        let kind = *rng.pick(&[Broken::ExpectationBeforeCommand, Broken::ExitCodeTwice, Broken::BadInlineConfig, Broken::MissingLanguage, Broken::BadEscape, Broken::NotUtf8, Broken::BadEscapedGlob, Broken::ExtenderWithoutCommand]);
        Some((kind, rng.range(0, tests.len())))
    } else {
        None
    };
    let fillers = (0..=tests.len()).map(|_| (0..rng.range(0, 2)).map(|_| rng.below(FILLERS_UPD.len() as u64) as usize).collect()).collect();
    Doc { tests, front_matter: rng.chance(1, 5), crlf_document: rng.chance(1, 12), broken, fillers, filler_table: &FILLERS_UPD, final_newline: rng.chance(9, 10), escaper }
}

/// what the LIBRARY says about the tests of the document on the known outputs (in-process; used for the histogram and
/// to recognise the known finding about retained quantified expectations, never for the correspondence)
struct LibView {
    verdicts: Vec<&'static str>,
    /// per test: `MalformedOutput` whose diff holds a matched expectation with a quantifier (it is written back)
    retained_quantified: Vec<bool>,
}

fn lib_view(d: &Doc, doc: &[u8]) -> Option<LibView> {
    let content = String::from_utf8(replace_crlf(doc).into()).ok()?;
    let tcs = file_parse(ParserType::Markdown, &content).ok()?;
    if tcs.len() != d.tests.len() {
        return None;
    }
    let mut v = LibView { verdicts: vec![], retained_quantified: vec![] };
    for (tc, t) in tcs.iter().zip(d.tests.iter()) {
        // subprocess_runner.rs: both streams go through `render_output`; `combined` merges them into stdout
        let (o, e) = if t.cfg == Cfg::Combined { ([&t.out[..], &t.err[..]].concat(), vec![]) } else { (t.out.clone(), t.err.clone()) };
        let o = guarded(|| tc.render_output(&o).map(|c| c.into_owned())).ok()?.ok()?;
        let e = guarded(|| tc.render_output(&e).map(|c| c.into_owned())).ok()?.ok()?;
        let output = Output { stdout: o.into(), stderr: e.into(), exit_code: ExitStatus::Code(t.code) };
        let (verdict, rq) = match guarded(|| tc.validate(&output)).ok()? {
            Ok(()) => ("ok", false),
            Err(TestCaseError::MalformedOutput(diff)) => ("malformed_output", diff.lines.iter().any(|l| matches!(l, DiffLine::MatchedExpectation { expectation, .. } if expectation.optional || expectation.multiline))),
            Err(TestCaseError::InvalidExitCode { .. }) => ("invalid_exit_code", false),
            Err(_) => ("other", false),
        };
        v.verdicts.push(verdict);
        v.retained_quantified.push(rq);
    }
    Some(v)
}

/// the scrut blocks that hold a test (a command line), in order
fn test_blocks(doc: &str) -> Vec<Vec<String>> {
    scrut_bodies(doc).into_iter().filter(|b| b.iter().any(|l| l.starts_with("$ "))).collect()
}

/// per scrut block that holds a test: the opening line without its backticks (language + inline configuration) and
/// the comment lines in front of the command
fn test_block_heads(doc: &str) -> Vec<(String, Vec<String>)> {
    c10_ref_segments(doc)
        .into_iter()
        .filter_map(|s| match s {
            RefSeg::Scrut { opener, body, .. } if body.iter().any(|l| l.starts_with("$ ")) => Some((opener.trim_start_matches('`').to_string(), body.iter().take_while(|l| l.starts_with('#')).cloned().collect())),
            _ => None,
        })
        .collect()
}

/// the code points of the outputs for which the real `char::is_other()` holds (the hint of the `gen` / `genupd` ops)
fn others_field(d: &Doc) -> String {
    let mut others: Vec<u32> = vec![];
    for t in &d.tests {
        for bytes in [&t.out, &t.err] {
            others.extend(String::from_utf8_lossy(bytes).chars().filter(|c| unicode_other(*c)).map(|c| c as u32));
        }
    }
    others.sort();
    others.dedup();
    if others.is_empty() {
        "-".to_string()
    } else {
        others.iter().map(|c| format!("{c:x}")).collect::<Vec<_>>().join(",")
    }
}

fn case(prop: &str, seed: u64, idx: u64, root: &Path, name: String, verbose: bool) -> CaseRec {
    let d = gen_doc(seed, idx);
    let dir = fresh_dir(root, name);
    for (k, t) in d.tests.iter().enumerate() {
        std::fs::write(dir.join(format!("p{k}.out")), &t.out).unwrap();
        std::fs::write(dir.join(format!("p{k}.err")), &t.err).unwrap();
    }
    let doc = render_doc(&d, &dir);
    let doc_path = dir.join("doc.md");
    std::fs::write(&doc_path, &doc).unwrap();
    let doc_text = String::from_utf8_lossy(&doc).to_string();
    let args = sv(&["update", "--replace", "--assume-yes", &doc_path.display().to_string()]);
    let ran = scrut(&dir, &dir, &args, None);
    let after = std::fs::read(&doc_path).unwrap_or_default();
    let after_text = String::from_utf8_lossy(&after).to_string();
    if verbose {
        println!("document {}:\n{doc_text}\n--", doc_path.display());
        for (k, t) in d.tests.iter().enumerate() {
            println!("test {k} ({:?}, {:?}, expected code {:?}): stdout {:?} stderr {:?} exit {}", t.mode, t.cfg, t.expected, String::from_utf8_lossy(&t.out), String::from_utf8_lossy(&t.err), t.code);
        }
        println!("$ scrut update --replace --assume-yes doc.md: {}\nstdout: {}", ran.show(), String::from_utf8_lossy(&ran.stdout));
        println!("{}", if after == doc { "the document is unchanged".to_string() } else { format!("the document now reads:\n{after_text}\n--") });
    }

    let has_regex = d.tests.iter().any(|t| t.mode == Mode::Regex);
    let unsupported = has_regex && d.broken.is_none();
    let bin_out = if ran.code != Some(0) {
        "error".to_string()
    } else if after == doc {
        "unchanged".to_string()
    } else {
        hex(&after)
    };
    let bin_kind = if ran.code != Some(0) {
        "error"
    } else if after == doc {
        "unchanged"
    } else {
        "rewritten"
    };
    // a document with a regex expectation is outside the composition: the model has to SAY so
    let impl_out = if unsupported { "unsupported".to_string() } else { bin_out.clone() };
    let runs: Vec<(Vec<u8>, Vec<u8>, i32)> = d.tests.iter().map(|t| (t.out.clone(), t.err.clone(), t.code)).collect();
    let op = format!("upddoc {} {} {} {seed}.{idx}", hex(&doc), runs_field(&runs), others_field(&d));

    // ---- direct oracles ---------------------------------------------------------------------------------------------
    let mut fails: Vec<(String, String)> = vec![];
    let mut tags = vec![format!("upddoc:tests={}", d.tests.len()), format!("upddoc:result={}", if unsupported { "unsupported" } else { bin_kind }), format!("upddoc:binary={bin_kind}")];
    let describe = |what: &str| format!("{what}; `scrut update --replace --assume-yes doc.md` ({}) on document {:?} with {} [replay: upddoc … {seed}.{idx}]", ran.show(), short(&doc_text, 900), d.tests.iter().enumerate().map(|(k, t)| format!("p{k}.out={} p{k}.err={} exit {}", hex(&t.out), hex(&t.err), t.code)).collect::<Vec<_>>().join(" "));
    let skipped_doc = d.tests.iter().any(|t| t.code == t.cfg.skip_code());
    let lib = if d.broken.is_none() { lib_view(&d, &doc) } else { None };
    // nothing but the document is written
    let extra: Vec<String> = std::fs::read_dir(&dir).map(|r| r.filter_map(|e| e.ok()).map(|e| e.file_name().to_string_lossy().to_string()).filter(|n| n.starts_with("doc.") && n != "doc.md").collect()).unwrap_or_default();
    if !extra.is_empty() {
        fails.push(("C10:upddoc-wrong-output-path".into(), describe(&format!("with --replace the update was written to {:?}", extra))));
    }
    if let Some((b, _)) = d.broken {
        tags.push(format!("upddoc:malformed={b:?}"));
        if ran.code == Some(0) || ran.crashed() {
            fails.push(("C10:upddoc-error".into(), describe(&format!("malformed document ({b:?}): an error exit is expected"))));
        }
        if after != doc {
            fails.push(("C10:upddoc-rewrote-malformed-document".into(), describe(&format!("malformed document ({b:?}) was rewritten"))));
        }
    } else if ran.code != Some(0) {
        for pr in ["C09", "C10"] {
            fails.push((format!("{pr}:upddoc-error"), describe(&format!("the update fails{}", if ran.crashed() { " (crash)" } else { "" }))));
        }
    } else if skipped_doc {
        tags.push("upddoc:skipped-document".into());
        if after != doc {
            fails.push(("C10:upddoc-rewrote-skipped-document".into(), describe("a test ends in the skip code, the document must be left as it is")));
        }
    } else {
        let retained_q = lib.as_ref().map_or(false, |l| l.retained_quantified.iter().any(|b| *b));
        if retained_q {
            tags.push("upddoc:retained-quantified".into());
        }
        // (C10) lines outside scrut blocks, line level, against the reference reading of generate.rs
        let (s1, s2) = (c10_ref_segments(&doc_text), c10_ref_segments(&after_text));
        let (o1, o2) = (c10_outside(&s1, false), c10_outside(&s2, false));
        if o1 != o2 {
            fails.push(("C10:upddoc-outside-lines-changed".into(), describe(&format!("lines outside scrut blocks {:?} became {:?}", o1, o2))));
        }
        // (C10) number and order of test blocks, commands, passing tests
        let (b1, b2) = (test_blocks(&doc_text), test_blocks(&after_text));
        if b1.len() != d.tests.len() || b2.len() != d.tests.len() || scrut_bodies(&doc_text).len() != scrut_bodies(&after_text).len() {
            fails.push(("C10:upddoc-block-count-changed".into(), describe(&format!("{} test blocks (of {} scrut blocks) became {} (of {})", b1.len(), scrut_bodies(&doc_text).len(), b2.len(), scrut_bodies(&after_text).len()))));
        } else {
            for (k, (x, y)) in b1.iter().zip(b2.iter()).enumerate() {
                let t = &d.tests[k];
                let cmd_line = format!("$ cat {0}/p{k}.out; cat {0}/p{k}.err >&2; (exit {1})", dir.display(), t.code);
                if !y.contains(&cmd_line) {
                    fails.push(("C10:upddoc-block-count-changed".into(), describe(&format!("block {k} no longer holds its command: {:?}", y))));
                }
                // passes by construction (its own lines, its own exit code) or by the library's `validate`
                let own_pass = t.mode == Mode::Exact && matches!(t.expected, Expected::Right | Expected::RightExplicitZero);
                let lib_pass = lib.as_ref().map_or(false, |l| l.verdicts[k] == "ok");
                if own_pass || lib_pass {
                    // the line `[0]` of a passing test is not an expectation line: `generate_testcase` writes the exit
                    // code of a passing test only when it is not 0
                    let mut x = x.clone();
                    if x.last().map(|l| l.as_str()) == Some("[0]") && y.last().map(|l| l.as_str()) != Some("[0]") {
                        x.pop();
                        tags.push("upddoc:explicit-zero-line-dropped".into());
                    }
                    if &x != y {
                        fails.push(("C10:upddoc-passing-test-rewritten".into(), describe(&format!("test {k} passes, its block {:?} became {:?}", x, y))));
                    }
                }
            }
        }
        // (C10) language, inline configuration and comment lines of every test block
        let (h1, h2) = (test_block_heads(&doc_text), test_block_heads(&after_text));
        if h1 != h2 {
            fails.push(("C10:upddoc-block-head-changed".into(), describe(&format!("openers (without backticks) and comment lines {:?} became {:?}", h1, h2))));
        }
        // (C09) the written document passes on the outputs it was written from
        let t = scrut(&dir, &dir, &sv(&["test", &doc_path.display().to_string()]), None);
        tags.push(format!("upddoc:scrut-test-exit={:?}", t.code));
        if verbose {
            println!("$ scrut test doc.md: {}\nstdout: {}", t.show(), short(&String::from_utf8_lossy(&t.stdout), 1500));
        }
        if t.code != Some(0) {
            // known finding: retained quantified expectations (the greedy matcher yields differently once unmatched
            // expectations are dropped)
            let class = if retained_q { "C09:update-retained-quantified-expectations" } else { "C09:upddoc-fails-on-own-output" };
            fails.push((class.into(), describe(&format!("`scrut test` on the updated document exits {:?}: written {:?}; {}", t.code, short(&after_text, 700), short(&String::from_utf8_lossy(&t.stdout), 300)))));
        }
        // (C10) a second update is a no-op
        let again = scrut(&dir, &dir, &args, None);
        let now = std::fs::read(&doc_path).unwrap_or_default();
        if again.code != Some(0) {
            fails.push(("C10:upddoc-not-idempotent".into(), describe(&format!("the second update fails: {}", again.show()))));
        } else if now != after {
            let class = if retained_q { "C10:not-idempotent-retained-quantified-expectations" } else { "C10:upddoc-not-idempotent" };
            fails.push((class.into(), describe(&format!("a second update changes the document again: {:?} became {:?}", short(&after_text, 500), short(&String::from_utf8_lossy(&now), 500)))));
        }
        tags.push(format!("upddoc:second-update={}", if again.code != Some(0) { "error" } else if now == after { "no-op" } else { "changes" }));
    }
    let _ = std::fs::remove_dir_all(&dir);

    if d.crlf_document {
        tags.push("upddoc:crlf-document".into());
    }
    if d.front_matter {
        tags.push("upddoc:front-matter".into());
    }
    if !d.final_newline {
        tags.push("upddoc:no-final-newline".into());
    }
    if d.fillers.iter().flatten().any(|f| *f >= FILLERS.len()) {
        tags.push("upddoc:scrut-block-without-code".into());
    }
    for (k, t) in d.tests.iter().enumerate() {
        tags.push(format!("upddoc:mode={:?}", t.mode));
        tags.push(format!("upddoc:cfg={:?}", t.cfg));
        tags.push(format!("upddoc:expected-code={:?}", t.expected));
        if let Some(l) = &lib {
            tags.push(format!("upddoc:verdict={}", l.verdicts[k]));
            tags.push(format!("upddoc:mode={:?}->{}", t.mode, l.verdicts[k]));
            if l.verdicts[k] == "invalid_exit_code" {
                tags.push(format!("upddoc:invalid-exit-code-on={}", if matches!(t.cfg, Cfg::Stderr | Cfg::TimeoutStderr) { "stderr" } else { "stdout" }));
            }
        }
    }
    if let Some(l) = &lib {
        let kinds: std::collections::BTreeSet<&str> = l.verdicts.iter().copied().collect();
        tags.push(format!("upddoc:verdicts-in-document={}", kinds.into_iter().collect::<Vec<_>>().join("+")));
    }
    CaseRec { op, impl_out, oracle_fail: keep(prop, fails), nontrivial: d.broken.is_none() && !unsupported, tags }
}

pub fn run(ctx: &Ctx, prop: &str) {
    let seed = ctx.seed;
    let root = tmproot("run");
    std::fs::create_dir_all(&root).unwrap();
    let n = if ctx.thorough { 1500 } else { 120 };
    ctx.run_stream("e2e-upddoc", n, false, |idx| Some(case(prop, seed, idx, &root, format!("d{idx}"), false)));
    let _ = std::fs::remove_dir_all(&root);
    ctx.note("e2e-upddoc: Markdown documents with 1-4 tests `cat pK.out; cat pK.err >&2; (exit N)` (expectations exact / stale / partly matching / missing / other stream / trailing-blank near misses, a minority quantified, globbed, multiline; exit code right / wrong / absent / explicit [0]; inline output_stream stderr / stdout / combined, keep_crlf, strip_ansi_escaping, skip_document_code, timeout; CRLF payloads and documents; prose, foreign blocks, scrut blocks without code, front-matter, missing final newline; malformed documents) through the real binary `scrut update --replace --assume-yes`; the bytes of the file afterwards (or `unchanged` / `error`) are compared with the INTEGRATED Lean model (`upddoc`: read_file, Markdown parser, grammar, rules, render_output, split, matcher, validate, skip handling, generate_testcase, generate_update, updated == content composed); direct oracles: `scrut test` passes on the updated document, lines outside scrut blocks and passing tests unchanged, block count and commands kept, a second update is a no-op".into());
}

pub fn is_upddoc_op(op: &str) -> bool {
    op.starts_with("upddoc ")
}

/// a generated case is regenerated from its seed and index (5th field of the op) and judged by all direct oracles
pub fn replay(prop: &str, op: &str) -> bool {
    let parts: Vec<&str> = op.split_whitespace().collect();
    match parts.get(4).and_then(|c| c.split_once('.')).map(|(a, b)| (a.parse::<u64>(), b.parse::<u64>())) {
        Some((Ok(seed), Ok(idx))) => {
            let root = tmproot("replay");
            std::fs::create_dir_all(&root).unwrap();
            let rec = case(prop, seed, idx, &root, "r".into(), true);
            let _ = std::fs::remove_dir_all(&root);
            println!("scrut update --replace --assume-yes: {}", short(&rec.impl_out, 2000));
            println!("model op: {}", rec.op);
            for (cl, d) in &rec.oracle_fail {
                println!("oracle-failure {cl}: {}", short(d, 900));
            }
            rec.oracle_fail.is_empty()
        }
        _ => {
            eprintln!("replay: an upddoc op is replayed by its <seed>.<index> field");
            false
        }
    }
}
