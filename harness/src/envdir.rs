//! C18: per-document work directory, documented environment, clean-up.
//! (1) the real `TestEnvironment` (src/bin/utils/environment.rs, with namer.rs, is compiled into this
//!     harness from the repository it is built against — build.rs — so it is always the current
//!     source) driven in-process vs. the Lean model (`envapi`): new / init_test_file on one
//!     environment / drop, on real directories;
//! (2) end-to-end runs of the binary vs. the Lean model of the document loop (`envrun`): `pwd`/`env`/
//!     `find` probes written by the first test case, listing of TMPDIR and of a `--work-directory`
//!     afterwards, every outcome class; direct oracles on the same runs; concurrent scrut processes;
//! (3) the real `UniqueNamer` vs. the Lean model (`namer`), on a real directory.
use crate::common::*;
use std::collections::{BTreeMap, BTreeSet};
use std::path::{Path, PathBuf};

// src/bin/utils/{namer,environment}.rs of the repository this harness is built against (build.rs
// takes the location from the `scrut` dependency in Cargo.toml), compiled in as they are
include!(concat!(env!("OUT_DIR"), "/binutils.rs"));
use binutils::{environment, namer};

fn keep_own(prop: &str, fails: Vec<(String, String)>) -> Vec<(String, String)> {
    fails.into_iter().filter(|(c, _)| c.starts_with(prop)).collect()
}

fn namer_case(prop: &str, existing: Vec<String>, reqs: Vec<String>, root: &Path, idx: u64) -> CaseRec {
    let dir = root.join(format!("namer-{idx}"));
    let _ = std::fs::remove_dir_all(&dir);
    std::fs::create_dir_all(&dir).unwrap();
    for e in &existing {
        let _ = std::fs::create_dir_all(dir.join(e));
    }
    let mut fails = vec![];
    let r = guarded(|| {
        let mut n = namer::UniqueNamer::new(&dir);
        reqs.iter().map(|r| n.next_name(Path::new(r)).to_string_lossy().to_string()).collect::<Vec<String>>()
    });
    let impl_out = match r {
        Err(p) => {
            fails.push(("C18:namer-crash".into(), p));
            "crash".to_string()
        }
        Ok(out) => {
            // direct oracle: pairwise distinct, not on disk
            let set: BTreeSet<&String> = out.iter().collect();
            if set.len() != out.len() {
                fails.push(("C18:namer-duplicate".into(), format!("names {:?} for requests {:?}", out, reqs)));
            }
            for o in &out {
                if existing.contains(o) {
                    fails.push(("C18:namer-existing".into(), format!("name {o} exists on disk")));
                }
            }
            out.iter().map(|n| hex(n.as_bytes())).collect::<Vec<_>>().join(",")
        }
    };
    let _ = std::fs::remove_dir_all(&dir);
    let f = |v: &Vec<String>| if v.is_empty() { "-".to_string() } else { v.iter().map(|n| hex(n.as_bytes())).collect::<Vec<_>>().join(",") };
    CaseRec { op: format!("namer {} {}", f(&existing), f(&reqs)), impl_out, oracle_fail: keep_own(prop, fails), nontrivial: reqs.len() >= 2, tags: vec![format!("namer:reqs={}", reqs.len())] }
}

fn scrut_bin() -> String {
    std::env::var("SCRUT_BIN").unwrap_or("/verif/.build/repo-target/debug/scrut".into())
}

#[derive(Clone, Copy, Debug, PartialEq)]
enum Kind {
    Pass,
    Fail,
    Timeout,
    Skip,
    ParseError,
    Kill,
    /// Cram document whose script ends early (`exit 3`): `bail!` after execution
    ExecError,
    /// front-matter `prepend:` of a missing document: error after `TestEnvironment::new`, before `init_test_file`
    PrependError,
    /// front-matter `shell:` that does not exist: error before `TestEnvironment::new`
    NoShell,
}
#[derive(Clone, Copy, Debug, PartialEq)]
enum Mode {
    Default,
    WorkDir,
    Keep,
    MissingShell,
    /// `--work-directory` names a directory that does not exist
    WorkDirMissing,
}

const DOCUMENTED: [&str; 11] = ["TESTDIR", "TESTFILE", "TESTSHELL", "TMPDIR", "LANG", "LANGUAGE", "LC_ALL", "TZ", "COLUMNS", "CDPATH", "GREP_OPTIONS"];
/// every variable scrut itself may set for a test case (documented + Cram compatibility + SCRUT_TEST)
const OBSERVED_VARS: [&str; 15] = ["TESTDIR", "TESTFILE", "TESTSHELL", "TMPDIR", "LANG", "LANGUAGE", "LC_ALL", "TZ", "COLUMNS", "CDPATH", "GREP_OPTIONS", "CRAMTMP", "TMP", "TEMP", "SCRUT_TEST"];

fn hexs(s: &str) -> String {
    hex(s.as_bytes())
}

/// Maps real paths to the paths of the model's world: real roots are replaced by model prefixes
/// (longest real root first), random name parts by the labels found for them.
struct Canon {
    /// (real prefix, model prefix without leading/trailing slash; "" = the model's root)
    roots: Vec<(String, String)>,
    names: BTreeMap<String, String>,
}

impl Canon {
    fn new(mut roots: Vec<(String, String)>) -> Self {
        roots.sort_by(|a, b| b.0.len().cmp(&a.0.len()));
        Canon { roots, names: BTreeMap::new() }
    }
    /// components of a real path in the model's world (`None`: outside every root)
    fn comps(&self, real: &str) -> Option<Vec<String>> {
        for (r, m) in &self.roots {
            if real == r || real.starts_with(&format!("{r}/")) {
                let rest = &real[r.len()..];
                let mut v: Vec<String> = m.split('/').filter(|c| !c.is_empty()).map(|c| c.to_string()).collect();
                v.extend(rest.split('/').filter(|c| !c.is_empty()).map(|c| c.to_string()));
                return Some(v);
            }
        }
        None
    }
    fn label(&self, comps: &[String], extra: &BTreeMap<String, String>) -> Vec<String> {
        comps.iter().map(|c| extra.get(c).or_else(|| self.names.get(c)).cloned().unwrap_or_else(|| c.clone())).collect()
    }
    /// text of a path as the driver prints it
    fn path(&self, real: &str, extra: &BTreeMap<String, String>) -> String {
        match self.comps(real) {
            Some(c) if c.is_empty() => ".".into(),
            Some(c) => self.label(&c, extra).join("/"),
            None => format!("<outside:{real}>"),
        }
    }
    /// text of a variable value: a value that starts with a real root is rewritten like a path
    fn value(&self, v: &str, extra: &BTreeMap<String, String>) -> String {
        match self.comps(v) {
            Some(c) if v.starts_with('/') => {
                if c.is_empty() {
                    "/".into()
                } else {
                    format!("/{}", self.label(&c, extra).join("/"))
                }
            }
            _ => v.to_string(),
        }
    }
    fn listing(&self, reals: &[String], extra: &BTreeMap<String, String>) -> String {
        let set: BTreeSet<String> = reals.iter().map(|r| self.path(r, extra)).collect();
        set.into_iter().collect::<Vec<_>>().join(",")
    }
}

/// all directories at or below `root` (absolute path strings), nothing if it does not exist
fn walk_dirs(root: &Path, out: &mut Vec<String>) {
    if !root.is_dir() || root.is_symlink() {
        return;
    }
    out.push(root.to_string_lossy().to_string());
    if let Ok(rd) = std::fs::read_dir(root) {
        for e in rd.filter_map(|e| e.ok()) {
            let p = e.path();
            if p.is_dir() && !p.is_symlink() {
                walk_dirs(&p, out);
            }
        }
    }
}

fn canonical_bash() -> String {
    which::which("bash").ok().and_then(|p| dunce::canonicalize(p).ok()).map(|p| p.to_string_lossy().to_string()).unwrap_or("/bin/bash".into())
}

fn io_class(e: &anyhow::Error) -> &'static str {
    for c in e.chain() {
        if let Some(io) = c.downcast_ref::<std::io::Error>() {
            return match io.kind() {
                std::io::ErrorKind::NotFound => "no-parent",
                std::io::ErrorKind::AlreadyExists => "exists",
                _ => "other",
            };
        }
    }
    "other"
}

#[derive(Clone, Copy, Debug, PartialEq)]
enum ApiMode {
    Default,
    Keep,
    WorkDir,
    WorkDirMissing,
}
const API_MODES: [ApiMode; 4] = [ApiMode::Default, ApiMode::Keep, ApiMode::WorkDir, ApiMode::WorkDirMissing];
/// (directory index, file name, cram compatibility)
const API_DOCS: [(usize, &str, bool); 3] = [(0, "doc.md", false), (1, "doc.md", true), (0, "x y.t", false)];
const API_PRE: [&[&str]; 4] = [&[], &["doc.md"], &["doc.md", "doc.md-1"], &["x y.t-1"]];

/// The real `TestEnvironment` (src/bin/utils/environment.rs compiled into the harness), in-process:
/// `new`, directories `pre` appear in the work directory, `init_test_file` for every document on
/// the SAME environment, drop. Compared with the model: directory variants, work directories,
/// variable lists in code order, the directories below the environment's own roots and the user
/// directory before and after the drop. The process-wide temporary directory is shared with other
/// cases, so only the environment's own subtrees are listed.
fn api_case(prop: &str, mode: ApiMode, pre: &[&str], docs: &[(usize, &str, bool)], root: &Path, tag: &str) -> CaseRec {
    let scratch = root.join(format!("api-{tag}"));
    let _ = std::fs::remove_dir_all(&scratch);
    std::fs::create_dir_all(scratch.join("U/old")).unwrap();
    std::fs::create_dir_all(scratch.join("D0")).unwrap();
    std::fs::create_dir_all(scratch.join("D1")).unwrap();
    let scratch = scratch.canonicalize().unwrap();
    let user = scratch.join("U");
    let tmp_root = std::env::temp_dir();
    let mut roots = vec![(tmp_root.to_string_lossy().trim_end_matches('/').to_string(), "T".to_string())];
    if let Ok(c) = tmp_root.canonicalize() {
        roots.push((c.to_string_lossy().to_string(), "T".to_string()));
    }
    for d in ["U", "D0", "D1"] {
        roots.push((scratch.join(d).to_string_lossy().to_string(), d.to_string()));
    }
    let mut canon = Canon::new(roots);
    let none = BTreeMap::new();
    let shell = "/bin/bash";
    let provided: Option<PathBuf> = match mode {
        ApiMode::WorkDir => Some(user.clone()),
        ApiMode::WorkDirMissing => Some(scratch.join("nowhere")),
        _ => None,
    };
    let keep = mode == ApiMode::Keep;
    let mut fails: Vec<(String, String)> = vec![];
    let list = |canon: &Canon, own: &[PathBuf]| -> String {
        let mut v = vec![];
        for r in own {
            walk_dirs(r, &mut v);
        }
        canon.listing(&v, &BTreeMap::new())
    };
    let impl_out = match guarded(|| environment::TestEnvironment::new(Path::new(shell), provided.as_deref(), keep)) {
        Err(p) => {
            fails.push(("C18:api-crash".into(), format!("TestEnvironment::new panicked: {p}")));
            "crash".to_string()
        }
        Ok(Err(e)) => format!("new=error:{} | final={}", io_class(&e), list(&canon, &[user.clone()])),
        Ok(Ok(mut env)) => {
            let variant = |d: &environment::EnvironmentDirectory| match d {
                environment::EnvironmentDirectory::Ephemeral(_) => "ephemeral",
                environment::EnvironmentDirectory::UserProvided(_) => "user-provided",
                environment::EnvironmentDirectory::Kept(_) => "kept",
            };
            let (wk, wp) = (variant(&env.work_directory), env.work_directory.as_path_buf());
            let (tk, tp) = (variant(&env.tmp_directory), env.tmp_directory.as_path_buf());
            // random names -> labels (only names with the documented prefix are recognised)
            let last = |p: &Path| p.file_name().map(|n| n.to_string_lossy().to_string()).unwrap_or_default();
            if wk != "user-provided" && last(&wp).starts_with("execution.") {
                canon.names.insert(last(&wp), "execution.#0".into());
            }
            if tk != "user-provided" && last(&tp).starts_with("temp.") {
                canon.names.insert(last(&tp), "temp.#0".into());
            }
            let mut parts = vec![format!("new=ok work={wk}:{} tmp={tk}:{}", canon.path(&wp.to_string_lossy(), &none), canon.path(&tp.to_string_lossy(), &none))];
            for n in pre {
                let _ = std::fs::create_dir(wp.join(n));
            }
            let mut wds: Vec<PathBuf> = vec![];
            for (i, (dir, file, cram)) in docs.iter().enumerate() {
                let path = scratch.join(format!("D{dir}")).join(file);
                match guarded(|| env.init_test_file(&path, *cram)) {
                    Err(p) => {
                        fails.push(("C18:api-crash".into(), format!("init_test_file panicked: {p}")));
                        parts.push(format!("doc{i}: crash"));
                    }
                    Ok(Err(_)) => parts.push(format!("doc{i}: error")),
                    Ok(Ok((wd, vars))) => {
                        let vs: Vec<String> = vars.iter().map(|(k, v)| format!("{k}={}", canon.value(v, &none))).collect();
                        parts.push(format!("doc{i}: wd={} vars={}", canon.path(&wd.to_string_lossy(), &none), vs.join(";")));
                        // direct oracles
                        if !wd.is_dir() {
                            fails.push(("C18:api-workdir-missing".into(), format!("work directory {} does not exist", wd.display())));
                        }
                        if provided.is_none() || keep {
                            if wds.contains(&wd) {
                                fails.push(("C18:api-workdir-shared".into(), format!("two documents of one environment got {}", wd.display())));
                            }
                            if pre.iter().any(|n| wp.join(n) == wd) {
                                fails.push(("C18:api-workdir-preexisting".into(), format!("{} existed before init_test_file", wd.display())));
                            }
                        }
                        let tmpdir = vars.iter().find(|(k, _)| k == "TMPDIR").map(|(_, v)| v.clone()).unwrap_or_default();
                        if Path::new(&tmpdir) != tp || !tp.is_dir() {
                            fails.push(("C18:api-tmpdir".into(), format!("TMPDIR={tmpdir:?}, the environment's directory is {}", tp.display())));
                        }
                        wds.push(wd);
                    }
                }
            }
            let own = vec![user.clone(), wp.clone(), tp.clone()];
            parts.push(format!("after-init={}", list(&canon, &own)));
            if let Err(p) = guarded(move || drop(env)) {
                fails.push(("C18:api-crash".into(), format!("drop panicked: {p}")));
            }
            parts.push(format!("after-drop={}", list(&canon, &own)));
            if !user.is_dir() || !user.join("old").is_dir() {
                fails.push(("C18:user-dir-removed".into(), "the user's directory (or what was in it) is gone after drop".into()));
            }
            if !keep {
                for p in [&wp, &tp] {
                    if *p != user && p.exists() {
                        fails.push(("C18:leftover".into(), format!("{} still exists after drop", p.display())));
                    }
                }
            } else {
                for p in [&wp, &tp] {
                    if !p.is_dir() {
                        fails.push(("C18:keep-listing".into(), format!("kept directory {} is gone", p.display())));
                    }
                    if p.starts_with(&tmp_root) && *p != tmp_root {
                        let _ = std::fs::remove_dir_all(p);
                    }
                }
            }
            parts.join(" | ")
        }
    };
    let _ = std::fs::remove_dir_all(&scratch);
    let prov = match mode {
        ApiMode::WorkDir => hexs("U"),
        ApiMode::WorkDirMissing => hexs("nowhere"),
        _ => "none".into(),
    };
    let pre_s = if pre.is_empty() { ".".to_string() } else { pre.iter().map(|n| hexs(n)).collect::<Vec<_>>().join(",") };
    let docs_s = if docs.is_empty() {
        ".".to_string()
    } else {
        docs.iter().map(|(d, f, c)| format!("{}:{}:{}:c:.:.:{}:0", hexs(&format!("D{d}")), hexs(f), *c as u8, hexs(&format!("/D{d}/{f}")))).collect::<Vec<_>>().join(",")
    };
    let fs0 = ["", "T", "U", "U/old", "D0", "D1"].iter().map(|p| hexs(p)).collect::<Vec<_>>().join(",");
    CaseRec {
        op: format!("envapi {} {} {prov} {} {pre_s} {} {fs0} {docs_s} case=api.{tag}", hexs("T"), hexs(shell), keep as u8, hexs("U")),
        impl_out,
        oracle_fail: keep_own(prop, fails),
        nontrivial: !docs.is_empty(),
        tags: vec![format!("api:mode={mode:?}"), format!("api:docs={}", docs.len()), format!("api:pre={}", pre.len())],
    }
}

/// decode the index of the exhaustive in-process stream
fn api_exhaustive(prop: &str, idx: u64, root: &Path) -> CaseRec {
    let mut r = idx;
    let mode = API_MODES[(r % 4) as usize];
    r /= 4;
    let pre = API_PRE[(r % 4) as usize];
    r /= 4;
    // sequences of length 0..=3 over API_DOCS: 1 + 3 + 9 + 27 = 40
    let (len, mut k) = if r < 1 { (0, 0) } else if r < 4 { (1, r - 1) } else if r < 13 { (2, r - 4) } else { (3, r - 13) };
    let mut docs = vec![];
    for _ in 0..len {
        docs.push(API_DOCS[(k % 3) as usize]);
        k /= 3;
    }
    api_case(prop, mode, pre, &docs, root, &format!("x{idx}"))
}
const API_EXHAUSTIVE_TOTAL: u64 = 4 * 4 * 40;

struct DocSpec {
    kind: Kind,
    cram: bool,
    name: String,
    /// 0: the test cases create nothing, 1: `s` below the work directory and below $TMPDIR, 2: `s/t` below the work directory
    mk: usize,
}

fn e2e_case(prop: &str, idx: u64, seed: u64, root: &Path) -> CaseRec {
    let mut rng = Rng::fork(seed, 31, idx);
    let ndocs = rng.range(1, 3);
    let mode = *rng.pick(&[Mode::Default, Mode::Default, Mode::Default, Mode::WorkDir, Mode::WorkDir, Mode::Keep, Mode::Keep, Mode::MissingShell, Mode::WorkDirMissing]);
    let same_names = rng.chance(2, 3);
    let mut specs: Vec<DocSpec> = vec![];
    for di in 0..ndocs {
        let kind = *rng.pick(&[Kind::Pass, Kind::Pass, Kind::Pass, Kind::Pass, Kind::Pass, Kind::Pass, Kind::Fail, Kind::Fail, Kind::Timeout, Kind::Skip, Kind::Skip, Kind::Kill, Kind::ParseError, Kind::ExecError, Kind::PrependError, Kind::NoShell]);
        let cram = match kind {
            Kind::ExecError => true,
            Kind::PrependError | Kind::NoShell => false,
            _ => rng.chance(1, 4),
        };
        let ext = if cram { "t" } else { "md" };
        let name = if same_names { format!("doc.{ext}") } else { format!("doc{di}.{ext}") };
        specs.push(DocSpec { kind, cram, name, mk: rng.range(0, 2) });
    }
    let dir = root.join(format!("e2e-{idx}"));
    let _ = std::fs::remove_dir_all(&dir);
    std::fs::create_dir_all(&dir).unwrap();
    let dir = dir.canonicalize().unwrap();
    let tmp = dir.join("tmp");
    let probe = dir.join("probe");
    let user = dir.join("userwork");
    std::fs::create_dir_all(&tmp).unwrap();
    std::fs::create_dir_all(&probe).unwrap();
    std::fs::create_dir_all(user.join("old")).unwrap();
    let kinds: Vec<Kind> = specs.iter().map(|s| s.kind).collect();
    let mut paths: Vec<PathBuf> = vec![];
    let mut t0_line: Vec<usize> = vec![];
    for (di, sp) in specs.iter().enumerate() {
        let k = &sp.kind;
        let sub = dir.join(format!("d{di}"));
        std::fs::create_dir_all(&sub).unwrap();
        let p = sub.join(&sp.name);
        let pr = |t: usize| format!("pwd > {0}/D{1}T{2}.pwd; env > {0}/D{1}T{2}.env", probe.display(), di, t);
        let mk = ["true", "mkdir -p s \"$TMPDIR/s\"", "mkdir -p s/t"][sp.mk];
        // the first test case creates the directories, then records what it sees
        let first = format!("{mk}; {}; find {} {} -type d > {}/D{di}.ls", pr(0), tmp.display(), user.display(), probe.display());
        let second = match k {
            Kind::Fail => "echo bad".to_string(),
            Kind::Timeout => "sleep 1; echo ok".to_string(),
            Kind::Skip => "(exit 80)".to_string(),
            Kind::Kill => "kill -9 $$".to_string(),
            _ => "echo ok".to_string(),
        };
        let text = if sp.cram {
            let bad = if *k == Kind::ParseError { "  [a (regex)\n" } else { "" };
            if *k == Kind::ExecError {
                format!("t0\n  $ {first}; echo ok\n  ok\n\nt1\n  $ exit 3\n\nt2\n  $ echo never\n  never\n")
            } else {
                format!("t0\n  $ {first}; echo ok\n  ok\n\nt1\n  $ {}; {}\n  ok\n{}\nt2\n  $ {}; echo ok\n  ok\n", pr(1), if *k == Kind::Timeout || *k == Kind::Kill { "echo ok".to_string() } else { second.clone() }, bad, pr(2))
            }
        } else {
            let front = match k {
                Kind::PrependError => "---\nprepend: [nonexistent.md]\n---\n\n",
                Kind::NoShell => "---\nshell: /nonexistent/shell\n---\n\n",
                _ => "",
            };
            let bad = if *k == Kind::ParseError { "[a (regex)\n" } else { "" };
            let cfg = if *k == Kind::Timeout { " {timeout: 300ms}" } else { "" };
            format!("{front}# t0\n\n```scrut\n$ {first}; echo ok\nok\n```\n\n# t1\n\n```scrut{}\n$ {}; {}\nok\n{}```\n\n# t2\n\n```scrut\n$ {}; echo ok\nok\n```\n", cfg, pr(1), second, bad, pr(2))
        };
        // 1-based line of the shell expression of the first test case
        t0_line.push(text.lines().position(|l| l.trim_start().starts_with("$ ")).map(|i| i + 1).unwrap_or(0));
        std::fs::write(&p, text).unwrap();
        paths.push(p);
    }
    let mut cmd = std::process::Command::new(scrut_bin());
    cmd.arg("test");
    match mode {
        Mode::WorkDir => {
            cmd.arg("--work-directory").arg(&user);
        }
        Mode::WorkDirMissing => {
            cmd.arg("--work-directory").arg(dir.join("nowhere"));
        }
        Mode::Keep => {
            cmd.arg("--keep-temporary-directories");
        }
        Mode::MissingShell => {
            cmd.arg("--shell").arg("/nonexistent/shell");
        }
        Mode::Default => {}
    }
    // scrut's own environment: nothing it could inherit for TMP, TEMP, CRAMTMP, SCRUT_TEST (which it sets
    // only for some documents), and a WRONG value for every documented variable: "set afresh" means
    // that none of these reaches a test case
    cmd.env_clear().env("PATH", std::env::var("PATH").unwrap_or_default()).env("HOME", std::env::var("HOME").unwrap_or_default());
    for v in DOCUMENTED {
        cmd.env(v, "/inherited/by/scrut");
    }
    let out = cmd.args(&paths).current_dir(&dir).env("TMPDIR", &tmp).output().expect("run scrut");
    let code = out.status.code().unwrap_or(-1);
    let mut fails = vec![];
    // a test case that timed out is aborted: nothing of it may still be running and bring a directory back once
    // scrut is gone. Look at the directories only after the command would have finished by itself.
    let waited = specs.iter().any(|s| s.kind == Kind::Timeout && !s.cram);
    if waited {
        std::thread::sleep(std::time::Duration::from_millis(1300));
    }
    // --- clean-up
    let left: Vec<String> = std::fs::read_dir(&tmp).map(|r| r.filter_map(|e| e.ok()).map(|e| e.file_name().to_string_lossy().to_string()).collect()).unwrap_or_default();
    let parse_error = kinds.contains(&Kind::ParseError);
    match mode {
        Mode::Keep if !parse_error && kinds[0] != Kind::NoShell => {
            // one execution.* and one temp.* per document that was started
            let ok = left.iter().all(|n| n.starts_with("execution.") || n.starts_with("temp."));
            if !ok || left.is_empty() {
                fails.push(("C18:keep-listing".into(), format!("--keep-temporary-directories left {:?}", left)));
            }
        }
        Mode::Keep => {}
        _ => {
            if !left.is_empty() {
                fails.push(("C18:leftover".into(), format!("TMPDIR still holds {:?} after exit {code} (mode {:?}, kinds {:?}{})", left, mode, kinds, if waited { "; looked 1.3 s after the exit, when the timed-out command would have ended" } else { "" })));
            }
        }
    }
    let user_left: Vec<String> = std::fs::read_dir(&user).map(|r| r.filter_map(|e| e.ok()).map(|e| e.file_name().to_string_lossy().to_string()).collect()).unwrap_or_default();
    if !user.exists() || !user.join("old").is_dir() {
        fails.push(("C18:user-dir-removed".into(), "the directory given with --work-directory (or what was in it) no longer exists".into()));
    }
    if user_left.iter().any(|n| n.starts_with("temp.")) {
        fails.push(("C18:user-dir-temp-left".into(), format!("temporary directory left inside --work-directory: {:?}", user_left)));
    }
    // "no directory it created remains": all that may be in the user's directory afterwards is what was there
    // before (`old`) and what the test cases themselves made in their working directory (`s`, `s/t`)
    let created: Vec<&String> = user_left.iter().filter(|n| n.as_str() != "old" && n.as_str() != "s" && !n.starts_with("temp.")).collect();
    if !created.is_empty() {
        fails.push(("C18:user-dir-created-left".into(), format!("--work-directory holds {:?} after exit {code}: created by scrut, not by a test case (mode {:?}, documents {:?})", created, mode, specs.iter().map(|s| s.name.clone()).collect::<Vec<_>>())));
    }
    // --- probes
    let mut pwd: BTreeMap<(usize, usize), String> = BTreeMap::new();
    for di in 0..ndocs {
        for t in 0..3 {
            if let Ok(s) = std::fs::read_to_string(probe.join(format!("D{di}T{t}.pwd"))) {
                pwd.insert((di, t), s.trim().to_string());
                let env = std::fs::read_to_string(probe.join(format!("D{di}T{t}.env"))).unwrap_or_default();
                let vars: BTreeMap<&str, &str> = env.lines().filter_map(|l| l.split_once('=')).collect();
                for v in DOCUMENTED {
                    if !vars.contains_key(v) {
                        fails.push(("C18:env-missing".into(), format!("document {di} test {t}: {v} is not set")));
                    }
                }
                // the documented constants, whatever scrut itself inherited
                for (k, want) in [("LANG", "C"), ("LANGUAGE", "C"), ("LC_ALL", "C"), ("TZ", "GMT"), ("COLUMNS", "80"), ("CDPATH", ""), ("GREP_OPTIONS", "")] {
                    if let Some(got) = vars.get(k) {
                        if *got != want {
                            fails.push(("C18:env-value".into(), format!("document {di} test {t}: {k}={got:?}, documented is {want:?}")));
                        }
                    }
                }
                let doc_name = paths[di].file_name().unwrap().to_string_lossy().to_string();
                if vars.get("TESTFILE") != Some(&doc_name.as_str()) {
                    fails.push(("C18:env-testfile".into(), format!("TESTFILE={:?} for {doc_name}", vars.get("TESTFILE"))));
                }
                if vars.get("TESTDIR").map(|d| Path::new(d).canonicalize().ok()) != Some(paths[di].parent().unwrap().canonicalize().ok()) {
                    fails.push(("C18:env-testdir".into(), format!("TESTDIR={:?}", vars.get("TESTDIR"))));
                }
                if !specs[di].cram {
                    let want_prefix = format!("{}:", paths[di].display());
                    let st = vars.get("SCRUT_TEST").copied().unwrap_or("");
                    let line_ok = st.rsplit(':').next().and_then(|l| l.parse::<usize>().ok()).is_some();
                    if !(st.starts_with(&want_prefix) || st.ends_with(&format!("{}:{}", doc_name, st.rsplit(':').next().unwrap_or("")))) || !line_ok {
                        fails.push(("C18:env-scrut-test".into(), format!("SCRUT_TEST={st:?} for document {}", paths[di].display())));
                    }
                }
            }
        }
    }
    // all tests of a document share one directory
    for di in 0..ndocs {
        let ds: BTreeSet<&String> = pwd.iter().filter(|((d, _), _)| *d == di).map(|(_, v)| v).collect();
        if ds.len() > 1 {
            fails.push(("C18:workdir-not-shared".into(), format!("document {di} ran in {:?}", ds)));
        }
    }
    // different documents do not share (except under --work-directory, where the user's directory is used for all)
    let per_doc: Vec<Option<&String>> = (0..ndocs).map(|di| pwd.iter().find(|((d, _), _)| *d == di).map(|(_, v)| v)).collect();
    for a in 0..ndocs {
        for b in a + 1..ndocs {
            if let (Some(x), Some(y)) = (per_doc[a], per_doc[b]) {
                if x == y {
                    let cls = if mode == Mode::WorkDir { "C18:workdir-shared-under-work-directory" } else { "C18:workdir-shared" };
                    fails.push((cls.into(), format!("documents {a} and {b} both ran in {x}")));
                }
            }
        }
    }
    // --- the same run in the model's terms: everything relative to the scratch directory
    let dir_s = dir.to_string_lossy().to_string();
    let mut canon = Canon::new(vec![(dir_s.clone(), String::new())]);
    let mut own: Vec<BTreeMap<String, String>> = vec![BTreeMap::new(); ndocs];
    let mut envs: Vec<Option<BTreeMap<String, String>>> = vec![None; ndocs];
    for di in 0..ndocs {
        if let Some(p) = pwd.get(&(di, 0)) {
            let env = std::fs::read_to_string(probe.join(format!("D{di}T0.env"))).unwrap_or_default();
            let vars: BTreeMap<String, String> = env.lines().filter_map(|l| l.split_once('=')).map(|(a, b)| (a.to_string(), b.to_string())).collect();
            if let Some(c) = canon.comps(p) {
                if c.len() >= 2 && c[0] == "tmp" && c[1].starts_with("execution.") {
                    own[di].insert(c[1].clone(), format!("execution.#{di}"));
                }
            }
            if let Some(c) = vars.get("TMPDIR").and_then(|t| canon.comps(t)) {
                if c.len() == 2 && (c[0] == "tmp" || c[0] == "userwork") && c[1].starts_with("temp.") {
                    own[di].insert(c[1].clone(), format!("temp.#{di}"));
                }
            }
            envs[di] = Some(vars);
        }
    }
    for m in &own {
        for (k, v) in m {
            canon.names.entry(k.clone()).or_insert(v.clone());
        }
    }
    // directories of documents that never reached their test cases cannot be attributed
    let mut after: Vec<String> = vec![];
    walk_dirs(&tmp, &mut after);
    walk_dirs(&user, &mut after);
    for a in &after {
        if let Some(c) = canon.comps(a) {
            if c.len() >= 2 && (c[0] == "tmp" || c[0] == "userwork") && !canon.names.contains_key(&c[1]) {
                if c[1].starts_with("execution.") {
                    canon.names.insert(c[1].clone(), "execution.#?".into());
                } else if c[1].starts_with("temp.") {
                    canon.names.insert(c[1].clone(), "temp.#?".into());
                }
            }
        }
    }
    let mut parts = vec![format!("finished={}", if code == 1 || code == -1 { 0 } else { 1 })];
    for di in 0..ndocs {
        if let (Some(p), Some(vars)) = (pwd.get(&(di, 0)), &envs[di]) {
            let mut vs: Vec<String> = OBSERVED_VARS.iter().filter_map(|k| vars.get(*k).map(|v| format!("{k}={}", canon.value(v, &own[di])))).collect();
            vs.sort();
            let ls = std::fs::read_to_string(probe.join(format!("D{di}.ls"))).unwrap_or_default();
            // `.state.XXXX` below $TMPDIR belongs to the Markdown executor (stateful_executor.rs), not to the environment
            let during: Vec<String> = ls.lines().filter(|l| !l.split('/').any(|c| c.starts_with(".state."))).map(|l| l.to_string()).collect();
            parts.push(format!("doc{di}: wd={} vars={} during={}", canon.path(p, &own[di]), vs.join(";"), canon.listing(&during, &own[di])));
        }
    }
    let none = BTreeMap::new();
    parts.push(format!("final={}", canon.listing(&after, &none)));
    let impl_out = parts.join(" | ");
    let shell = canonical_bash();
    let mut fs0: Vec<String> = vec!["".into(), "tmp".into(), "userwork".into(), "userwork/old".into(), "probe".into()];
    for di in 0..ndocs {
        fs0.push(format!("d{di}"));
    }
    let docs_s: Vec<String> = specs
        .iter()
        .enumerate()
        .map(|(di, sp)| {
            let ending = if mode == Mode::MissingShell {
                "s"
            } else {
                match sp.kind {
                    Kind::ExecError => "x",
                    Kind::PrependError => "p",
                    Kind::NoShell => "s",
                    _ => "c",
                }
            };
            let (mkw, mkt) = match sp.mk {
                1 => (hexs("s"), hexs("s")),
                2 => (format!("{}+{}", hexs("s"), hexs("s/t")), ".".to_string()),
                _ => (".".to_string(), ".".to_string()),
            };
            format!("{}:{}:{}:{ending}:{mkw}:{mkt}:{}:{}", hexs(&format!("d{di}")), hexs(&sp.name), sp.cram as u8, hexs(&format!("/d{di}/{}", sp.name)), t0_line[di])
        })
        .collect();
    let provided = match mode {
        Mode::WorkDir => hexs("userwork"),
        Mode::WorkDirMissing => hexs("nowhere"),
        _ => "none".to_string(),
    };
    let op = format!(
        "envrun {} {} {provided} {} {} {},{} {} {} case=e2e.{seed}.{idx}",
        hexs("tmp"),
        hexs(if mode == Mode::MissingShell { "/nonexistent/shell" } else { &shell }),
        (mode == Mode::Keep) as u8,
        !parse_error as u8,
        hexs("tmp"),
        hexs("userwork"),
        fs0.iter().map(|p| hexs(p)).collect::<Vec<_>>().join(","),
        docs_s.join(",")
    );
    let _ = std::fs::remove_dir_all(&dir);
    CaseRec {
        op,
        impl_out,
        oracle_fail: keep_own(prop, fails),
        nontrivial: ndocs >= 2,
        tags: vec![format!("e2e:mode={:?}", mode), format!("e2e:docs={ndocs}"), format!("e2e:exit={code}")].into_iter().chain(specs.iter().map(|s| format!("e2e:kind={:?}", s.kind))).chain(specs.iter().map(|s| format!("e2e:cram={}", s.cram))).collect(),
    }
}

/// three scrut processes at the same time on the same TMPDIR
fn concurrent_case(prop: &str, idx: u64, root: &Path) -> CaseRec {
    let dir = root.join(format!("conc-{idx}"));
    let _ = std::fs::remove_dir_all(&dir);
    let tmp = dir.join("tmp");
    let probe = dir.join("probe");
    std::fs::create_dir_all(&tmp).unwrap();
    std::fs::create_dir_all(&probe).unwrap();
    let mut children = vec![];
    for p in 0..3 {
        let sub = dir.join(format!("p{p}"));
        std::fs::create_dir_all(&sub).unwrap();
        let doc = sub.join("doc.md");
        std::fs::write(&doc, format!("# t\n\n```scrut\n$ pwd > {}/P{p}.pwd; sleep 0.3; echo ok\nok\n```\n", probe.display())).unwrap();
        children.push(std::process::Command::new(scrut_bin()).arg("test").arg(&doc).current_dir(&sub).env("TMPDIR", &tmp).stdout(std::process::Stdio::null()).stderr(std::process::Stdio::null()).spawn().expect("spawn scrut"));
    }
    let mut fails = vec![];
    for mut c in children {
        let st = c.wait().unwrap();
        if st.code() != Some(0) {
            fails.push(("C18:concurrent-exit".into(), format!("a concurrent scrut process exited with {:?}", st.code())));
        }
    }
    let dirs: Vec<String> = (0..3).filter_map(|p| std::fs::read_to_string(probe.join(format!("P{p}.pwd"))).ok()).map(|s| s.trim().to_string()).collect();
    let set: BTreeSet<&String> = dirs.iter().collect();
    if dirs.len() != 3 || set.len() != 3 {
        fails.push(("C18:concurrent-shared".into(), format!("concurrent processes ran in {:?}", dirs)));
    }
    let left: Vec<String> = std::fs::read_dir(&tmp).map(|r| r.filter_map(|e| e.ok()).map(|e| e.file_name().to_string_lossy().to_string()).collect()).unwrap_or_default();
    if !left.is_empty() {
        fails.push(("C18:leftover".into(), format!("TMPDIR still holds {:?} after three concurrent runs", left)));
    }
    let _ = std::fs::remove_dir_all(&dir);
    CaseRec { op: format!("namer - {0},{0},{0} case=conc.{idx}", hex(b"doc.md")), impl_out: format!("{},{},{}", hex(b"doc.md"), hex(b"doc.md-1"), hex(b"doc.md-2")), oracle_fail: keep_own(prop, fails), nontrivial: false, tags: vec!["e2e:concurrent".into()] }
}

/// an early abort (execution error in a later document) right after a document that left a large
/// tree behind: everything must still be gone when scrut exits
fn abort_after_big_case(prop: &str, idx: u64, root: &Path) -> CaseRec {
    let dir = root.join(format!("abort-{idx}"));
    let _ = std::fs::remove_dir_all(&dir);
    let tmp = dir.join("tmp");
    let user = dir.join("userwork");
    std::fs::create_dir_all(&tmp).unwrap();
    std::fs::create_dir_all(&user).unwrap();
    let big = dir.join("1-big.md");
    std::fs::write(&big, "# big\n\n```scrut\n$ mkdir -p a/b \"$TMPDIR/t\" && for i in $(seq 1 6000); do : > a/b/f$i; : > \"$TMPDIR/t/g$i\"; done; echo ok\nok\n```\n").unwrap();
    let second = if idx % 2 == 0 {
        let p = dir.join("2-exec-error.t");
        std::fs::write(&p, "t\n  $ echo a\n  a\n\n  $ exit 3\n\n  $ echo never\n  never\n").unwrap();
        p
    } else {
        let p = dir.join("2-no-shell.md");
        std::fs::write(&p, "---\nshell: /nonexistent/shell\n---\n\n# t\n\n```scrut\n$ echo a\na\n```\n").unwrap();
        p
    };
    let workdir = idx / 2 % 2 == 1;
    let mut cmd = std::process::Command::new(scrut_bin());
    cmd.arg("test");
    if workdir {
        cmd.arg("--work-directory").arg(&user);
    }
    let out = cmd.arg(&big).arg(&second).current_dir(&dir).env("TMPDIR", &tmp).output().expect("run scrut");
    let code = out.status.code().unwrap_or(-1);
    let count = |d: &Path| -> usize { std::fs::read_dir(d).map(|r| r.count()).unwrap_or(0) };
    let mut fails = vec![];
    if code != 1 {
        fails.push(("C18:abort-scenario-exit".into(), format!("expected the run to abort with exit 1, got {code}")));
    }
    let left_tmp = count(&tmp);
    if left_tmp != 0 {
        fails.push(("C18:leftover-after-abort".into(), format!("TMPDIR holds {left_tmp} entries right after scrut exited with {code} (a document with a large work tree followed by an aborting document)")));
    }
    if workdir {
        let temp_left: Vec<String> = std::fs::read_dir(&user).map(|r| r.filter_map(|e| e.ok()).map(|e| e.file_name().to_string_lossy().to_string()).filter(|n| n.starts_with("temp.")).collect()).unwrap_or_default();
        if !temp_left.is_empty() {
            fails.push(("C18:leftover-after-abort".into(), format!("--work-directory still holds {:?}", temp_left)));
        }
    }
    let _ = std::fs::remove_dir_all(&dir);
    CaseRec { op: format!("namer - {0},{0} case=abort.{idx}", hex(b"doc.md")), impl_out: format!("{},{}", hex(b"doc.md"), hex(b"doc.md-1")), oracle_fail: keep_own(prop, fails), nontrivial: false, tags: vec!["e2e:abort-after-big".into()] }
}

/// a test case that runs into a limit is aborted: once scrut has exited nothing of it may go on running, and so
/// nothing may bring a directory back that scrut created and removed (the shell of the stateful executor
/// persists its state from an EXIT trap, `mkdir -p` included).
/// idx: work-directory (2) x kind of limit (5) x slow test case first / second (2).
/// Kind 4 is the per-test limit on a command that closes its output streams first (reading its output ends at once;
/// the shell must be stopped all the same when the limit is reached).
/// Kind 3 is no limit at all but a shell that hangs up on its STDIN while scrut still feeds it an expression larger
/// than the pipe buffer: the run ends at once (open finding C14:spurious-timeout-…), and the shell that is still
/// sleeping must not be left behind either.
fn timeout_orphan_case(prop: &str, idx: u64, root: &Path) -> CaseRec {
    let workdir = idx % 2 == 1;
    let limit = idx / 2 % 5;
    let second = idx / 10 % 2 == 1;
    let dir = root.join(format!("orphan-{idx}"));
    let _ = std::fs::remove_dir_all(&dir);
    let tmp = dir.join("tmp");
    let user = dir.join("userwork");
    std::fs::create_dir_all(&tmp).unwrap();
    std::fs::create_dir_all(user.join("old")).unwrap();
    let marker = dir.join("marker");
    let slow = format!("sleep 1; echo late > {}; echo ok", marker.display());
    let head = if second { "# t0\n\n```scrut\n$ X=1; echo ok\nok\n```\n\n" } else { "" };
    let (doc, text, args): (PathBuf, String, Vec<&str>) = match limit {
        0 => (dir.join("doc.md"), format!("{head}# slow\n\n```scrut {{timeout: 300ms}}\n$ {slow}\nok\n```\n"), vec![]),
        1 => (dir.join("doc.md"), format!("---\ntotal_timeout: 300ms\n---\n\n{head}# slow\n\n```scrut\n$ {slow}\nok\n```\n"), vec![]),
        2 => (dir.join("doc.md"), format!("{head}# slow\n\n```scrut\n$ {slow}\nok\n```\n"), vec!["--timeout-seconds", "0"]),
        3 => (dir.join("doc.md"), format!("{head}# slow\n\n```scrut\n$ exec 0</dev/null; {slow}\n{}ok\n```\n", format!("> # {}\n", "x".repeat(100)).repeat(3000)), vec![]),
        _ => (dir.join("doc.md"), format!("{head}# slow\n\n```scrut {{timeout: 300ms}}\n$ exec 1>&- 2>&-; {slow}\nok\n```\n"), vec![]),
    };
    // `--timeout-seconds 0` is "no limit": that variant is the control (the command ends by itself, the marker appears).
    // Variant 3 (a shell that closes its STDIN in front of 300 KB of expression) was a spurious timeout with an abandoned
    // shell until fix b5ab9a6 (the expression comes from a file now): it ends by itself as well, and passes
    let control = limit == 2 || limit == 3;
    std::fs::write(&doc, text).unwrap();
    let mut cmd = std::process::Command::new(scrut_bin());
    cmd.arg("test").args(&args);
    if workdir {
        cmd.arg("--work-directory").arg(&user);
    }
    let out = cmd.arg(&doc).current_dir(&dir).env("TMPDIR", &tmp).output().expect("run scrut");
    let code = out.status.code().unwrap_or(-1);
    let mut fails = vec![];
    let want = if control { 0 } else { 50 };
    if code != want {
        fails.push(("C18:orphan-scenario-exit".into(), format!("expected exit {want}, got {code}: {}", String::from_utf8_lossy(&out.stderr))));
    }
    let list = |d: &Path| -> Vec<String> { std::fs::read_dir(d).map(|r| r.filter_map(|e| e.ok()).map(|e| e.file_name().to_string_lossy().to_string()).collect()).unwrap_or_default() };
    let at_exit = list(&tmp);
    if !at_exit.is_empty() {
        fails.push(("C18:leftover".into(), format!("TMPDIR holds {:?} right after exit {code}", at_exit)));
    }
    if !control {
        std::thread::sleep(std::time::Duration::from_millis(1300));
    }
    let later = list(&tmp);
    if !later.is_empty() {
        fails.push(("C18:leftover-after-timeout".into(), format!("TMPDIR holds {:?} 1.3 s after scrut exited with {code}: the timed-out shell went on and brought the directory back", later)));
    }
    let user_later: Vec<String> = list(&user).into_iter().filter(|n| n != "old").collect();
    if !user_later.is_empty() {
        fails.push(("C18:leftover-after-timeout".into(), format!("--work-directory holds {:?} 1.3 s after scrut exited with {code}", user_later)));
    }
    // (that the slow command really is cut short is C14's business: exec.rs, stream e2e-timeout-aborts)
    if control && !marker.exists() {
        fails.push(("C18:orphan-scenario-marker".into(), "the control run (no limit) did not run its command to the end".into()));
    }
    let _ = std::fs::remove_dir_all(&dir);
    CaseRec { op: format!("namer - {0} case=orphan.{idx}", hex(b"doc.md")), impl_out: hex(b"doc.md"), oracle_fail: keep_own(prop, fails), nontrivial: false, tags: vec!["e2e:timeout-orphan".into(), format!("e2e:orphan-limit={limit}")] }
}

/// the directories scrut creates live below $TMPDIR (or --work-directory), whose path may hold any character: with a
/// `$`, a backtick, a backslash or a quote in it the state of the test cases must still be carried, and nothing may
/// be created anywhere else or stay behind.
/// idx: name (6) x TMPDIR / --work-directory (2)
fn odd_tmpdir_case(prop: &str, idx: u64, root: &Path) -> CaseRec {
    let names = ["t m p", "t$HOME", "t\"q", "t'q x", "t`echo x`", "t\\n$(echo y)"];
    let name = names[(idx % 6) as usize];
    let workdir = idx / 6 % 2 == 1;
    let dir = root.join(format!("odd-{idx}"));
    let _ = std::fs::remove_dir_all(&dir);
    let odd = dir.join(name);
    let plain_tmp = dir.join("plain-tmp");
    std::fs::create_dir_all(&odd).unwrap();
    std::fs::create_dir_all(&plain_tmp).unwrap();
    let doc = dir.join("doc.md");
    std::fs::write(&doc, "# a\n\n```scrut\n$ X=carried\n```\n\n# b\n\n```scrut\n$ echo $X\ncarried\n```\n").unwrap();
    let mut cmd = std::process::Command::new(scrut_bin());
    cmd.arg("test");
    if workdir {
        cmd.arg("--work-directory").arg(&odd).env("TMPDIR", &plain_tmp);
    } else {
        cmd.env("TMPDIR", &odd);
    }
    let out = cmd.arg(&doc).current_dir(&dir).env("HOME", "/nonexistent-home").output().expect("run scrut");
    let code = out.status.code().unwrap_or(-1);
    let mut fails = vec![];
    if code != 0 {
        fails.push(("C18:odd-tmpdir-run".into(), format!("directory name {name:?} ({}): the state of the first test case did not reach the second, exit {code}", if workdir { "--work-directory" } else { "TMPDIR" })));
    }
    let list = |d: &Path| -> Vec<String> { let mut v: Vec<String> = std::fs::read_dir(d).map(|r| r.filter_map(|e| e.ok()).map(|e| e.file_name().to_string_lossy().to_string()).collect()).unwrap_or_default(); v.sort(); v };
    let inside = list(&odd);
    if !inside.is_empty() {
        fails.push(("C18:leftover".into(), format!("directory name {name:?}: {:?} left inside it after exit {code}", inside)));
    }
    let mut around = list(&dir);
    around.retain(|n| n != name && n != "plain-tmp" && n != "doc.md");
    if !around.is_empty() || !list(&plain_tmp).is_empty() {
        fails.push(("C18:created-elsewhere".into(), format!("directory name {name:?}: scrut created {:?} next to it (and {:?} in the other temporary directory)", around, list(&plain_tmp))));
    }
    let _ = std::fs::remove_dir_all(&dir);
    CaseRec { op: format!("namer - {0} case=odd.{idx}", hex(b"doc.md")), impl_out: hex(b"doc.md"), oracle_fail: keep_own(prop, fails), nontrivial: false, tags: vec!["e2e:odd-tmpdir".into(), format!("e2e:odd-workdir={workdir}")] }
}

pub fn run(ctx: &Ctx, prop: &str) {
    let root = std::env::temp_dir().join(format!("scrut-verif-envdir-{}", std::process::id()));
    std::fs::create_dir_all(&root).unwrap();
    let seed = ctx.seed;
    // 1. the real TestEnvironment in-process (environment.rs compiled into the harness) vs the model:
    //    every mode x pre-existing names in the work directory x every document sequence up to length 3
    let r2 = root.clone();
    ctx.run_stream("env-api-exhaustive", API_EXHAUSTIVE_TOTAL, true, |idx| Some(api_exhaustive(prop, idx, &r2)));
    let r2 = root.clone();
    ctx.run_stream("env-api-random", if ctx.thorough { 2000 } else { 200 }, false, |idx| Some(api_random(prop, idx, seed, &r2)));
    // 2. end-to-end runs of the binary vs the model of the document loop
    let r2 = root.clone();
    ctx.run_stream("e2e-runs", if ctx.thorough { 600 } else { 120 }, false, |idx| Some(e2e_case(prop, idx, seed, &r2)));
    let r2 = root.clone();
    ctx.run_stream("e2e-concurrent", if ctx.thorough { 10 } else { 2 }, false, |idx| Some(concurrent_case(prop, idx, &r2)));
    let r2 = root.clone();
    ctx.run_stream("e2e-abort-after-big", if ctx.thorough { 16 } else { 4 }, false, |idx| Some(abort_after_big_case(prop, idx, &r2)));
    let r2 = root.clone();
    ctx.run_stream("e2e-timeout-orphan-exhaustive", 20, true, |idx| Some(timeout_orphan_case(prop, idx, &r2)));
    let r2 = root.clone();
    ctx.run_stream("e2e-odd-tmpdir-exhaustive", 12, true, |idx| Some(odd_tmpdir_case(prop, idx, &r2)));
    // 3. namer: exhaustive over request sequences up to length 4 over {a, a-1, b} x existing subsets of {a, a-1, a-2, b}
    let names = ["a", "a-1", "b"];
    let exist = ["a", "a-1", "a-2", "b"];
    let mut total = 0u64;
    let mut offs = vec![];
    for len in 0..=4u32 {
        offs.push((len, total));
        total += 3u64.pow(len) * 16;
    }
    let r2 = root.clone();
    ctx.run_stream("namer-exhaustive", total, true, |idx| {
        let (len, base) = *offs.iter().rev().find(|(_, b)| *b <= idx).unwrap();
        let mut r = idx - base;
        let ex: Vec<String> = (0..4).filter(|i| r >> i & 1 == 1).map(|i| exist[i].to_string()).collect();
        r >>= 4;
        let mut reqs = vec![];
        for _ in 0..len {
            reqs.push(names[(r % 3) as usize].to_string());
            r /= 3;
        }
        Some(namer_case(prop, ex, reqs, &r2, idx))
    });
    let r2 = root.clone();
    ctx.run_stream("namer-random", if ctx.thorough { 5000 } else { 500 }, false, |idx| {
        let mut rng = Rng::fork(seed, 30, idx);
        let pool = ["t.md", "t.md-1", "t.md-2", "é.md", "x y", "t.md-10", "t"];
        let ex: Vec<String> = pool.iter().filter(|_| rng.chance(1, 4)).map(|s| s.to_string()).collect();
        let reqs: Vec<String> = (0..rng.range(1, 12)).map(|_| rng.pick(&pool).to_string()).collect();
        Some(namer_case(prop, ex, reqs, &r2, 1_000_000 + idx))
    });
    let _ = std::fs::remove_dir_all(&root);
}

/// longer sequences, more names, on one environment
fn api_random(prop: &str, idx: u64, seed: u64, root: &Path) -> CaseRec {
    let mut rng = Rng::fork(seed, 32, idx);
    let mode = *rng.pick(&API_MODES[..3]);
    let files = ["doc.md", "doc.md-1", "a.t", "é.md", "__tmp", "x y.t"];
    let pre: Vec<&str> = files.iter().filter(|_| rng.chance(1, 4)).copied().collect();
    let docs: Vec<(usize, &str, bool)> = (0..rng.range(1, 8)).map(|_| (rng.range(0, 1), *rng.pick(&files), rng.chance(1, 3))).collect();
    api_case(prop, mode, &pre, &docs, root, &format!("r{seed}-{idx}"))
}

pub fn replay(prop: &str, op: &str) -> bool {
    let parts: Vec<&str> = op.split_whitespace().collect();
    let root = std::env::temp_dir().join(format!("scrut-verif-envdir-replay-{}", std::process::id()));
    std::fs::create_dir_all(&root).unwrap();
    let case = parts.last().and_then(|l| l.strip_prefix("case=")).map(|c| c.split('.').collect::<Vec<_>>());
    let c = match (parts.first().copied(), case.as_deref()) {
        (Some("envrun"), Some(["e2e", seed, idx])) => e2e_case(prop, idx.parse().unwrap_or(0), seed.parse().unwrap_or(1), &root),
        (Some("envapi"), Some(["api", tag])) if tag.starts_with('x') => api_exhaustive(prop, tag[1..].parse().unwrap_or(0), &root),
        (Some("envapi"), Some(["api", tag])) if tag.starts_with('r') => {
            let (seed, idx) = tag[1..].split_once('-').unwrap_or(("1", "0"));
            api_random(prop, idx.parse().unwrap_or(0), seed.parse().unwrap_or(1), &root)
        }
        (Some("namer"), Some(["conc", idx])) => concurrent_case(prop, idx.parse().unwrap_or(0), &root),
        (Some("namer"), Some(["abort", idx])) => abort_after_big_case(prop, idx.parse().unwrap_or(0), &root),
        (Some("namer"), Some(["odd", idx])) => odd_tmpdir_case(prop, idx.parse().unwrap_or(0), &root),
        (Some("namer"), Some(["orphan", idx])) => timeout_orphan_case(prop, idx.parse().unwrap_or(0), &root),
        (Some("namer"), _) if parts.len() == 3 => {
            let f = |s: &str| -> Vec<String> { if s == "-" { vec![] } else { s.split(',').map(|h| String::from_utf8_lossy(&unhex(h)).to_string()).collect() } };
            namer_case(prop, f(parts[1]), f(parts[2]), &root, 0)
        }
        _ => return false,
    };
    println!("op:   {}", c.op);
    println!("impl: {}", c.impl_out);
    for (cl, d) in &c.oracle_fail {
        println!("oracle-failure {cl}: {d}");
    }
    let _ = std::fs::remove_dir_all(&root);
    c.oracle_fail.is_empty()
}
