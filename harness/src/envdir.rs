//! C18: per-document work directory, documented environment, clean-up.
//! (1) the real `UniqueNamer` (src/bin/utils/namer.rs is compiled into this harness with
//!     `#[path]`, so it is always the current source) vs. the Lean model, on a real directory;
//! (2) end-to-end runs of the binary: `pwd`/`env` probes written by the tests, listing of TMPDIR
//!     and of a `--work-directory` afterwards, every outcome class, concurrent scrut processes.
use crate::common::*;
use std::collections::{BTreeMap, BTreeSet};
use std::path::{Path, PathBuf};

#[allow(dead_code)]
#[path = "/repo/src/bin/utils/namer.rs"]
mod namer;

fn keep(prop: &str, fails: Vec<(String, String)>) -> Vec<(String, String)> {
    fails.into_iter().filter(|(c, _)| c.starts_with(prop)).collect()
}

fn namer_case(prop: &str, existing: Vec<String>, reqs: Vec<String>, root: &Path, idx: u64) -> CaseRec {
    let dir = root.join(format!("namer-{idx}"));
    let _ = std::fs::remove_dir_all(&dir);
    std::fs::create_dir_all(&dir).unwrap();
    for e in &existing {
        let _ = std::fs::create_dir_all(dir.join(e));
    }
    let mut fails = vec![];
    let r = guarded(|| {
        let mut n = namer::UniqueNamer::new(&dir);
        reqs.iter().map(|r| n.next_name(Path::new(r)).to_string_lossy().to_string()).collect::<Vec<String>>()
    });
    let impl_out = match r {
        Err(p) => {
            fails.push(("C18:namer-crash".into(), p));
            "crash".to_string()
        }
        Ok(out) => {
            // direct oracle: pairwise distinct, not on disk
            let set: BTreeSet<&String> = out.iter().collect();
            if set.len() != out.len() {
                fails.push(("C18:namer-duplicate".into(), format!("names {:?} for requests {:?}", out, reqs)));
            }
            for o in &out {
                if existing.contains(o) {
                    fails.push(("C18:namer-existing".into(), format!("name {o} exists on disk")));
                }
            }
            out.iter().map(|n| hex(n.as_bytes())).collect::<Vec<_>>().join(",")
        }
    };
    let _ = std::fs::remove_dir_all(&dir);
    let f = |v: &Vec<String>| if v.is_empty() { "-".to_string() } else { v.iter().map(|n| hex(n.as_bytes())).collect::<Vec<_>>().join(",") };
    CaseRec { op: format!("namer {} {}", f(&existing), f(&reqs)), impl_out, oracle_fail: keep(prop, fails), nontrivial: reqs.len() >= 2, tags: vec![format!("namer:reqs={}", reqs.len())] }
}

fn scrut_bin() -> String {
    std::env::var("SCRUT_BIN").unwrap_or("/verif/.build/repo-target/debug/scrut".into())
}

#[derive(Clone, Copy, Debug, PartialEq)]
enum Kind {
    Pass,
    Fail,
    Timeout,
    Skip,
    ParseError,
    Kill,
}
#[derive(Clone, Copy, Debug, PartialEq)]
enum Mode {
    Default,
    WorkDir,
    Keep,
    MissingShell,
}

const DOCUMENTED: [&str; 11] = ["TESTDIR", "TESTFILE", "TESTSHELL", "TMPDIR", "LANG", "LANGUAGE", "LC_ALL", "TZ", "COLUMNS", "CDPATH", "GREP_OPTIONS"];

fn e2e_case(prop: &str, idx: u64, seed: u64, root: &Path) -> CaseRec {
    let mut rng = Rng::fork(seed, 31, idx);
    let ndocs = rng.range(1, 3);
    let mode = *rng.pick(&[Mode::Default, Mode::Default, Mode::WorkDir, Mode::Keep, Mode::MissingShell]);
    let cram = rng.chance(1, 4);
    let same_names = rng.chance(2, 3);
    let kinds: Vec<Kind> = (0..ndocs).map(|_| *rng.pick(&[Kind::Pass, Kind::Pass, Kind::Fail, Kind::Timeout, Kind::Skip, Kind::ParseError, Kind::Kill])).collect();
    let dir = root.join(format!("e2e-{idx}"));
    let _ = std::fs::remove_dir_all(&dir);
    let tmp = dir.join("tmp");
    let probe = dir.join("probe");
    let user = dir.join("userwork");
    std::fs::create_dir_all(&tmp).unwrap();
    std::fs::create_dir_all(&probe).unwrap();
    std::fs::create_dir_all(&user).unwrap();
    let mut paths: Vec<PathBuf> = vec![];
    for (di, k) in kinds.iter().enumerate() {
        let sub = dir.join(format!("d{di}"));
        std::fs::create_dir_all(&sub).unwrap();
        let ext = if cram { "t" } else { "md" };
        let name = if same_names { format!("doc.{ext}") } else { format!("doc{di}.{ext}") };
        let p = sub.join(name);
        let pr = |t: usize| format!("pwd > {0}/D{1}T{2}.pwd; env > {0}/D{1}T{2}.env", probe.display(), di, t);
        let second = match k {
            Kind::Pass => "echo ok".to_string(),
            Kind::Fail => "echo bad".to_string(),
            Kind::Timeout => "sleep 3; echo ok".to_string(),
            Kind::Skip => "(exit 80)".to_string(),
            Kind::ParseError => "echo ok".to_string(),
            Kind::Kill => "kill -9 $$".to_string(),
        };
        let text = if cram {
            let bad = if *k == Kind::ParseError { "  [a (regex)\n" } else { "" };
            format!("t0\n  $ {}; echo ok\n  ok\n\nt1\n  $ {}; {}\n  ok\n{}\nt2\n  $ {}; echo ok\n  ok\n", pr(0), pr(1), if *k == Kind::Timeout || *k == Kind::Kill { "echo ok".to_string() } else { second.clone() }, bad, pr(2))
        } else {
            let bad = if *k == Kind::ParseError { "[a (regex)\n" } else { "" };
            let cfg = if *k == Kind::Timeout { " {timeout: 300ms}" } else { "" };
            format!("# t0\n\n```scrut\n$ {}; echo ok\nok\n```\n\n# t1\n\n```scrut{}\n$ {}; {}\nok\n{}```\n\n# t2\n\n```scrut\n$ {}; echo ok\nok\n```\n", pr(0), cfg, pr(1), second, bad, pr(2))
        };
        std::fs::write(&p, text).unwrap();
        paths.push(p);
    }
    let mut cmd = std::process::Command::new(scrut_bin());
    cmd.arg("test");
    match mode {
        Mode::WorkDir => {
            cmd.arg("--work-directory").arg(&user);
        }
        Mode::Keep => {
            cmd.arg("--keep-temporary-directories");
        }
        Mode::MissingShell => {
            cmd.arg("--shell").arg("/nonexistent/shell");
        }
        Mode::Default => {}
    }
    let out = cmd.args(&paths).current_dir(&dir).env("TMPDIR", &tmp).output().expect("run scrut");
    let code = out.status.code().unwrap_or(-1);
    let mut fails = vec![];
    // --- clean-up
    let left: Vec<String> = std::fs::read_dir(&tmp).map(|r| r.filter_map(|e| e.ok()).map(|e| e.file_name().to_string_lossy().to_string()).collect()).unwrap_or_default();
    let parse_error = kinds.contains(&Kind::ParseError);
    match mode {
        Mode::Keep if !parse_error => {
            // one execution.* and one temp.* per document that was started
            let ok = left.iter().all(|n| n.starts_with("execution.") || n.starts_with("temp."));
            if !ok || left.is_empty() {
                fails.push(("C18:keep-listing".into(), format!("--keep-temporary-directories left {:?}", left)));
            }
        }
        Mode::Keep => {}
        _ => {
            if !left.is_empty() {
                fails.push(("C18:leftover".into(), format!("TMPDIR still holds {:?} after exit {code} (mode {:?}, kinds {:?})", left, mode, kinds)));
            }
        }
    }
    let user_left: Vec<String> = std::fs::read_dir(&user).map(|r| r.filter_map(|e| e.ok()).map(|e| e.file_name().to_string_lossy().to_string()).collect()).unwrap_or_default();
    if !user.exists() {
        fails.push(("C18:user-dir-removed".into(), "the directory given with --work-directory no longer exists".into()));
    }
    if user_left.iter().any(|n| n.starts_with("temp.")) {
        fails.push(("C18:user-dir-temp-left".into(), format!("temporary directory left inside --work-directory: {:?}", user_left)));
    }
    // --- probes
    let mut pwd: BTreeMap<(usize, usize), String> = BTreeMap::new();
    for di in 0..ndocs {
        for t in 0..3 {
            if let Ok(s) = std::fs::read_to_string(probe.join(format!("D{di}T{t}.pwd"))) {
                pwd.insert((di, t), s.trim().to_string());
                let env = std::fs::read_to_string(probe.join(format!("D{di}T{t}.env"))).unwrap_or_default();
                let vars: BTreeMap<&str, &str> = env.lines().filter_map(|l| l.split_once('=')).collect();
                for v in DOCUMENTED {
                    if !vars.contains_key(v) {
                        fails.push(("C18:env-missing".into(), format!("document {di} test {t}: {v} is not set")));
                    }
                }
                let doc_name = paths[di].file_name().unwrap().to_string_lossy().to_string();
                if vars.get("TESTFILE") != Some(&doc_name.as_str()) {
                    fails.push(("C18:env-testfile".into(), format!("TESTFILE={:?} for {doc_name}", vars.get("TESTFILE"))));
                }
                if vars.get("TESTDIR").map(|d| Path::new(d).canonicalize().ok()) != Some(paths[di].parent().unwrap().canonicalize().ok()) {
                    fails.push(("C18:env-testdir".into(), format!("TESTDIR={:?}", vars.get("TESTDIR"))));
                }
                if !cram {
                    let want_prefix = format!("{}:", paths[di].display());
                    let st = vars.get("SCRUT_TEST").copied().unwrap_or("");
                    let line_ok = st.rsplit(':').next().and_then(|l| l.parse::<usize>().ok()).is_some();
                    if !(st.starts_with(&want_prefix) || st.ends_with(&format!("{}:{}", doc_name, st.rsplit(':').next().unwrap_or("")))) || !line_ok {
                        fails.push(("C18:env-scrut-test".into(), format!("SCRUT_TEST={st:?} for document {}", paths[di].display())));
                    }
                }
            }
        }
    }
    // all tests of a document share one directory
    for di in 0..ndocs {
        let ds: BTreeSet<&String> = pwd.iter().filter(|((d, _), _)| *d == di).map(|(_, v)| v).collect();
        if ds.len() > 1 {
            fails.push(("C18:workdir-not-shared".into(), format!("document {di} ran in {:?}", ds)));
        }
    }
    // different documents do not share (except under --work-directory, where the user's directory is used for all)
    let per_doc: Vec<Option<&String>> = (0..ndocs).map(|di| pwd.iter().find(|((d, _), _)| *d == di).map(|(_, v)| v)).collect();
    for a in 0..ndocs {
        for b in a + 1..ndocs {
            if let (Some(x), Some(y)) = (per_doc[a], per_doc[b]) {
                if x == y {
                    let cls = if mode == Mode::WorkDir { "C18:workdir-shared-under-work-directory" } else { "C18:workdir-shared" };
                    fails.push((cls.into(), format!("documents {a} and {b} both ran in {x}")));
                }
            }
        }
    }
    let _ = std::fs::remove_dir_all(&dir);
    CaseRec {
        // no model op for end-to-end runs: the namer model is exercised separately; keep the protocol uniform
        op: format!("namer - {}", (0..ndocs).map(|_| hex(b"doc.md")).collect::<Vec<_>>().join(",")),
        impl_out: {
            // what the namer would answer for these requests in one shared directory (informational canonical line)
            let mut v = vec![hex(b"doc.md")];
            for i in 1..ndocs {
                v.push(hex(format!("doc.md-{i}").as_bytes()));
            }
            v.join(",")
        },
        oracle_fail: keep(prop, fails),
        nontrivial: false, // oracle-only stream
        tags: vec![format!("e2e:mode={:?}", mode), format!("e2e:docs={ndocs}"), format!("e2e:exit={code}"), format!("e2e:cram={cram}")].into_iter().chain(kinds.iter().map(|k| format!("e2e:kind={:?}", k))).collect(),
    }
}

/// three scrut processes at the same time on the same TMPDIR
fn concurrent_case(prop: &str, idx: u64, root: &Path) -> CaseRec {
    let dir = root.join(format!("conc-{idx}"));
    let _ = std::fs::remove_dir_all(&dir);
    let tmp = dir.join("tmp");
    let probe = dir.join("probe");
    std::fs::create_dir_all(&tmp).unwrap();
    std::fs::create_dir_all(&probe).unwrap();
    let mut children = vec![];
    for p in 0..3 {
        let sub = dir.join(format!("p{p}"));
        std::fs::create_dir_all(&sub).unwrap();
        let doc = sub.join("doc.md");
        std::fs::write(&doc, format!("# t\n\n```scrut\n$ pwd > {}/P{p}.pwd; sleep 0.3; echo ok\nok\n```\n", probe.display())).unwrap();
        children.push(std::process::Command::new(scrut_bin()).arg("test").arg(&doc).current_dir(&sub).env("TMPDIR", &tmp).stdout(std::process::Stdio::null()).stderr(std::process::Stdio::null()).spawn().expect("spawn scrut"));
    }
    let mut fails = vec![];
    for mut c in children {
        let st = c.wait().unwrap();
        if st.code() != Some(0) {
            fails.push(("C18:concurrent-exit".into(), format!("a concurrent scrut process exited with {:?}", st.code())));
        }
    }
    let dirs: Vec<String> = (0..3).filter_map(|p| std::fs::read_to_string(probe.join(format!("P{p}.pwd"))).ok()).map(|s| s.trim().to_string()).collect();
    let set: BTreeSet<&String> = dirs.iter().collect();
    if dirs.len() != 3 || set.len() != 3 {
        fails.push(("C18:concurrent-shared".into(), format!("concurrent processes ran in {:?}", dirs)));
    }
    let left: Vec<String> = std::fs::read_dir(&tmp).map(|r| r.filter_map(|e| e.ok()).map(|e| e.file_name().to_string_lossy().to_string()).collect()).unwrap_or_default();
    if !left.is_empty() {
        fails.push(("C18:leftover".into(), format!("TMPDIR still holds {:?} after three concurrent runs", left)));
    }
    let _ = std::fs::remove_dir_all(&dir);
    CaseRec { op: format!("namer - {0},{0},{0}", hex(b"doc.md")), impl_out: format!("{},{},{}", hex(b"doc.md"), hex(b"doc.md-1"), hex(b"doc.md-2")), oracle_fail: keep(prop, fails), nontrivial: false, tags: vec!["e2e:concurrent".into()] }
}

/// an early abort (execution error in a later document) right after a document that left a large
/// tree behind: everything must still be gone when scrut exits
fn abort_after_big_case(prop: &str, idx: u64, root: &Path) -> CaseRec {
    let dir = root.join(format!("abort-{idx}"));
    let _ = std::fs::remove_dir_all(&dir);
    let tmp = dir.join("tmp");
    let user = dir.join("userwork");
    std::fs::create_dir_all(&tmp).unwrap();
    std::fs::create_dir_all(&user).unwrap();
    let big = dir.join("1-big.md");
    std::fs::write(&big, "# big\n\n```scrut\n$ mkdir -p a/b \"$TMPDIR/t\" && for i in $(seq 1 6000); do : > a/b/f$i; : > \"$TMPDIR/t/g$i\"; done; echo ok\nok\n```\n").unwrap();
    let second = if idx % 2 == 0 {
        let p = dir.join("2-exec-error.t");
        std::fs::write(&p, "t\n  $ echo a\n  a\n\n  $ exit 3\n\n  $ echo never\n  never\n").unwrap();
        p
    } else {
        let p = dir.join("2-no-shell.md");
        std::fs::write(&p, "---\nshell: /nonexistent/shell\n---\n\n# t\n\n```scrut\n$ echo a\na\n```\n").unwrap();
        p
    };
    let workdir = idx / 2 % 2 == 1;
    let mut cmd = std::process::Command::new(scrut_bin());
    cmd.arg("test");
    if workdir {
        cmd.arg("--work-directory").arg(&user);
    }
    let out = cmd.arg(&big).arg(&second).current_dir(&dir).env("TMPDIR", &tmp).output().expect("run scrut");
    let code = out.status.code().unwrap_or(-1);
    let count = |d: &Path| -> usize { std::fs::read_dir(d).map(|r| r.count()).unwrap_or(0) };
    let mut fails = vec![];
    if code != 1 {
        fails.push(("C18:abort-scenario-exit".into(), format!("expected the run to abort with exit 1, got {code}")));
    }
    let left_tmp = count(&tmp);
    if left_tmp != 0 {
        fails.push(("C18:leftover-after-abort".into(), format!("TMPDIR holds {left_tmp} entries right after scrut exited with {code} (a document with a large work tree followed by an aborting document)")));
    }
    if workdir {
        let temp_left: Vec<String> = std::fs::read_dir(&user).map(|r| r.filter_map(|e| e.ok()).map(|e| e.file_name().to_string_lossy().to_string()).filter(|n| n.starts_with("temp.")).collect()).unwrap_or_default();
        if !temp_left.is_empty() {
            fails.push(("C18:leftover-after-abort".into(), format!("--work-directory still holds {:?}", temp_left)));
        }
    }
    let _ = std::fs::remove_dir_all(&dir);
    CaseRec { op: format!("namer - {0},{0}", hex(b"doc.md")), impl_out: format!("{},{}", hex(b"doc.md"), hex(b"doc.md-1")), oracle_fail: keep(prop, fails), nontrivial: false, tags: vec!["e2e:abort-after-big".into()] }
}

pub fn run(ctx: &Ctx, prop: &str) {
    let root = std::env::temp_dir().join(format!("scrut-verif-envdir-{}", std::process::id()));
    std::fs::create_dir_all(&root).unwrap();
    let seed = ctx.seed;
    // 1. namer: exhaustive over request sequences up to length 4 over {a, a-1, b} x existing subsets of {a, a-1, a-2, b}
    let names = ["a", "a-1", "b"];
    let exist = ["a", "a-1", "a-2", "b"];
    let mut total = 0u64;
    let mut offs = vec![];
    for len in 0..=4u32 {
        offs.push((len, total));
        total += 3u64.pow(len) * 16;
    }
    let r2 = root.clone();
    ctx.run_stream("namer-exhaustive", total, true, |idx| {
        let (len, base) = *offs.iter().rev().find(|(_, b)| *b <= idx).unwrap();
        let mut r = idx - base;
        let ex: Vec<String> = (0..4).filter(|i| r >> i & 1 == 1).map(|i| exist[i].to_string()).collect();
        r >>= 4;
        let mut reqs = vec![];
        for _ in 0..len {
            reqs.push(names[(r % 3) as usize].to_string());
            r /= 3;
        }
        Some(namer_case(prop, ex, reqs, &r2, idx))
    });
    let r2 = root.clone();
    ctx.run_stream("namer-random", if ctx.thorough { 5000 } else { 500 }, false, |idx| {
        let mut rng = Rng::fork(seed, 30, idx);
        let pool = ["t.md", "t.md-1", "t.md-2", "é.md", "x y", "t.md-10", "t"];
        let ex: Vec<String> = pool.iter().filter(|_| rng.chance(1, 4)).map(|s| s.to_string()).collect();
        let reqs: Vec<String> = (0..rng.range(1, 12)).map(|_| rng.pick(&pool).to_string()).collect();
        Some(namer_case(prop, ex, reqs, &r2, 1_000_000 + idx))
    });
    // 2. end-to-end
    let r2 = root.clone();
    ctx.run_stream("e2e-runs", if ctx.thorough { 300 } else { 40 }, false, |idx| Some(e2e_case(prop, idx, seed, &r2)));
    let r2 = root.clone();
    ctx.run_stream("e2e-concurrent", if ctx.thorough { 10 } else { 2 }, false, |idx| Some(concurrent_case(prop, idx, &r2)));
    let r2 = root.clone();
    ctx.run_stream("e2e-abort-after-big", if ctx.thorough { 16 } else { 4 }, false, |idx| Some(abort_after_big_case(prop, idx, &r2)));
    let _ = std::fs::remove_dir_all(&root);
}

pub fn replay(_prop: &str, op: &str) -> bool {
    let parts: Vec<&str> = op.split_whitespace().collect();
    if parts.len() != 3 {
        return false;
    }
    let f = |s: &str| -> Vec<String> { if s == "-" { vec![] } else { s.split(',').map(|h| String::from_utf8_lossy(&unhex(h)).to_string()).collect() } };
    let root = std::env::temp_dir().join(format!("scrut-verif-envdir-replay-{}", std::process::id()));
    std::fs::create_dir_all(&root).unwrap();
    let c = namer_case("C18", f(parts[1]), f(parts[2]), &root, 0);
    println!("impl: {}", c.impl_out);
    for (cl, d) in &c.oracle_fail {
        println!("oracle-failure {cl}: {d}");
    }
    let _ = std::fs::remove_dir_all(&root);
    c.oracle_fail.is_empty()
}
