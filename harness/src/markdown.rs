//! C06: the Markdown parser (`src/parsers/markdown.rs` + `line_parser.rs`) against the Lean model
//! (`md` op), plus direct oracles: expected tests known by construction for AST-generated
//! documents (for documents that end in an unterminated construct of each kind, and for every
//! line-prefix of generated documents), structural sanity of every result, crash.
use crate::common::*;
use scrut::config::{DocumentConfig, TestCaseConfig};
use scrut::expectation::ExpectationMaker;
use scrut::parsers::markdown::{MarkdownParser, DEFAULT_MARKDOWN_LANGUAGES};
use scrut::parsers::parser::Parser;
use scrut::rules::registry::RuleRegistry;
use scrut::testcase::TestCase;
use std::cell::RefCell;
use std::collections::HashMap;
use std::sync::Arc;

thread_local! {
    static MAKER: Arc<ExpectationMaker> = Arc::new(ExpectationMaker::new(RuleRegistry::default()));
    static EXP_CACHE: RefCell<HashMap<String, bool>> = RefCell::new(HashMap::new());
    static LETTER: regex::Regex = regex::Regex::new(r"^\p{L}$").unwrap();
}

fn exp_ok(line: &str) -> bool {
    EXP_CACHE.with(|c| {
        if let Some(v) = c.borrow().get(line) {
            return *v;
        }
        let v = MAKER.with(|m| guarded(|| m.parse(line).is_ok()).unwrap_or(false));
        let mut c = c.borrow_mut();
        if c.len() > 50_000 {
            c.clear();
        }
        c.insert(line.to_string(), v);
        v
    })
}

/// what the real parser returned, canonical
#[derive(Clone, Debug, PartialEq)]
pub struct RTest {
    pub title: String,
    pub cmd: String,
    pub exps: Vec<String>,
    pub code: Option<i64>,
    pub line: usize,
    pub cfg: String,
}

pub enum Real {
    Crash(String),
    Err(String),
    Ok(DocumentConfig, Vec<RTest>),
}

fn cfg_value(c: &TestCaseConfig) -> String {
    hex(serde_json::to_string(c).unwrap_or_else(|_| "?".into()).as_bytes())
}
fn doc_value(c: &DocumentConfig) -> String {
    hex(format!("{}", c).as_bytes())
}

fn canon(t: &TestCase) -> RTest {
    RTest {
        title: t.title.clone(),
        cmd: t.shell_expression.clone(),
        exps: t.expectations.iter().map(|e| e.original_string()).collect(),
        code: t.exit_code.map(|c| c as i64),
        line: t.line_number,
        cfg: cfg_value(&t.config),
    }
}

pub fn real_parse(text: &str) -> Real {
    let r = guarded(|| {
        let maker = MAKER.with(|m| m.clone());
        let p = MarkdownParser::new(maker, DEFAULT_MARKDOWN_LANGUAGES, None);
        p.parse(text).map(|(d, ts)| (d, ts.iter().map(canon).collect::<Vec<_>>())).map_err(|e| format!("{:#}", e))
    });
    match r {
        Err(p) => Real::Crash(p),
        Ok(Err(m)) => Real::Err(m),
        Ok(Ok((d, ts))) => Real::Ok(d, ts),
    }
}

/// error message -> small enum (+ the line number the message names)
fn err_class(msg: &str) -> String {
    let num_after = |pat: &str| -> String {
        msg.find(pat).map(|p| msg[p + pat.len()..].chars().take_while(|c| c.is_ascii_digit()).collect::<String>()).unwrap_or_default()
    };
    if msg.contains("command extender") {
        format!("err extender {}", num_after("line "))
    } else if msg.contains("exit code provided multiple times") {
        format!("err exit-code-twice {}", num_after("line "))
    } else if msg.contains("exit code [") && msg.contains("is out of range") {
        format!("err exit-code-out-of-range {}", num_after("line "))
    } else if msg.contains("output expectation or exit code given") {
        format!("err body-without-command {}", num_after("line "))
    } else if msg.contains("exit code given") {
        format!("err exit-code-without-command {}", num_after("line "))
    } else if msg.contains("no shell expression specified") {
        format!("err no-shell-expression {}", num_after("line "))
    } else if msg.contains("parsing line ") {
        format!("err expectation {}", num_after("parsing line "))
    } else if msg.contains("missing language specifier") {
        format!("err missing-language {}", num_after("starting at line "))
    } else if msg.contains("parse document config") {
        "err doc-config".into()
    } else if msg.contains("parse testcase config") {
        "err test-config".into()
    } else {
        format!("err other:{}", msg.chars().take(60).collect::<String>().replace(' ', "_"))
    }
}

fn show_test(t: &RTest) -> String {
    let e = if t.exps.is_empty() { "-".to_string() } else { t.exps.iter().map(|e| hex(e.as_bytes())).collect::<Vec<_>>().join(",") };
    format!("t={} c={} e={} x={} l={} cfg={}", hex(t.title.as_bytes()), hex(t.cmd.as_bytes()), e, t.code.map(|c| c.to_string()).unwrap_or("-".into()), t.line, t.cfg)
}

pub fn impl_out(r: &Real) -> String {
    match r {
        Real::Crash(_) => "crash".into(),
        Real::Err(m) => err_class(m),
        Real::Ok(d, ts) => {
            let mut parts = vec![format!("ok doc={} n={}", doc_value(d), ts.len())];
            parts.extend(ts.iter().map(show_test));
            parts.join(" | ")
        }
    }
}

fn base_cfg() -> TestCaseConfig {
    TestCaseConfig::default_markdown()
}

/// value of a block's configuration given the raw text between the braces (None = no braces)
fn test_cfg_value(text: Option<&str>, doc: &DocumentConfig) -> String {
    let parsed: Result<TestCaseConfig, _> = match text {
        None => Ok(TestCaseConfig::empty()),
        Some(t) => guarded(|| serde_yaml::from_str::<TestCaseConfig>(&format!("{{{}}}", t)).map_err(|e| e.to_string())).unwrap_or_else(|p| Err(p)),
    };
    match parsed {
        Err(_) => "!".into(),
        Ok(c) => cfg_value(&c.with_defaults_from(&doc.defaults).with_defaults_from(&base_cfg())),
    }
}

/// the front-matter text as serde_yaml has to see it: every line of the document has its line ending, the last one too
/// (a block scalar that is the last entry keeps its final line break)
fn fm_yaml(text: &str) -> String {
    format!("{text}\n")
}

fn doc_cfg_value(text: &str) -> (String, Option<DocumentConfig>) {
    let parsed = guarded(|| serde_yaml::from_str::<DocumentConfig>(&fm_yaml(text)).map_err(|e| e.to_string())).unwrap_or_else(|p| Err(p));
    match parsed {
        Err(_) => ("!".into(), None),
        Ok(c) => {
            let d = DocumentConfig::default_markdown().with_overrides_from(&c);
            (doc_value(&d), Some(d))
        }
    }
}

/// the op line for the model: the document plus the verdicts of the code that is not modelled
/// (Unicode letter class, expectation grammar, serde_yaml + config layering)
pub fn make_op(text: &str, real: &Real) -> String {
    let lines: Vec<&str> = text.lines().collect();
    let mut letters: Vec<u32> = text.chars().filter(|c| !c.is_ascii() && LETTER.with(|l| l.is_match(&c.to_string()))).map(|c| c as u32).collect();
    letters.sort();
    letters.dedup();
    let mut bad: Vec<&str> = lines.iter().copied().filter(|l| !exp_ok(l)).collect();
    bad.sort();
    bad.dedup();
    // front-matter candidates: from a `---` line to the next one (or the end)
    let mut doc_tab: Vec<String> = vec![format!("default:{}", doc_value(&DocumentConfig::default_markdown()))];
    let mut seen = std::collections::HashSet::new();
    for i in 0..lines.len() {
        if lines[i] == "---" {
            let j = (i + 1..lines.len()).find(|j| lines[*j] == "---").unwrap_or(lines.len());
            let t = lines[i + 1..j].join("\n");
            if seen.insert(t.clone()) {
                doc_tab.push(format!("{}:{}", hex(t.as_bytes()), doc_cfg_value(&t).0));
            }
        }
    }
    // two different front-matters in a row (the second overrides the first)
    let cands: Vec<String> = seen.iter().cloned().collect();
    if cands.len() <= 4 {
        for a in &cands {
            for b in &cands {
                if a != b {
                    let v = match (doc_cfg_value(a).1, guarded(|| serde_yaml::from_str::<DocumentConfig>(&fm_yaml(b)).ok()).unwrap_or(None)) {
                        (Some(da), Some(pb)) => doc_value(&da.with_overrides_from(&pb)),
                        _ => "!".to_string(),
                    };
                    doc_tab.push(format!("{}+{}:{}", hex(a.as_bytes()), hex(b.as_bytes()), v));
                }
            }
        }
    }
    let doc = match real {
        Real::Ok(d, _) => d.clone(),
        _ => DocumentConfig::default_markdown(),
    };
    let mut test_tab: Vec<String> = vec![format!("none:{}", test_cfg_value(None, &doc))];
    let mut seen = std::collections::HashSet::new();
    for l in &lines {
        // white space after the closing brace is ignored by the fence recogniser
        let l = l.trim_end();
        if l.ends_with('}') {
            for (k, ch) in l.char_indices() {
                if ch == '{' && k + 1 < l.len() - 1 {
                    let t = &l[k + 1..l.len() - 1];
                    if seen.insert(t.to_string()) {
                        test_tab.push(format!("{}:{}", hex(t.as_bytes()), test_cfg_value(Some(t), &doc)));
                    }
                }
            }
        }
    }
    format!(
        "md {} {} {} {} {}",
        hex(text.as_bytes()),
        if letters.is_empty() { "-".to_string() } else { letters.iter().map(|c| c.to_string()).collect::<Vec<_>>().join(",") },
        if bad.is_empty() { "-".to_string() } else { bad.iter().map(|l| hex(l.as_bytes())).collect::<Vec<_>>().join(",") },
        doc_tab.join(","),
        test_tab.join(",")
    )
}

/// independent of the parser's regex: "[" one or more ASCII digits "]", whether or not the number fits an i32
fn exit_code_form(line: &str) -> bool {
    let b = line.as_bytes();
    b.len() >= 3 && b[0] == b'[' && b[b.len() - 1] == b']' && b[1..b.len() - 1].iter().all(|c| (b'0'..=b'9').contains(c))
}

/// oracles that need no expected value: crash; no expectation has the form of an exit code line; every reported test sits on a `$ ` line of the
/// document and carries that line's text; tests are in document order; expectation texts are
/// lines of the document after the `$` line
fn structural(text: &str, real: &Real) -> Vec<(String, String)> {
    let mut f = vec![];
    match real {
        Real::Crash(p) => f.push(("C06:crash".to_string(), format!("panic: {}", p.chars().take(200).collect::<String>()))),
        Real::Err(_) => {}
        Real::Ok(_, ts) => {
            let lines: Vec<&str> = text.lines().collect();
            let mut prev = 0usize;
            for t in ts {
                if t.line == 0 || t.line > lines.len() {
                    f.push(("C06:line-number".to_string(), format!("test `{}` reports line {} of a {}-line document", t.cmd, t.line, lines.len())));
                    continue;
                }
                let l = lines[t.line - 1];
                let first = t.cmd.split('\n').next().unwrap_or("");
                if l.strip_prefix("$ ") != Some(first) {
                    f.push(("C06:line-number".to_string(), format!("test `{}` reports line {}, which reads `{}`", t.cmd, t.line, l)));
                }
                if t.line <= prev {
                    f.push(("C06:order".to_string(), format!("test at line {} reported after the test at line {}", t.line, prev)));
                }
                let prev_start = prev;
                prev = t.line;
                let ncmd = t.cmd.split('\n').count();
                let _ = prev_start;
                let mut at = t.line - 1 + ncmd; // first line after the command
                for e in t.exps.iter().filter(|e| exit_code_form(e)) {
                    f.push(("C06:exit-code-out-of-range-becomes-expectation".to_string(), format!("the test at line {} carries the expectation `{}`, which has the form of an exit code line (exit code of the test: {:?})", t.line, e, t.code)));
                }
                for e in &t.exps {
                    match (at..lines.len()).find(|i| lines[*i] == e) {
                        Some(i) => at = i + 1,
                        None => f.push(("C06:expectation-text".to_string(), format!("expectation `{}` of the test at line {} is not a line of the document after its command", e, t.line))),
                    }
                }
            }
        }
    }
    f
}

fn keep(prop: &str, fails: Vec<(String, String)>) -> Vec<(String, String)> {
    fails.into_iter().filter(|(c, _)| c.starts_with(prop)).collect()
}

fn tags_of(real: &Real, lines: usize) -> Vec<String> {
    let mut t = vec![format!("lines={}", if lines > 12 { ">12".to_string() } else { lines.to_string() })];
    match real {
        Real::Crash(_) => t.push("result=crash".into()),
        Real::Err(m) => t.push(format!("result={}", err_class(m).split(' ').take(2).collect::<Vec<_>>().join("-"))),
        Real::Ok(_, ts) => t.push(format!("result=ok-tests={}", if ts.len() > 4 { ">4".to_string() } else { ts.len().to_string() })),
    }
    t
}

fn case_of(prop: &str, text: &str, extra: Vec<(String, String)>, extra_tags: Vec<String>) -> CaseRec {
    let real = real_parse(text);
    case_with(prop, text, real, extra, extra_tags)
}
fn case_with(prop: &str, text: &str, real: Real, extra: Vec<(String, String)>, extra_tags: Vec<String>) -> CaseRec {
    let mut fails = structural(text, &real);
    fails.extend(extra);
    let mut tags = tags_of(&real, text.lines().count());
    tags.extend(extra_tags);
    let nontrivial = text.lines().filter(|l| l.starts_with("```")).count() >= 2;
    CaseRec { op: make_op(text, &real), impl_out: impl_out(&real), oracle_fail: keep(prop, fails), nontrivial, tags }
}

// ---------------------------------------------------------------------------------------------
// AST-directed documents
// ---------------------------------------------------------------------------------------------

#[derive(Clone, Debug)]
pub enum Item {
    Blank,
    /// a line that is neither a title nor a fence start
    Prose(String),
    /// a paragraph line starting with a letter
    Para(String),
    Heading(usize, String),
    /// only as the first item
    FrontMatter(Vec<String>, bool),
    Verbatim { ticks: usize, info: String, body: Vec<String>, closed: bool },
    Scrut(Block),
}

#[derive(Clone, Debug)]
pub struct Block {
    pub ticks: usize,
    /// text between `scrut` and `{`
    pub gap: String,
    pub config: Option<String>,
    pub comments: Vec<String>,
    /// command lines without `$ ` / `> `; empty = a block without a command
    pub cmd: Vec<String>,
    /// lines after the command, in order; an exit code is `[n]`
    pub after: Vec<String>,
    pub closed: bool,
}

const PROSE: &[&str] = &["- item", "> quote", "1. one", "``inline`` code", "`x` is code", "*emph* text", "#hashtag", "    - indented", "``", "`", "~~~", "--- ", "[link](x)", "$ not a test", "| a | b |", "“quoted”", "`` ` ``",
    // prose that starts with an inline code span of three or more backticks (CommonMark: the info string of a backtick
    // fence holds no backtick, so these are no fence lines)
    "```` ``` ```` is how", "```a`b", "``` `x` ```", "````` ```` `", "```` ``` ```` {x}"];
/// the lines of `PROSE` that start with an inline code span of three or more backticks
/// (a backtick in front of the first `{`: a brace BEHIND the backtick does not make the line a fence line; a backtick
/// behind the first `{` belongs to the inline configuration of a fence line, see `CONFIGS`)
const SPANS: &[&str] = &["```` ``` ```` is how", "```a`b", "``` `x` ```", "````` ```` `", "```` ``` ```` x", "```scrut `", "```` ``` ```` {x}", "```scrut ` {timeout: 1s}", "``` ``` ```"];
const PARA: &[&str] = &["A paragraph", "another line of text", "Привет мир", "日本語のテキスト", "  indented paragraph  ", "Éclair", "x", "scrut"];
const HEAD: &[&str] = &["Title", "A longer title", "Заголовок", "`code` title", "# nested"];
const INFO: &[&str] = &["python", "sh", "bash {x: 1}", "пример", "пример {x}", "text with spaces", "scrut2", "Scrut", "{scrut}", "json", "sh {a: `b`}"];
const CONFIGS: &[&str] = &["timeout: 1s", "timeout: 2s", "keep_crlf: true", "output_stream: stderr", "timeout: 3s, detached: true", "skip_document_code: 7",
    // a backtick inside the inline configuration: still a fence line (only the text in front of the first `{` is looked at)
    "environment: {K: \"`\"}", "environment: {T: '```'}, timeout: 1s"];
const GAPS: &[&str] = &[" ", "", "  ", "\t"];
const COMMENTS: &[&str] = &["# a comment", "#", "## two", "#$ echo no"];
const CMDS: &[&str] = &["echo hello", "true", "false", "echo 'a b'  ", "cat <<EOF", "echo привет", "x=1; echo $x", "echo '```'"];
const MORE: &[&str] = &["second line", "EOF", " && echo more", ""];
const AFTER: &[&str] = &["hello", "out (glob)", "a* (glob+)", "b.*c (regex)", "", "  leading", "[x]", "[99999999999] (equal)", "[2147483648] ", "[-1]", "[+7]", "[ 1]", "$ not a command", "> not a continuation", "# not a comment", "привет", "(no-eol)", "``", "text \\", "- - -"];
const BODY: &[&str] = &["print('x')", "$ fake command", "", "```scrut", "```", "# not a title", "---", "[1]", "`` two", "``` three"];

fn gen_block(rng: &mut Rng, with_cmd: bool) -> Block {
    let ticks = if rng.chance(1, 4) { rng.range(4, 5) } else { 3 };
    let config = if rng.chance(1, 3) { Some(rng.pick(CONFIGS).to_string()) } else { None };
    // white space after the language is ignored, with or without configuration
    let gap = if config.is_some() || rng.chance(1, 4) { rng.pick(GAPS).to_string() } else { String::new() };
    let comments = (0..if rng.chance(1, 3) { rng.range(1, 2) } else { 0 }).map(|_| rng.pick(COMMENTS).to_string()).collect();
    let mut cmd = vec![];
    let mut after = vec![];
    if with_cmd {
        cmd.push(rng.pick(CMDS).to_string());
        for _ in 0..(if rng.chance(1, 3) { rng.range(1, 2) } else { 0 }) {
            cmd.push(rng.pick(MORE).to_string());
        }
        let fence = "`".repeat(ticks);
        for _ in 0..rng.range(0, 3) {
            let l = rng.pick(AFTER).to_string();
            if !l.starts_with(&fence) {
                after.push(l);
            }
        }
        if rng.chance(1, 2) {
            let code = *rng.pick(&["[0]", "[1]", "[255]", "[007]", "[2147483647]", "[0002147483647]"]);
            let at = rng.range(0, after.len());
            after.insert(at, code.to_string());
        }
        // directly after the command a `> ` line would continue it
        while after.first().map(|l| l.starts_with("> ")).unwrap_or(false) {
            after.remove(0);
        }
    } else if rng.chance(1, 2) {
        // a block that holds only an exit code: no test; see the finding C06:state-leak
        after.push("[1]".to_string());
    }
    Block { ticks, gap, config, comments, cmd, after, closed: true }
}

pub fn gen_doc(rng: &mut Rng, leak_free: bool) -> Vec<Item> {
    let n = rng.range(1, 8);
    let mut items = vec![];
    if rng.chance(1, 5) {
        let fm: Vec<String> = match rng.below(5) {
            0 => vec![],
            1 => vec!["total_timeout: 5m".into()],
            2 => vec!["defaults:".into(), "  timeout: 9s".into()],
            3 => vec!["defaults:".into(), "  environment:".into(), "    MSG: |".into(), "      hello".into()],
            _ => vec!["defaults: {keep_crlf: false}".into(), "".into(), "shell: /bin/sh".into()],
        };
        if rng.chance(1, 3) {
            items.push(Item::Blank);
        }
        items.push(Item::FrontMatter(fm, true));
    }
    for _ in 0..n {
        let it = match rng.below(12) {
            0 | 1 => Item::Blank,
            2 => Item::Prose(rng.pick(PROSE).to_string()),
            3 => Item::Para(rng.pick(PARA).to_string()),
            4 => Item::Heading(rng.range(1, 3), rng.pick(HEAD).to_string()),
            5 | 6 => {
                let ticks = if rng.chance(1, 3) { rng.range(4, 6) } else { 3 };
                let fence = "`".repeat(ticks);
                let body = (0..rng.range(0, 4)).map(|_| rng.pick(BODY).to_string()).filter(|l| !l.starts_with(&fence)).collect();
                Item::Verbatim { ticks, info: rng.pick(INFO).to_string(), body, closed: true }
            }
            7 => {
                let with_cmd = rng.chance(3, 4);
                Item::Scrut(gen_block(rng, with_cmd))
            }
            _ => Item::Scrut(gen_block(rng, true)),
        };
        // `---` as prose is inert only once content has started; keep it out of the prefix
        items.push(it);
    }
    if leak_free {
        for it in items.iter_mut() {
            if let Item::Scrut(b) = it {
                if b.cmd.is_empty() {
                    b.after.clear();
                }
            }
        }
    }
    items
}

const FRONT: &[&[&str]] = &[&[], &["total_timeout: 5m"], &["defaults:", "  timeout: 9s"], &["defaults: {keep_crlf: false}", "", "shell: /bin/sh"],
    // a block scalar as the last entry: its value ends in a line break
    &["defaults:", "  environment:", "    MSG: |", "      hello"], &["shell: |", "  /bin/sh"]];

/// A document of the grammar of `C06_wellformed_tail`: complete well-formed items followed by one
/// unterminated construct. kind 0: front-matter without closing `---` (only front-matter while no
/// content has started: blank lines and one closed front-matter may precede it), 1: foreign block,
/// 2: scrut block without command, 3: scrut block with a command - each without closing fence.
pub fn gen_tail_doc(rng: &mut Rng, kind: u64) -> Vec<Item> {
    let mut items;
    if kind == 0 {
        items = vec![];
        for _ in 0..rng.range(0, 2) {
            items.push(Item::Blank);
        }
        if rng.chance(1, 3) {
            items.push(Item::FrontMatter(rng.pick(FRONT).iter().map(|l| l.to_string()).collect(), true));
            for _ in 0..rng.range(0, 1) {
                items.push(Item::Blank);
            }
        }
        let mut fm: Vec<String> = rng.pick(FRONT).iter().map(|l| l.to_string()).collect();
        if rng.chance(1, 8) {
            // not a document configuration: the expected result is the error
            fm.push("defaults: [".into());
        }
        if rng.chance(1, 6) {
            // the document ends in blank lines
            fm.push(String::new());
        }
        items.push(Item::FrontMatter(fm, false));
        return items;
    }
    items = if rng.chance(1, 6) { vec![] } else { gen_doc(rng, true) };
    match kind {
        1 => {
            let ticks = if rng.chance(1, 3) { rng.range(4, 6) } else { 3 };
            let fence = "`".repeat(ticks);
            let body = (0..rng.range(0, 4)).map(|_| rng.pick(BODY).to_string()).filter(|l| !l.starts_with(&fence)).collect();
            items.push(Item::Verbatim { ticks, info: rng.pick(INFO).to_string(), body, closed: false });
        }
        2 => {
            let mut b = gen_block(rng, false);
            b.after.clear();
            b.closed = false;
            items.push(Item::Scrut(b));
        }
        _ => {
            let mut b = gen_block(rng, true);
            b.closed = false;
            items.push(Item::Scrut(b));
        }
    }
    items
}

/// which construct the document leaves open at its end
fn tail_kind(items: &[Item]) -> &'static str {
    match items.last() {
        Some(Item::FrontMatter(_, false)) => "open-front-matter",
        Some(Item::Verbatim { closed: false, .. }) => "open-foreign",
        Some(Item::Scrut(b)) if !b.closed => if b.cmd.is_empty() { "open-scrut-no-command" } else { "open-scrut-command" },
        _ => "none",
    }
}

pub fn render_items(items: &[Item]) -> Vec<String> {
    let mut out = vec![];
    for it in items {
        match it {
            Item::Blank => out.push(String::new()),
            Item::Prose(s) | Item::Para(s) => out.push(s.clone()),
            Item::Heading(n, s) => out.push(format!("{} {}", "#".repeat(*n), s)),
            Item::FrontMatter(ls, closed) => {
                out.push("---".into());
                out.extend(ls.iter().cloned());
                if *closed {
                    out.push("---".into());
                }
            }
            Item::Verbatim { ticks, info, body, closed } => {
                out.push(format!("{}{}", "`".repeat(*ticks), info));
                out.extend(body.iter().cloned());
                if *closed {
                    // a closing fence may be longer than the opening one (CommonMark); vary deterministically
                    out.push("`".repeat(*ticks + body.len() % 2));
                }
            }
            Item::Scrut(b) => {
                let cfg = b.config.as_ref().map(|c| format!("{}{{{}}}", b.gap, c)).unwrap_or_else(|| b.gap.clone());
                out.push(format!("{}scrut{}", "`".repeat(b.ticks), cfg));
                out.extend(b.comments.iter().cloned());
                for (i, c) in b.cmd.iter().enumerate() {
                    out.push(format!("{}{}", if i == 0 { "$ " } else { "> " }, c));
                }
                out.extend(b.after.iter().cloned());
                if b.closed {
                    out.push("`".repeat(b.ticks + ((b.after.len() + b.cmd.len()) % 3 == 2) as usize));
                }
            }
        }
    }
    out
}

/// the expected tests, written down from the documentation of the format (not from the parser):
/// one test per scrut block that has a command; title = the run of heading/paragraph lines that
/// directly precedes … since the last test (as the code defines it: the title is consumed by the
/// test that uses it)
pub fn expected(items: &[Item], doc: &DocumentConfig) -> Vec<RTest> {
    let mut tests = vec![];
    let mut line = 0usize; // lines rendered so far
    let mut run: Vec<String> = vec![];
    let mut title: Option<String> = None;
    for it in items {
        match it {
            Item::Blank | Item::Prose(_) => {
                run.clear();
                line += 1;
            }
            Item::Para(s) => {
                run.push(s.trim().to_string());
                title = Some(run.join("\n"));
                line += 1;
            }
            Item::Heading(_, s) => {
                run.push(s.trim().to_string());
                title = Some(run.join("\n"));
                line += 1;
            }
            Item::FrontMatter(ls, closed) => line += 1 + ls.len() + *closed as usize,
            Item::Verbatim { body, closed, .. } => line += 1 + body.len() + *closed as usize,
            Item::Scrut(b) => {
                let start = line;
                line += 1 + b.comments.len() + b.cmd.len() + b.after.len() + b.closed as usize;
                run.clear();
                if b.cmd.is_empty() {
                    continue;
                }
                let mut code = None;
                let mut exps = vec![];
                for a in &b.after {
                    let c = a.strip_prefix('[').and_then(|r| r.strip_suffix(']')).filter(|d| !d.is_empty() && d.bytes().all(|b| b.is_ascii_digit())).and_then(|d| d.parse::<i32>().ok());
                    match c {
                        Some(c) => code = Some(c as i64), // the generator emits at most one
                        None => exps.push(a.clone()),
                    }
                }
                tests.push(RTest {
                    title: title.take().unwrap_or_default(),
                    cmd: b.cmd.join("\n"),
                    exps,
                    code,
                    line: start + 1 + b.comments.len() + 1,
                    cfg: test_cfg_value(b.config.as_deref(), doc),
                });
            }
        }
    }
    tests
}

/// None: a front-matter text is not a document configuration (an error is the expected result).
/// Several front-matters (only possible while no content has started, e.g. a closed one followed by
/// an unterminated one) override each other in order.
fn expected_doc(items: &[Item]) -> Option<DocumentConfig> {
    let mut doc = DocumentConfig::default_markdown();
    for it in items {
        if let Item::FrontMatter(ls, _) = it {
            let text = ls.join("\n");
            let parsed = guarded(|| serde_yaml::from_str::<DocumentConfig>(&fm_yaml(&text)).ok()).unwrap_or(None)?;
            doc = doc.with_overrides_from(&parsed);
        }
    }
    Some(doc)
}

fn compare(class: &str, what: &str, items: &[Item], real: &Real) -> Vec<(String, String)> {
    let doc = match expected_doc(items) {
        Some(d) => d,
        None => {
            return match real {
                Real::Err(m) if err_class(m) == "err doc-config" => vec![],
                Real::Crash(_) => vec![],
                _ => vec![(class.to_string(), format!("{what}: front-matter that is no configuration was not rejected"))],
            }
        }
    };
    let want = expected(items, &doc);
    match real {
        Real::Crash(_) => vec![], // reported by `structural`
        Real::Err(m) => vec![(class.to_string(), format!("{what}: parser failed ({}) on a well-formed document with {} tests", err_class(m), want.len()))],
        Real::Ok(d, got) => {
            let mut f = vec![];
            if doc_value(d) != doc_value(&doc) {
                f.push((class.to_string(), format!("{what}: document configuration differs")));
            }
            if got.len() != want.len() {
                f.push((class.to_string(), format!("{what}: {} tests reported, {} written (lines of the `$`: got {:?}, written {:?})", got.len(), want.len(), got.iter().map(|t| t.line).collect::<Vec<_>>(), want.iter().map(|t| t.line).collect::<Vec<_>>())));
            } else {
                for (g, w) in got.iter().zip(want.iter()) {
                    if g != w {
                        let field = if g.line != w.line { "line number" } else if g.cmd != w.cmd { "shell expression" } else if g.exps != w.exps { "expectations" } else if g.code != w.code { "exit code" } else if g.title != w.title { "title" } else { "configuration" };
                        let sh = |t: &RTest| format!("title={:?} cmd={:?} exps={:?} code={:?} line={}", t.title, t.cmd, t.exps, t.code, t.line);
                        f.push((class.to_string(), format!("{what}: {field} of the test at line {} differs: got {} written {}", w.line, sh(g), sh(w))));
                        break;
                    }
                }
            }
            f
        }
    }
}

fn join_doc(lines: &[String], crlf: bool, final_nl: bool) -> String {
    let sep = if crlf { "\r\n" } else { "\n" };
    let mut s = lines.join(sep);
    // a last empty line exists only if it is terminated
    if (final_nl || lines.last().map(|l| l.is_empty()).unwrap_or(false)) && !lines.is_empty() {
        s.push_str(sep);
    }
    s
}

/// `items` cut after `k` rendered lines: complete items, plus the cut construct left open
fn cut_items(items: &[Item], k: usize) -> Vec<Item> {
    let mut out = vec![];
    let mut left = k;
    for it in items {
        let n = render_items(std::slice::from_ref(it)).len();
        if left >= n {
            out.push(it.clone());
            left -= n;
            continue;
        }
        if left == 0 {
            break;
        }
        // cut inside `it` (only multi-line items get here)
        match it {
            Item::FrontMatter(ls, _) => out.push(Item::FrontMatter(ls[..left - 1].to_vec(), false)),
            Item::Verbatim { ticks, info, body, .. } => out.push(Item::Verbatim { ticks: *ticks, info: info.clone(), body: body[..left - 1].to_vec(), closed: false }),
            Item::Scrut(b) => {
                let mut r = left - 1;
                let mut nb = Block { ticks: b.ticks, gap: b.gap.clone(), config: b.config.clone(), comments: vec![], cmd: vec![], after: vec![], closed: false };
                let t = r.min(b.comments.len());
                nb.comments = b.comments[..t].to_vec();
                r -= t;
                let t = r.min(b.cmd.len());
                nb.cmd = b.cmd[..t].to_vec();
                r -= t;
                let t = r.min(b.after.len());
                nb.after = b.after[..t].to_vec();
                out.push(Item::Scrut(nb));
            }
            _ => {}
        }
        break;
    }
    out
}

// ---------------------------------------------------------------------------------------------
// witnesses of readings of the property that the code does not implement
// ---------------------------------------------------------------------------------------------

/// (class, document, what the property demands, check on the real result -> violated?)
fn witnesses() -> Vec<(&'static str, &'static str, &'static str, fn(&Real) -> bool)> {
    fn has_tests(r: &Real) -> bool {
        matches!(r, Real::Ok(_, ts) if !ts.is_empty())
    }
    fn no_tests_ok(r: &Real) -> bool {
        matches!(r, Real::Ok(_, ts) if ts.is_empty())
    }
    fn leaked_code(r: &Real) -> bool {
        matches!(r, Real::Ok(_, ts) if ts.iter().any(|t| t.code.is_some()))
    }
    vec![
        (
            "C06:state-leak",
            "```scrut\n[1]\n```\n\n```scrut\n$ true\n```\n",
            "the second block writes no exit code; a block that has no `$` line must not hand its `[1]` to the next test",
            leaked_code,
        ),
        (
            "C06:bare-long-fence",
            "````\n```scrut\n$ false\n```\n````\n",
            "a fence of four backticks without info string is a code block (an error like the bare ``` or no test), its content is not a test",
            has_tests,
        ),
        (
            "C06:info-string-whitespace",
            "``` scrut\n$ false\n```\n",
            "the info string of this block is `scrut`: one test (or an error), not a silently skipped block",
            no_tests_ok,
        ),
        (
            "C06:info-string-whitespace",
            "```scrut \n$ false\n```\n",
            "the info string of this block is `scrut` (trailing blank): one test (or an error), not a silently skipped block",
            no_tests_ok,
        ),
        (
            "C06:expectation-before-command",
            "```scrut\nout\n$ echo out\n```\n",
            "an expectation line written before the `$` line has no command: an error, not an expectation of the command that follows it (repaired by 67abd12)",
            |r| matches!(r, Real::Ok(_, ts) if ts.len() == 1 && !ts[0].exps.is_empty()),
        ),
        (
            "C06:inline-code-span-hides-tests",
            "```` ``` ```` is how three backticks are written inline.\n\n```scrut\n$ true\n```\n",
            "the first line is prose (an inline code span; the info string of a fence holds no backtick): the block behind it is one test, not the body of a code block that is never closed",
            no_tests_ok,
        ),
        (
            "C06:backtick-in-config-not-a-fence",
            "```scrut {environment: {K: \"`\"}}\n$ true\n```\n",
            "a backtick inside the inline configuration does not make the fence line prose: the block is one test (or the configuration is rejected), not silently skipped or reported as a block without language",
            |r| !matches!(r, Real::Ok(_, ts) if ts.len() == 1),
        ),
        (
            "C06:exit-code-out-of-range-becomes-expectation",
            "```scrut\n$ true\n[2147483648]\n```\n",
            "a line `[digits]` is the expected exit code; a number that does not fit is an error, not silently the output expectation `[2147483648]` of a test without exit code",
            |r| matches!(r, Real::Ok(_, ts) if ts.iter().any(|t| t.exps.iter().any(|e| exit_code_form(e)))),
        ),
        (
            "C06:exit-code-out-of-range-becomes-expectation",
            "```scrut\n$ true\nout\n[99999999999]\n```\n",
            "a line `[digits]` is the expected exit code; a number that does not fit is an error, not silently an output expectation",
            |r| matches!(r, Real::Ok(_, ts) if ts.iter().any(|t| t.exps.iter().any(|e| exit_code_form(e)))),
        ),
        (
            "C06:config-dropped",
            "```scrut {timeout: 1s} \n$ true\n```\n",
            "the inline configuration followed by a blank must be applied or rejected, not silently ignored",
            |r| matches!(r, Real::Ok(d, ts) if ts.len() == 1 && ts[0].cfg == test_cfg_value(None, d)),
        ),
    ]
}

/// lines behind `$ cmd` of an open scrut block: exit code lines at the edge of i32 among the other kinds of body lines
const EXIT_LINES: &[&str] = &["> more", "out", "[1]", "[2147483647]", "[2147483648]", "[99999999999]", "[0002147483647]", "[0002147483648]", "```", "$ cmd"];
const ALPHABET: &[&str] = &["", "text", "# h", "---", "```", "```scrut", "```scrut {timeout: 1s}", "````scrut", "```python", "``x``", "``` `x` ```", "$ cmd", "> more", "out", "[1]", "# c"];

/// The binary reads Markdown documents through `FileParser` (src/bin/utils/file_parser.rs), with or without
/// `--cram-compat`: in both modes a scrut block is ONE test, lines behind the command that start with `$ ` or `> `
/// (after output) are expectations, prose never creates tests. Every test carries an expectation that cannot match,
/// so that `-r json` shows how each test case was read (shell expression, expectations, title).
fn e2e_file_parser_case(prop: &str, idx: u64) -> CaseRec {
    let compat = idx % 2 == 1;
    let shape = (idx / 2) % 4;
    let root = std::env::temp_dir().join(format!("scrut-verif-md-e2e-{}-{idx}", std::process::id()));
    let _ = std::fs::remove_dir_all(&root);
    std::fs::create_dir_all(root.join("tmp")).unwrap();
    // (title, command lines, expectation lines) per block, as written
    let blocks: Vec<(&str, Vec<&str>, Vec<&str>)> = match shape {
        0 => vec![("transcript", vec!["echo session"], vec!["$ looks like a command", "never-matches"]), ("second", vec!["echo two"], vec!["never-matches"])],
        1 => vec![("continued", vec!["echo a \\", "  b"], vec!["a b", "> quoted mail", "$ prompt", "never-matches"])],
        2 => vec![("first", vec!["echo one"], vec!["never-matches", "$ trailing prompt"]), ("mid", vec!["echo mid"], vec!["$ x", "$ y", "never-matches"]), ("last", vec!["echo last"], vec!["never-matches"])],
        _ => vec![("plain", vec!["echo plain"], vec!["never-matches"])],
    };
    let mut doc = String::from("Some prose with a $ dollar and\n$ a line that starts like a command\n\n");
    for (title, cmd, exps) in &blocks {
        doc.push_str(&format!("# {title}\n\n```scrut\n$ {}\n", cmd[0]));
        for c in &cmd[1..] {
            doc.push_str(&format!("> {c}\n"));
        }
        for e in exps {
            doc.push_str(e);
            doc.push('\n');
        }
        doc.push_str("```\n\n$ prose again\n\n");
    }
    std::fs::write(root.join("doc.md"), &doc).unwrap();
    let mut cmd = std::process::Command::new(std::env::var("SCRUT_BIN").unwrap_or("/verif/.build/repo-target/debug/scrut".into()));
    cmd.arg("test").arg("-r").arg("json");
    if compat {
        cmd.arg("--cram-compat");
    }
    let out = cmd.arg("doc.md").current_dir(&root).env("TMPDIR", root.join("tmp")).env("NO_COLOR", "1").output().expect("run scrut");
    let stdout = String::from_utf8_lossy(&out.stdout).to_string();
    let json: Option<serde_json::Value> = stdout.find('[').and_then(|p| serde_json::from_str(&stdout[p..]).ok());
    let mut got: Vec<(String, String, Vec<String>)> = vec![];
    if let Some(serde_json::Value::Array(items)) = &json {
        for it in items {
            let tc = it.get("testcase").cloned().unwrap_or_default();
            got.push((
                tc.get("title").and_then(|t| t.as_str()).unwrap_or("").to_string(),
                tc.get("shell_expression").and_then(|t| t.as_str()).unwrap_or("").to_string(),
                tc.get("expectations").and_then(|e| e.as_array()).map(|a| a.iter().map(|x| x.as_str().unwrap_or("?").to_string()).collect()).unwrap_or_default(),
            ));
        }
    }
    let want: Vec<(String, String, Vec<String>)> = blocks.iter().map(|(t, c, e)| (t.to_string(), c.join("\n"), e.iter().map(|x| x.to_string()).collect())).collect();
    let mut fails = vec![];
    if got != want {
        fails.push(("C06:file-parser-e2e".to_string(), format!("`scrut test{} doc.md` read {:?}, written {:?} (exit {:?}, stderr {})", if compat { " --cram-compat" } else { "" }, got, want, out.status.code(), String::from_utf8_lossy(&out.stderr).chars().take(200).collect::<String>())));
    }
    let _ = std::fs::remove_dir_all(&root);
    CaseRec { op: "noop".into(), impl_out: "ok".into(), oracle_fail: fails.into_iter().filter(|(c, _)| c.starts_with(prop)).collect(), nontrivial: true, tags: vec![format!("e2e-file-parser:cram-compat={compat}"), format!("e2e-file-parser:shape={shape}")] }
}

pub fn run(ctx: &Ctx, prop: &str) {
    let seed = ctx.seed;
    // 0. the binary's way to the parser (FileParser), with and without --cram-compat
    ctx.run_stream("e2e-file-parser-exhaustive", 8, true, |idx| Some(e2e_file_parser_case(prop, idx)));
    // 1. AST-directed documents, expected tests known by construction
    let n = if ctx.thorough { 400_000 } else { 30_000 };
    ctx.run_stream("ast-by-construction", n, false, |idx| {
        let mut rng = Rng::fork(seed, 61, idx);
        let items = gen_doc(&mut rng, true);
        let crlf = rng.chance(1, 4);
        let final_nl = rng.chance(3, 4);
        let text = join_doc(&render_items(&items), crlf, final_nl);
        let real = real_parse(&text);
        let extra = compare("C06:by-construction", "well-formed document", &items, &real);
        let mut tags = vec![format!("crlf={crlf}"), format!("items={}", items.len())];
        for it in &items {
            tags.push(format!("item={}", match it {
                Item::Blank => "blank",
                Item::Prose(_) => "prose",
                Item::Para(_) => "paragraph",
                Item::Heading(..) => "heading",
                Item::FrontMatter(..) => "front-matter",
                Item::Verbatim { ticks, .. } => if *ticks > 3 { "verbatim-long-fence" } else { "verbatim" },
                Item::Scrut(b) => if b.cmd.is_empty() { "scrut-no-command" } else if b.config.is_some() { "scrut-config" } else { "scrut" },
            }));
        }
        Some(case_with(prop, &text, real, extra, tags))
    });
    // 1b. the grammar of `C06_wellformed_tail`: well-formed items, then one unterminated construct of
    //     each kind; the expected result is known by construction (the open construct counts like a
    //     closed one, an open block with a command yields its test)
    let n = if ctx.thorough { 200_000 } else { 12_000 };
    ctx.run_stream("ast-open-tail", n, false, |idx| {
        let mut rng = Rng::fork(seed, 64, idx);
        let items = gen_tail_doc(&mut rng, idx % 4);
        let crlf = rng.chance(1, 4);
        let final_nl = rng.chance(1, 2);
        let text = join_doc(&render_items(&items), crlf, final_nl);
        let real = real_parse(&text);
        let extra = compare("C06:open-tail", "document that ends in an unterminated construct", &items, &real);
        let tags = vec![format!("tail={}", tail_kind(&items)), format!("tail-tests-expected={}", match expected_doc(&items) {
            Some(d) => expected(&items, &d).len().min(3).to_string(),
            None => "error".to_string(),
        })];
        Some(case_with(prop, &text, real, extra, tags))
    });
    // 1c. prose lines that start with an inline code span of three or more backticks, between the items of a
    //     well-formed document (behind the front-matter): they are prose - the tests around them are all there, with
    //     the titles and line numbers as written (a prose line ends the run of title lines). Until the fix "the info
    //     string of a fence holds no backtick" such a line opened a verbatim block that hid every test up to the next
    //     line starting with as many backticks, or to the end of the document.
    let n = if ctx.thorough { 200_000 } else { 12_000 };
    ctx.run_stream("inline-code-span-prose", n, false, |idx| {
        let mut rng = Rng::fork(seed, 65, idx);
        let mut items = gen_doc(&mut rng, true);
        let first = items.iter().position(|it| matches!(it, Item::FrontMatter(..))).map(|p| p + 1).unwrap_or(0);
        let k = rng.range(1, 2);
        for _ in 0..k {
            let at = rng.range(first, items.len());
            items.insert(at, Item::Prose(rng.pick(SPANS).to_string()));
        }
        let crlf = rng.chance(1, 4);
        let final_nl = rng.chance(3, 4);
        let text = join_doc(&render_items(&items), crlf, final_nl);
        let real = real_parse(&text);
        let extra = compare("C06:inline-code-span-hides-tests", "prose line that starts with an inline code span of three or more backticks", &items, &real);
        let want = expected_doc(&items).map(|d| expected(&items, &d).len()).unwrap_or(0);
        Some(case_with(prop, &text, real, extra, vec![format!("inline-span:lines={k}"), format!("inline-span:tests-written={}", want.min(4))]))
    });
    // 2. every line-prefix of generated documents: complete tests before the cut are all there,
    //    the cut construct is read to the end of the document
    let n = if ctx.thorough { 60_000 } else { 4_000 };
    ctx.run_stream("ast-prefixes", n * 12, false, |idx| {
        let mut rng = Rng::fork(seed, 62, idx / 12);
        let items = gen_doc(&mut rng, true);
        let lines = render_items(&items);
        let k = (idx % 12) as usize + 1;
        if k >= lines.len() {
            return None;
        }
        let cut = cut_items(&items, k);
        let crlf = rng.chance(1, 4);
        let text = join_doc(&lines[..k], crlf, k % 2 == 0);
        let real = real_parse(&text);
        let extra = compare("C06:silent-drop", "document cut after a line", &cut, &real);
        Some(case_with(prop, &text, real, extra, vec!["prefix".into(), format!("prefix-tail={}", tail_kind(&cut))]))
    });
    // 3. malformed: one fence line dropped / a character-level cut / leaking blocks. No expected
    //    value: correspondence + structural oracles
    let n = if ctx.thorough { 300_000 } else { 20_000 };
    ctx.run_stream("malformed-random", n, false, |idx| {
        let mut rng = Rng::fork(seed, 63, idx);
        let items = gen_doc(&mut rng, false);
        let mut lines = render_items(&items);
        let kind = rng.below(4);
        match kind {
            0 => {
                let fences: Vec<usize> = (0..lines.len()).filter(|i| lines[*i].starts_with("```") || lines[*i] == "---").collect();
                if !fences.is_empty() {
                    lines.remove(*rng.pick(&fences));
                }
            }
            1 => {
                let a = rng.range(0, lines.len());
                lines.insert(a, if rng.chance(1, 3) { rng.pick(EXIT_LINES).to_string() } else { rng.pick(ALPHABET).to_string() });
            }
            _ => {}
        }
        let mut text = join_doc(&lines, rng.chance(1, 3), rng.chance(1, 2));
        if kind == 2 && !text.is_empty() {
            // cut at a character boundary anywhere (also between \r and \n)
            let mut at = rng.range(0, text.len());
            while !text.is_char_boundary(at) {
                at -= 1;
            }
            text.truncate(at);
        }
        Some(case_of(prop, &text, vec![], vec![format!("malformed-kind={kind}")]))
    });
    // 4. exhaustive: all documents over the line alphabet
    let maxlen = if ctx.thorough { 6 } else { 5 };
    let a = ALPHABET.len() as u64;
    let mut total = 0u64;
    let mut offsets = vec![];
    for len in 0..=maxlen {
        offsets.push(total);
        total += a.pow(len);
    }
    ctx.run_stream("alphabet-exhaustive", total, true, |idx| {
        let len = (0..offsets.len()).rev().find(|l| offsets[*l] <= idx).unwrap();
        let mut r = idx - offsets[len];
        let mut lines = vec![];
        for _ in 0..len {
            lines.push(ALPHABET[(r % a) as usize].to_string());
            r /= a;
        }
        let text = join_doc(&lines, false, true);
        Some(case_of(prop, &text, vec![], vec![]))
    });
    // 4b. exit code lines at the edge of i32: an open scrut block with a command, then every sequence of body lines
    let maxe = if ctx.thorough { 5 } else { 4 };
    let e = EXIT_LINES.len() as u64;
    let mut total = 0u64;
    let mut eoffs = vec![];
    for len in 0..=maxe {
        eoffs.push(total);
        total += e.pow(len);
    }
    ctx.note(format!("exhaustive: \"```scrut\" \"$ cmd\" followed by every sequence of at most {maxe} lines of {:?}", EXIT_LINES));
    ctx.run_stream("exit-code-range-exhaustive", total, true, |idx| {
        let len = (0..eoffs.len()).rev().find(|l| eoffs[*l] <= idx).unwrap();
        let mut r = idx - eoffs[len];
        let mut lines = vec!["```scrut".to_string(), "$ cmd".to_string()];
        for _ in 0..len {
            lines.push(EXIT_LINES[(r % e) as usize].to_string());
            r /= e;
        }
        let text = join_doc(&lines, false, true);
        Some(case_of(prop, &text, vec![], vec!["exit-code-range".into()]))
    });
    // 5. character-level exhaustive for the line splitter and the fence recogniser: one fence line
    //    over a character alphabet, followed by a fixed test body
    let chars: Vec<&str> = vec!["`", "s", "{", "}", " ", "é", "\r"];
    let c = chars.len() as u64;
    let maxc = if ctx.thorough { 7 } else { 6 };
    let mut total = 0u64;
    let mut offs = vec![];
    for len in 0..=maxc {
        offs.push(total);
        total += c.pow(len);
    }
    ctx.run_stream("fence-line-exhaustive", total, true, |idx| {
        let len = (0..offs.len()).rev().find(|l| offs[*l] <= idx).unwrap();
        let mut r = idx - offs[len];
        let mut fence = String::from("```");
        if idx % 3 == 1 {
            fence = String::from("``");
        }
        for _ in 0..len {
            fence.push_str(chars[(r % c) as usize]);
            r /= c;
        }
        let text = format!("{}\n$ cmd\nout\n```\n# T\n```scrut\n$ two\n```", fence.replace('s', "scrut"));
        Some(case_of(prop, &text, vec![], vec!["fence-line".into()]))
    });
    // 6. witnesses of the stricter readings
    let w = witnesses();
    ctx.run_stream("reading-witnesses", w.len() as u64, true, |idx| {
        let (class, doc, demand, violated) = &w[idx as usize];
        let real = real_parse(doc);
        let extra = if violated(&real) { vec![(class.to_string(), format!("{demand}; got {}", impl_out(&real)))] } else { vec![] };
        Some(case_with(prop, doc, real, extra, vec!["witness".into()]))
    });
}

pub fn replay(prop: &str, op: &str) -> bool {
    let parts: Vec<&str> = op.split(' ').collect();
    if parts.len() < 2 || parts[0] != "md" {
        eprintln!("cannot replay {op}");
        return false;
    }
    let text = String::from_utf8_lossy(&unhex(parts[1])).to_string();
    let real = real_parse(&text);
    println!("document:\n{}", text);
    println!("real parser: {}", impl_out(&real));
    let mut fails = structural(&text, &real);
    for (class, doc, demand, violated) in witnesses() {
        if doc == text && violated(&real) {
            fails.push((class.to_string(), demand.to_string()));
        }
    }
    let fails = keep(prop, fails);
    for (c, d) in &fails {
        println!("FAIL [{c}] {d}");
    }
    fails.is_empty()
}
