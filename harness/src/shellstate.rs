//! C12: shell state carried between test cases (each in its own bash process, state passed
//! through the state file written by the EXIT trap of bash_runner.template) behaves like one
//! bash session. PARTIAL: the theorem is a simulation argument parametric in the shell semantics;
//! the transparency of the carrier is SAMPLED here with real bash: generated histories are run
//! (a) through the real StatefulExecutor + BashRunner and (b) through one bash process fed the
//! same snippets, and all probe outputs are compared. A small executable model of the variable
//! carrier (bindings recorded, unsets not recorded, read-only and excluded names filtered) is
//! compared with (a) as the correspondence stream.
use crate::common::*;
use scrut::config::{DocumentConfig, TestCaseConfig};
use scrut::executors::bash_runner::BashRunner;
use scrut::executors::context::Context;
use scrut::executors::executor::Executor;
use scrut::executors::stateful_executor::StatefulExecutor;
use scrut::output::ExitStatus;
use scrut::testcase::TestCase;
use std::path::{Path, PathBuf};

fn keep(prop: &str, fails: Vec<(String, String)>) -> Vec<(String, String)> {
    fails.into_iter().filter(|(c, _)| c.starts_with(prop)).collect()
}

fn bash() -> PathBuf {
    for p in ["/bin/bash", "/usr/bin/bash"] {
        if Path::new(p).exists() {
            return PathBuf::from(p);
        }
    }
    PathBuf::from("bash")
}

/// one step of a history: a snippet and whether the test case is detached
#[derive(Clone, Debug)]
pub struct Step {
    pub snippet: String,
    pub detached: bool,
    /// class tag for the histogram / finding classification
    pub class: &'static str,
    /// effect on the probed variables in the model's vocabulary (names: 0 = inherited, 1 = X, 2 = Y):
    /// `a<n>:<hex>` assign, `e<n>:<hex>` export, `u<n>` unset, `r<n>:<hex>` readonly, `o` none
    pub action: String,
    /// index into `step_pool()` (for replay)
    pub idx: usize,
}

/// first line: the three probed variables, hex encoded (`S:<hex>` set, `U` unset), so that values with
/// newlines, quotes or non-ASCII text are compared exactly; further lines: the other state classes
const PROBE: &str = r#"printf 'VARS %s|%s|%s\n' "$( [ -n "${SCRUT_VERIF_INHERITED+s}" ] && { printf 'S:'; printf %s "$SCRUT_VERIF_INHERITED" | od -An -v -tx1 | tr -d ' \n'; } || printf U )" "$( [ -n "${X+s}" ] && { printf 'S:'; printf %s "$X" | od -An -v -tx1 | tr -d ' \n'; } || printf U )" "$( [ -n "${Y+s}" ] && { printf 'S:'; printf %s "$Y" | od -An -v -tx1 | tr -d ' \n'; } || printf U )"; declare -p ARR 2>/dev/null || echo "ARR unset"; declare -p MAP 2>/dev/null || echo "MAP unset"; if declare -F f >/dev/null; then f; else echo "f undefined"; fi; if declare -F g >/dev/null; then g 42; else echo "g undefined"; fi; if declare -F h >/dev/null; then h 2>/dev/null || echo "h failed"; else echo "h undefined"; fi; echo "code=${code-unset} OLDPWD=${OLDPWD-unset}"; alias ll 2>/dev/null || echo "ll unaliased"; shopt -p extglob; set -o | grep -E '^(pipefail|nounset|noglob) '; pwd; dirs; export -p | grep -cE ' (X|Y)='; declare -p | grep -E '^declare -[-a-zA-Z]* (NB_[A-Za-z0-9_]*|[A-Za-z0-9_]*_NB)=' | sort"#;

fn step_pool() -> Vec<Step> {
    let mut v = step_pool_raw();
    for (i, s) in v.iter_mut().enumerate() {
        s.idx = i;
    }
    v
}

fn step_pool_raw() -> Vec<Step> {
    let s = |snippet: &str, class: &'static str| {
        let hv = |v: &str| hex(v.as_bytes());
        let action = match snippet {
            "X=plain" => format!("a1:{}", hv("plain")),
            "X='with space and \"quotes\" and $dollar'" => format!("a1:{}", hv("with space and \"quotes\" and $dollar")),
            "X=$'line1\\nline2'" => format!("a1:{}", hv("line1\nline2")),
            "X='ünïcödé ✓'" => format!("a1:{}", hv("ünïcödé ✓")),
            "export Y=exported" => format!("e2:{}", hv("exported")),
            "Y=modified" => format!("a2:{}", hv("modified")),
            "unset X" => "u1".to_string(),
            "unset Y" => "u2".to_string(),
            "unset SCRUT_VERIF_INHERITED" => "u0".to_string(),
            "SCRUT_VERIF_INHERITED=changed" => format!("a0:{}", hv("changed")),
            "readonly X=frozen" => format!("r1:{}", hv("frozen")),
            x if x.starts_with("X=before-cleanup;") => format!("a1:{}", hv("before-cleanup")),
            x if x.starts_with("Y=recreated;") => format!("a2:{}", hv("recreated")),
            _ => "o".to_string(),
        };
        Step { snippet: snippet.to_string(), detached: false, class, action, idx: 0 }
    };
    vec![
        s("X=plain", "shellvar"),
        s("X='with space and \"quotes\" and $dollar'", "shellvar-quoting"),
        s("X=$'line1\\nline2'", "shellvar-newline"),
        s("X='ünïcödé ✓'", "shellvar-nonascii"),
        s("export Y=exported", "exported"),
        s("Y=modified", "exported-modify"),
        s("unset X", "unset-own"),
        s("unset Y", "unset-own"),
        s("unset SCRUT_VERIF_INHERITED", "unset-inherited"),
        s("SCRUT_VERIF_INHERITED=changed", "modify-inherited"),
        s("ARR=(one 'two words' three)", "array"),
        s("ARR+=(four)", "array-modify"),
        s("declare -A MAP=([k1]=v1 ['k 2']='v 2')", "assoc"),
        s("unset ARR", "unset-own"),
        s("function f { echo \"f says ${X-none}\"; }", "function"),
        s("function f { local a=1; function g { echo inner; }; g; echo outer; }", "function-nested"),
        s("unset -f f", "function-unset"),
        // a test case that tidies up its temporary directory, hidden entries included (scrut keeps the state file
        // in a hidden directory below $TMPDIR): the state must still be carried
        s("X=before-cleanup; find \"$TMPDIR\" -mindepth 1 -delete 2>/dev/null; true", "tmpdir-emptied"),
        s("Y=recreated; rm -rf \"$TMPDIR\" && mkdir \"$TMPDIR\"", "tmpdir-recreated"),
        // a function whose body needs `extglob` to be PARSED: the carrier must restore the option before the function
        s("shopt -s extglob\nfunction g { case \"$1\" in +([0-9])) echo num;; *) echo other;; esac; }", "function-extglob"),
        // a function that calls a word which is (or becomes) an alias: in one session the body is fixed when it is defined
        s("function h { ll; }", "function-calls-alias-word"),
        // an alias with the name of a function: reading the function back must not expand it
        s("alias f='echo alias-f'", "alias-function-name"),
        // the names scrut's own hook uses must stay the user's
        s("code=mine", "hook-local-name"),
        s("cd - >/dev/null 2>&1 || true", "oldpwd"),
        s("set -a", "set-o-allexport"),
        s("set +a", "set-o-allexport"),
        // the user's own EXIT trap replaces the hook that persists the state (open finding)
        s("trap 'echo bye' EXIT", "user-exit-trap"),
        // aliases and functions with the names of the commands the state file itself uses: reading the state back must
        // not run them
        s("alias cd='cd -P'; alias pushd='true'", "alias-of-state-file-command"),
        s("function cd { builtin cd \"$@\" && echo \"now in ${PWD##*/}\"; }", "function-of-state-file-command"),
        s("alias ll='echo aliased'", "alias"),
        s("unalias ll 2>/dev/null || true", "alias-unset"),
        s("shopt -s extglob", "shopt"),
        s("shopt -u extglob", "shopt"),
        s("set -o pipefail", "set-o"),
        s("set -u", "set-o"),
        s("set +u", "set-o"),
        s("set -f", "set-o"),
        s("mkdir -p sub/deep && cd sub", "cwd"),
        s("cd /", "cwd"),
        s("mkdir -p d1 d2 && pushd d1 >/dev/null && pushd ../d2 >/dev/null", "dirstack"),
        s("popd >/dev/null 2>&1 || true", "dirstack"),
        s("readonly X=frozen", "readonly"),
        // names that merely start or end like a name on scrut's exclusion list must be carried like any other
        s(&format!("for n in {}; do declare -g \"${{n}}_NB=nb-$n\"; done", scrut::executors::bash_runner::BASH_EXCLUDED_VARIABLES.iter().filter(|n| !n.starts_with("__")).cloned().collect::<Vec<_>>().join(" ")), "excluded-name-prefix-neighbours"),
        s(&format!("for n in {}; do export \"NB_${{n}}=nb-$n\"; done", scrut::executors::bash_runner::BASH_EXCLUDED_VARIABLES.iter().filter(|n| !n.starts_with("__")).cloned().collect::<Vec<_>>().join(" ")), "excluded-name-suffix-neighbours"),
        s("NB_MULTI=$'line1\\nline2'; UID_NB=$'two\\nlines'", "excluded-name-neighbours-multiline"),
        Step { snippet: "X=from-detached; cd /".to_string(), detached: true, class: "detached", action: format!("a1:{}", hex(b"from-detached")), idx: 0 },
    ]
}

/// (a) per-process: the real executor and runner
fn run_per_process(steps: &[Step], work: &Path, tmp: &Path) -> Result<Vec<String>, String> {
    let mut tcs: Vec<TestCase> = vec![];
    for (i, st) in steps.iter().enumerate() {
        // every step is followed by a probe in the SAME test case, so that intermediate state is observed too
        let expr = if st.detached { st.snippet.clone() } else { format!("{}\n{}", st.snippet, PROBE) };
        tcs.push(TestCase {
            title: format!("s{i}"),
            shell_expression: expr,
            expectations: vec![],
            exit_code: None,
            line_number: i + 1,
            // as `scrut test` does: TMPDIR of the test cases is the temporary directory that also holds the state directory
            // every other attached step spells `detached: false` out (documents copy the documented defaults): same behaviour as leaving it out
            config: TestCaseConfig { detached: if st.detached { Some(true) } else if i % 2 == 1 { Some(false) } else { None }, environment: [("TMPDIR".to_string(), tmp.to_string_lossy().to_string())].into_iter().collect(), ..TestCaseConfig::default_markdown() },
        });
    }
    // a final pure probe
    tcs.push(TestCase { title: "final".into(), shell_expression: PROBE.to_string(), expectations: vec![], exit_code: None, line_number: 99, config: TestCaseConfig { environment: [("TMPDIR".to_string(), tmp.to_string_lossy().to_string())].into_iter().collect(), ..TestCaseConfig::default_markdown() } });
    let refs: Vec<&TestCase> = tcs.iter().collect();
    let ex = StatefulExecutor::new(BashRunner::stateful_generator(&bash()));
    let ctx = Context { work_directory: work.to_path_buf(), temp_directory: tmp.to_path_buf(), file: PathBuf::from("doc.md"), config: DocumentConfig::default_markdown() };
    match guarded(|| ex.execute_all(&refs, &ctx)) {
        Err(p) => Err(format!("panic: {p}")),
        Ok(Err(e)) => Err(format!("error: {e}")),
        Ok(Ok(outs)) => Ok(outs
            .iter()
            .map(|o| match o.exit_code {
                ExitStatus::Detached => "<detached>".to_string(),
                _ => format!("{}[{}]", String::from_utf8_lossy(&(&o.stdout).to_bytes()), o.exit_code),
            })
            .collect()),
    }
}

/// (b) one bash session fed the same snippets; a detached step runs in a subshell (leaves nothing)
fn run_session(steps: &[Step], work: &Path, tmp: &Path) -> Result<Vec<String>, String> {
    let mut script = String::from("shopt -s expand_aliases\n");
    for (i, st) in steps.iter().enumerate() {
        if st.detached {
            script.push_str(&format!("( {} ) >/dev/null 2>&1\n", st.snippet));
            script.push_str(&format!("builtin echo '@@MARK {i} detached'\n"));
        } else {
            script.push_str(&format!("{}\n{}\n", st.snippet, PROBE));
            script.push_str(&format!("builtin echo \"@@MARK {i} $?\"\n"));
        }
    }
    script.push_str(&format!("{}\nbuiltin echo \"@@MARK final $?\"\n", PROBE));
    let out = std::process::Command::new(bash()).current_dir(work).env("TMPDIR", tmp).stdin(std::process::Stdio::piped()).stdout(std::process::Stdio::piped()).stderr(std::process::Stdio::null()).spawn().and_then(|mut c| {
        use std::io::Write;
        c.stdin.take().unwrap().write_all(script.as_bytes())?;
        c.wait_with_output()
    });
    let out = out.map_err(|e| e.to_string())?;
    let text = String::from_utf8_lossy(&out.stdout).to_string();
    let mut res = vec![];
    let mut cur = String::new();
    for line in text.split_inclusive('\n') {
        if let Some(rest) = line.strip_prefix("@@MARK ") {
            let code = rest.trim().split(' ').nth(1).unwrap_or("?").to_string();
            if code == "detached" {
                res.push("<detached>".to_string());
            } else {
                res.push(format!("{}[{}]", cur, code));
            }
            cur.clear();
        } else {
            cur.push_str(line);
        }
    }
    Ok(res)
}

fn history_case(prop: &str, steps: Vec<Step>, root: &Path, idx: u64) -> CaseRec {
    let dir = root.join(format!("h-{idx}"));
    let _ = std::fs::remove_dir_all(&dir);
    let (wa, wb, tmp, tmpb) = (dir.join("a/work"), dir.join("b/work"), dir.join("tmp"), dir.join("tmpb"));
    for d in [&wa, &wb, &tmp, &tmpb] {
        std::fs::create_dir_all(d).unwrap();
    }
    let a = run_per_process(&steps, &wa, &tmp);
    let b = run_session(&steps, &wb, &tmpb);
    let mut fails = vec![];
    let norm = |s: &str, w: &Path| s.replace(&w.to_string_lossy().to_string(), "<WORK>");
    let classes: Vec<&str> = steps.iter().map(|s| s.class).collect();
    match (&a, &b) {
        (Ok(a), Ok(b)) => {
            let na: Vec<String> = a.iter().map(|s| norm(s, &wa)).collect();
            let nb: Vec<String> = b.iter().map(|s| norm(s, &wb)).collect();
            // a snippet that ends the reference session itself (a syntax error: `f() {` while `f` is an alias) leaves
            // nothing to compare with from there on
            let na: Vec<String> = if nb.len() < na.len() { na[..nb.len()].to_vec() } else { na };
            if na != nb {
                let first = na.iter().zip(nb.iter()).position(|(x, y)| x != y).unwrap_or(na.len().min(nb.len()));
                // classify by the state classes used up to the first deviating step
                let upto: Vec<&str> = steps.iter().take(first + 1).map(|s| if s.snippet.contains("unset SCRUT_VERIF_INHERITED") { "unset-inherited" } else if s.snippet.contains("readonly ") { "readonly" } else if s.class == "user-exit-trap" { "user-exit-trap" } else { "other" }).collect();
                let class = if upto.contains(&"unset-inherited") {
                    "C12:unset-of-inherited-variable-not-carried"
                } else if upto.contains(&"readonly") {
                    "C12:readonly-variable-not-carried"
                } else if upto.contains(&"user-exit-trap") {
                    "C12:user-exit-trap-replaces-hook"
                } else {
                    "C12:state-differs-from-single-session"
                };
                fails.push((class.to_string(), format!("history {:?}: at step {first} per-process gives {:?}, one session gives {:?}", steps.iter().map(|s| s.snippet.as_str()).collect::<Vec<_>>(), na.get(first), nb.get(first))));
            }
        }
        (Err(e), _) => fails.push(("C12:executor-error".into(), format!("per-process execution failed: {e}"))),
        (_, Err(e)) => fails.push(("C12:harness-session-error".into(), e.clone())),
    }
    // detached leaves nothing behind: the state file must not change across a detached step (observed via the probes above)
    let _ = std::fs::remove_dir_all(&dir);
    let op_steps: Vec<String> = steps.iter().map(|s| format!("{}{}@{}", if s.detached { "D:" } else { "" }, s.action, s.idx)).collect();
    let var_view = |outs: &Result<Vec<String>, String>| -> String {
        match outs {
            Ok(v) => v.iter().map(|s| if s == "<detached>" { "D".to_string() } else { s.lines().find(|l| l.starts_with("VARS ")).map(|l| l[5..].to_string()).unwrap_or("?".into()) }).collect::<Vec<_>>().join(";"),
            Err(_) => "error".into(),
        }
    };
    CaseRec {
        op: format!("shvars {} {}", hex(b"inherited-value"), op_steps.join(",")),
        impl_out: var_view(&a),
        oracle_fail: keep(prop, fails),
        nontrivial: steps.len() >= 2,
        tags: classes.iter().map(|c| format!("class={c}")).collect(),
    }
}

/// options that change how the shell treats its own commands, switched on in one test case: the test cases after it
/// must behave as they do in one session -- in particular scrut's own persist hook has to survive the option
/// (`set -e`: a command of the hook that returns non-zero ends it before the state is written and replaces the
/// exit code of the test case; `IFS=0` / `IFS=3`: an unquoted expansion of the exit code in the hook is split by the
/// user's IFS -- `(exit 3)` under `IFS=3` must still be recorded as 3 and `echo hi` under `IFS=0` as 0).
const OPTIONS: [&str; 24] = ["set -k", "declare -l TESTFILE; declare -i COLUMNS", "SHELL=/bin/changed", "IFS=0", "IFS=3", "function exit { builtin exit 7; }", "function echo { builtin echo \"echo: $*\"; }; function printf { builtin printf 'printf\\n'; }", "unset OLDPWD; set -u", "OLDPWD=; set -u", "set -o posix", "set -a", "set -x", "set -e", "set -u", "set -o pipefail", "set -e -o pipefail", "set -eu", "set -f", "set -C", "set -E", "set -T", "shopt -s nullglob", "shopt -s failglob", "shopt -s extglob; set -e"];

fn option_case(prop: &str, idx: u64, root: &Path) -> CaseRec {
    let opt = OPTIONS[(idx as usize) % OPTIONS.len()];
    // the second half switches extglob off again after it was on (the hook lists that option separately)
    // an alias is defined before the option and used after it (`alias` prints differently in POSIX mode)
    let pre = if idx as usize >= OPTIONS.len() { "shopt -s extglob; alias ll='echo aliased'" } else { "alias ll='echo aliased'" };
    let show = "set -o | grep -E '^(errexit|nounset|pipefail|noglob|noclobber|errtrace|functrace) '; shopt -p nullglob failglob extglob || true; ll; echo \"OLDPWD=${OLDPWD-unset}\"";
    let exprs: Vec<String> = vec![pre.to_string(), format!("shopt -u extglob; {opt}"), "echo hi".into(), "X=kept".into(), format!("echo \"$X\"; {show}"), "(exit 3)".into(), "echo after".into()];
    let dir = root.join(format!("o-{idx}"));
    let _ = std::fs::remove_dir_all(&dir);
    let (wa, wb, tmp, tmpb) = (dir.join("a/work"), dir.join("b/work"), dir.join("tmp"), dir.join("tmpb"));
    for d in [&wa, &wb, &tmp, &tmpb] {
        std::fs::create_dir_all(d).unwrap();
    }
    let errexit = opt.contains("-e") && !opt.contains("OLDPWD");
    // (a) per process
    let tcs: Vec<TestCase> = exprs
        .iter()
        .enumerate()
        .map(|(i, e)| TestCase { title: format!("o{i}"), shell_expression: e.clone(), expectations: vec![], exit_code: None, line_number: i + 1, config: TestCaseConfig { environment: [("TMPDIR".to_string(), tmp.to_string_lossy().to_string())].into_iter().collect(), ..TestCaseConfig::default_markdown() } })
        .collect();
    let refs: Vec<&TestCase> = tcs.iter().collect();
    let ex = StatefulExecutor::new(BashRunner::stateful_generator(&bash()));
    let ctx = Context { work_directory: wa.clone(), temp_directory: tmp.clone(), file: PathBuf::from("doc.md"), config: DocumentConfig::default_markdown() };
    let a: Result<Vec<String>, String> = match guarded(|| ex.execute_all(&refs, &ctx)) {
        Err(p) => Err(format!("panic: {p}")),
        Ok(Err(e)) => Err(format!("error: {e}")),
        Ok(Ok(outs)) => Ok(outs.iter().map(|o| format!("{}[{}]", String::from_utf8_lossy(&(&o.stdout).to_bytes()), o.exit_code)).collect()),
    };
    // (b) one session; under errexit the session would end at `(exit 3)`: there each command is its own test case, and
    // what one session says is known: the command ends the shell with 3, nothing is carried further
    let mut script = String::from("shopt -s expand_aliases\n");
    let upto = if errexit { 5 } else { exprs.len() };
    for (i, e) in exprs.iter().take(upto).enumerate() {
        script.push_str(&format!("{e}\nbuiltin echo \"@@MARK {i} $?\"\n"));
    }
    let out = std::process::Command::new(bash()).current_dir(&wb).env("TMPDIR", &tmpb).stdin(std::process::Stdio::piped()).stdout(std::process::Stdio::piped()).stderr(std::process::Stdio::null()).spawn().and_then(|mut c| {
        use std::io::Write;
        c.stdin.take().unwrap().write_all(script.as_bytes())?;
        c.wait_with_output()
    });
    let mut b: Vec<String> = vec![];
    if let Ok(out) = out {
        let text = String::from_utf8_lossy(&out.stdout).to_string();
        let mut cur = String::new();
        for line in text.split_inclusive('\n') {
            if let Some(rest) = line.strip_prefix("@@MARK ") {
                b.push(format!("{}[{}]", cur, rest.trim().split(' ').nth(1).unwrap_or("?")));
                cur.clear();
            } else {
                cur.push_str(line);
            }
        }
    }
    let mut fails = vec![];
    match &a {
        Err(e) => fails.push(("C12:executor-error".into(), format!("option {opt:?}: per-process execution failed: {e}"))),
        Ok(a) => {
            let cmp = a.len().min(upto);
            if a[..cmp] != b[..cmp.min(b.len())] {
                let first = a.iter().zip(b.iter()).position(|(x, y)| x != y).unwrap_or(0);
                fails.push(("C12:state-differs-from-single-session".to_string(), format!("after `{opt}` (test cases {:?}): test case {first} gives {:?} per process, {:?} in one session", exprs, a.get(first), b.get(first))));
            }
            if errexit {
                // `(exit 3)` ends with 3 (and, under errexit, ends the shell: nothing new to carry); the next test case
                // starts from the state persisted before and runs
                if a.get(5).map(|s| s.as_str()) != Some("[3]") || a.get(6).map(|s| s.as_str()) != Some("after\n[0]") {
                    fails.push(("C12:state-differs-from-single-session".to_string(), format!("after `{opt}`: `(exit 3)` and `echo after` give {:?} and {:?}", a.get(5), a.get(6))));
                }
            }
        }
    }
    let _ = std::fs::remove_dir_all(&dir);
    CaseRec {
        // the option semantics of bash are not modelled: judged against one real session only
        op: format!("oracle-only shopt case=option.{idx}"),
        impl_out: "oracle-only".into(),
        oracle_fail: keep(prop, fails),
        nontrivial: true,
        tags: vec![format!("class=option:{opt}")],
    }
}

pub fn run(ctx: &Ctx, prop: &str) {
    let root = std::env::temp_dir().join(format!("scrut-verif-shell-{}", std::process::id()));
    std::fs::create_dir_all(&root).unwrap();
    std::env::set_var("SCRUT_VERIF_INHERITED", "inherited-value");
    let pool = step_pool();
    let seed = ctx.seed;
    // every single step and every ordered pair of steps (exhaustive over the pool), then seeded longer histories
    let n = pool.len() as u64;
    let r2 = root.clone();
    let p2 = pool.clone();
    ctx.run_stream("histories-1-and-2-exhaustive", if ctx.thorough { n + n * n } else { n }, true, |idx| {
        let steps = if idx < n { vec![p2[idx as usize].clone()] } else { vec![p2[((idx - n) / n) as usize].clone(), p2[((idx - n) % n) as usize].clone()] };
        Some(history_case(prop, steps, &r2, idx))
    });
    let r2 = root.clone();
    let p2 = pool.clone();
    ctx.run_stream("histories-random", if ctx.thorough { 6000 } else { 320 }, false, |idx| {
        let mut rng = Rng::fork(seed, 41, idx);
        // half of the quick budget goes to pairs (the exhaustive pair scope is in the thorough tier)
        let long = rng.chance(1, 4);
        let len = if idx % 2 == 0 { 2 } else { rng.range(3, if long { 8 } else { 4 }) };
        let steps: Vec<Step> = (0..len).map(|_| rng.pick(&p2).clone()).collect();
        Some(history_case(prop, steps, &r2, 100_000 + idx))
    });
    let r2 = root.clone();
    ctx.run_stream("options-then-plain-exhaustive", 2 * OPTIONS.len() as u64, true, |idx| Some(option_case(prop, idx, &r2)));
    let _ = std::fs::remove_dir_all(&root);
}

pub fn replay(prop: &str, op: &str) -> bool {
    let parts: Vec<&str> = op.split_whitespace().collect();
    std::env::set_var("SCRUT_VERIF_INHERITED", "inherited-value");
    if let Some(idx) = parts.last().and_then(|l| l.strip_prefix("case=option.")).and_then(|i| i.parse::<u64>().ok()) {
        let root = std::env::temp_dir().join(format!("scrut-verif-shell-replay-{}", std::process::id()));
        std::fs::create_dir_all(&root).unwrap();
        let c = option_case(prop, idx, &root);
        for (cl, d) in &c.oracle_fail {
            println!("oracle-failure {cl}: {d}");
        }
        let _ = std::fs::remove_dir_all(&root);
        return c.oracle_fail.is_empty();
    }
    if parts.len() != 3 {
        return false;
    }
    let pool = step_pool();
    let steps: Vec<Step> = parts[2]
        .split(',')
        .filter_map(|s| {
            let i: usize = s.rsplit('@').next()?.parse().ok()?;
            pool.get(i).cloned()
        })
        .collect();
    let root = std::env::temp_dir().join(format!("scrut-verif-shell-replay-{}", std::process::id()));
    std::fs::create_dir_all(&root).unwrap();
    let c = history_case(prop, steps, &root, 0);
    println!("impl: {}", c.impl_out);
    for (cl, d) in &c.oracle_fail {
        println!("oracle-failure {cl}: {d}");
    }
    let _ = std::fs::remove_dir_all(&root);
    c.oracle_fail.is_empty()
}
