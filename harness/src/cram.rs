//! C07: the Cram document parser (`src/parsers/cram.rs` on top of `line_parser.rs`) against the
//! Lean model (`cram` op), plus two direct oracles on the real parser:
//!  * `spec`: an independent block-structured reading of an arbitrary document (which tests are
//!    written, in which block, with which title) — applied to every generated document;
//!  * by construction: documents rendered from an AST, whose tests are known before rendering.
use crate::common::*;
use scrut::config::{DocumentConfig, OutputStreamControl, TestCaseConfig};
use scrut::expectation::ExpectationMaker;
use scrut::parsers::cram::{CramParser, DEFAULT_CRAM_INDENTION};
use scrut::parsers::parser::Parser;
use scrut::rules::registry::RuleRegistry;
use scrut::testcase::TestCase;
use std::cell::RefCell;
use std::collections::HashMap;
use std::sync::Arc;

fn maker() -> Arc<ExpectationMaker> {
    Arc::new(ExpectationMaker::new(RuleRegistry::default()))
}

thread_local! {
    static EXP_FAIL: RefCell<HashMap<String, bool>> = RefCell::new(HashMap::new());
}

/// does `ExpectationMaker::parse` reject this text? (the instantiation of the model's `expOk`)
fn exp_fails(mk: &ExpectationMaker, body: &str) -> bool {
    EXP_FAIL.with(|c| {
        if let Some(v) = c.borrow().get(body) {
            return *v;
        }
        let v = guarded(|| mk.parse(body).is_err()).unwrap_or(true);
        let mut m = c.borrow_mut();
        if m.len() > 50_000 {
            m.clear();
        }
        m.insert(body.to_string(), v);
        v
    })
}

fn ob(v: Option<bool>) -> &'static str {
    match v {
        Some(true) => "1",
        Some(false) => "0",
        None => "-",
    }
}

fn show_cfg(c: &TestCaseConfig) -> String {
    let os = match c.output_stream {
        Some(OutputStreamControl::Stdout) => "stdout",
        Some(OutputStreamControl::Stderr) => "stderr",
        Some(OutputStreamControl::Combined) => "combined",
        None => "-",
    };
    format!(
        "d={},k={},o={},s={},a={},t={},w={},e={}",
        ob(c.detached),
        ob(c.keep_crlf),
        os,
        c.skip_document_code.map(|v| v.to_string()).unwrap_or("-".into()),
        ob(c.strip_ansi_escaping),
        c.timeout.map(|d| d.as_secs().to_string()).unwrap_or("-".into()),
        if c.wait.is_some() { "set" } else { "-" },
        if c.environment.is_empty() { "-" } else { "set" }
    )
}

fn show_doc_cfg(c: &DocumentConfig) -> String {
    format!(
        "shell={},total={},pre={},app={},defaults=[{}]",
        if c.shell.is_some() { "set" } else { "-" },
        c.total_timeout.map(|d| d.as_secs().to_string()).unwrap_or("-".into()),
        c.prepend.len(),
        c.append.len(),
        show_cfg(&c.defaults)
    )
}

fn show_test(t: &TestCase) -> String {
    format!(
        "T title={} cmd={} exp=[{}] code={} line={} cfg={}",
        hex(t.title.as_bytes()),
        hex(t.shell_expression.as_bytes()),
        t.expectations.iter().map(|e| hex(e.original_string().as_bytes())).collect::<Vec<_>>().join(","),
        t.exit_code.map(|v| v.to_string()).unwrap_or("-".into()),
        t.line_number,
        show_cfg(&t.config)
    )
}

/// error → small enum + the 1-based line of the message
fn show_err(e: &anyhow::Error) -> String {
    let msg = e.to_string();
    let num = |s: &str| s.chars().take_while(|c| c.is_ascii_digit()).collect::<String>();
    if let Some(r) = msg.strip_prefix("parsing line ") {
        return format!("error:exp-parse:{}", num(r));
    }
    if let Some(r) = msg.strip_prefix("line ") {
        let n = num(r);
        let kind = if msg.contains("expectation or exit code given") {
            "body-no-shell"
        } else if msg.contains("command extender") {
            "extender"
        } else if msg.contains("exit code provided multiple times") {
            "exit-twice"
        } else if msg.contains("exit code [") && msg.contains("is out of range") {
            "exit-range"
        } else if msg.contains("exit code given") {
            "exit-no-shell"
        } else if msg.contains("no shell expression") {
            "no-shell"
        } else {
            "other"
        };
        return format!("error:{kind}:{n}");
    }
    "error:other".into()
}

/// a test as the oracles state it
#[derive(Clone, Debug, PartialEq)]
struct ST {
    /// title as the code defines it: last title line since the previous command
    title: String,
    /// the property's reading: nearest preceding title line of the document
    nearest: String,
    cmd: String,
    exps: Vec<String>,
    code: Option<i32>,
    line: usize,
}

struct Spec {
    tests: Vec<ST>,
    /// two exit codes below one command, an exit code line whose number does not fit an i32, or
    /// an expectation the maker rejects
    must_error: bool,
    /// indented non-command lines with no command before them in their block (the document must not parse)
    orphans: usize,
}

fn exit_code_of(body: &str) -> Option<i32> {
    // independent of the regex: "[" digits "]" that fits an i32
    let inner = body.strip_prefix('[')?.strip_suffix(']')?;
    if inner.is_empty() || !inner.bytes().all(|b| b.is_ascii_digit()) {
        return None;
    }
    inner.parse::<i32>().ok()
}

/// independent of the regex: the line has the form of an exit code line, "[" ASCII digits "]"
/// (whether or not the number fits)
pub fn exit_code_form(body: &str) -> bool {
    let b = body.as_bytes();
    b.len() >= 3 && b[0] == b'[' && b[b.len() - 1] == b']' && b[1..b.len() - 1].iter().all(|c| (b'0'..=b'9').contains(c))
}

/// `str::lines()` restated: split at LF, drop one CR before the LF
fn split_lines(text: &str) -> Vec<String> {
    let mut out = vec![];
    let mut rest = text;
    while !rest.is_empty() {
        match rest.find('\n') {
            Some(p) => {
                let l = &rest[..p];
                out.push(l.strip_suffix('\r').unwrap_or(l).to_string());
                rest = &rest[p + 1..];
            }
            None => {
                out.push(rest.to_string());
                rest = "";
            }
        }
    }
    out
}

/// Independent reading of a Cram document: blocks are separated by blank and unindented lines,
/// `#` lines are invisible, inside a block each `$ ` line opens a test that owns the `> ` lines
/// directly below it and all further indented lines up to the next `$ ` line.
fn spec(mk: &ExpectationMaker, text: &str, indention: usize) -> Spec {
    let indent = " ".repeat(indention);
    let mut sp = Spec { tests: vec![], must_error: false, orphans: 0 };
    let mut nearest = String::new();
    let mut pending: Option<String> = None;
    // open test: (index into sp.tests, still in the command lines, exit code seen)
    let mut open: Option<(usize, bool, bool)> = None;
    for (i, line) in split_lines(text).iter().enumerate() {
        if line.starts_with('#') {
            continue;
        }
        if line.is_empty() {
            open = None;
            continue;
        }
        let Some(body) = line.strip_prefix(&indent) else {
            open = None;
            nearest = line.clone();
            pending = Some(line.clone());
            continue;
        };
        if let Some(cmd) = body.strip_prefix("$ ") {
            sp.tests.push(ST { title: pending.take().unwrap_or_default(), nearest: nearest.clone(), cmd: cmd.to_string(), exps: vec![], code: None, line: i + 1 });
            open = Some((sp.tests.len() - 1, true, false));
            continue;
        }
        match open.as_mut() {
            None => sp.orphans += 1,
            Some((t, in_cmd, has_code)) => {
                if *in_cmd {
                    if let Some(c) = body.strip_prefix("> ") {
                        sp.tests[*t].cmd.push('\n');
                        sp.tests[*t].cmd.push_str(c);
                        continue;
                    }
                }
                *in_cmd = false;
                if let Some(c) = exit_code_of(body) {
                    if *has_code {
                        sp.must_error = true;
                    }
                    *has_code = true;
                    sp.tests[*t].code = Some(c);
                } else if exit_code_form(body) {
                    // an exit code that does not fit: an error (fix "exit code .. is out of range"),
                    // never an output expectation
                    sp.must_error = true;
                } else {
                    if exp_fails(mk, body) {
                        sp.must_error = true;
                    }
                    sp.tests[*t].exps.push(body.to_string());
                }
            }
        }
    }
    sp
}

fn st_of(t: &TestCase) -> ST {
    ST { title: t.title.clone(), nearest: String::new(), cmd: t.shell_expression.clone(), exps: t.expectations.iter().map(|e| e.original_string()).collect(), code: t.exit_code, line: t.line_number }
}

fn same_but_title(a: &ST, b: &ST) -> bool {
    a.cmd == b.cmd && a.exps == b.exps && a.code == b.code && a.line == b.line
}

/// expected tests of an AST document, known before rendering
struct Built {
    text: String,
    tests: Vec<ST>,
    kinds: Vec<&'static str>,
}

fn fail_field(mk: &ExpectationMaker, text: &str, indention: usize) -> String {
    let indent = " ".repeat(indention);
    let mut fails: Vec<String> = vec![];
    for l in text.lines() {
        if let Some(b) = l.strip_prefix(&indent) {
            if exp_fails(mk, b) && !fails.iter().any(|f| f == b) {
                fails.push(b.to_string());
            }
        }
    }
    fails.sort();
    format!("fail={}", fails.iter().map(|f| hex(f.as_bytes())).collect::<Vec<_>>().join(","))
}

fn case(mk: &Arc<ExpectationMaker>, prop: &str, text: &str, indention: usize, built: Option<&Built>, mut tags: Vec<String>) -> CaseRec {
    // the streams at indentation 2 go through the constant the binary uses (the model is told 2)
    let parser = CramParser::new(mk.clone(), if indention == 2 { DEFAULT_CRAM_INDENTION } else { indention });
    let r = guarded(|| parser.parse(text));
    let mut fails: Vec<(String, String)> = vec![];
    let shown_doc = || text.escape_debug().to_string();
    let sp = spec(mk, text, indention);
    let impl_out = match &r {
        Err(p) => {
            fails.push(("C07:crash".into(), format!("panic `{p}` on {}", shown_doc())));
            tags.push("result:crash".into());
            "crash".to_string()
        }
        Ok(Err(e)) => {
            let s = show_err(e);
            tags.push(format!("result:{}", s.rsplitn(2, ':').nth(1).unwrap_or(&s)));
            if !sp.must_error && sp.orphans == 0 {
                fails.push(("C07:unexpected-error".into(), format!("{} -> {s} although every indented line belongs to a command", shown_doc())));
            }
            if built.is_some() {
                fails.push(("C07:ast-roundtrip".into(), format!("{} -> {s}", shown_doc())));
            }
            s
        }
        Ok(Ok((dc, tests))) => {
            tags.push("result:ok".into());
            tags.push(format!("tests:{}", tests.len().min(6)));
            if *dc != DocumentConfig::default_cram() {
                fails.push(("C07:doc-config".into(), shown_doc()));
            }
            for t in tests {
                if t.config != TestCaseConfig::default_cram() {
                    fails.push(("C07:config-not-cram-default".into(), format!("{} test at line {}: {}", shown_doc(), t.line_number, show_cfg(&t.config))));
                }
            }
            let got: Vec<ST> = tests.iter().map(st_of).collect();
            // direct: a body line `[digits]` is an exit code or an error, never an expectation
            for g in &got {
                for e in g.exps.iter().filter(|e| exit_code_form(e)) {
                    fails.push(("C07:exit-code-out-of-range-becomes-expectation".into(), format!("{}: the test at line {} carries the expectation {:?}, which has the form of an exit code line (exit code of the test: {:?})", shown_doc(), g.line, e, g.code)));
                }
            }
            if sp.orphans > 0 {
                // since fix 67abd12 an indented line that is not below a command is an error
                let adopted = got.len() == sp.tests.len() && got.iter().zip(sp.tests.iter()).any(|(g, w)| g.code != w.code || g.exps != w.exps);
                fails.push(("C07:orphan-line-accepted".into(), format!("{} parsed although {} indented line(s) are not below a command{}", shown_doc(), sp.orphans, if adopted { " (and a later test adopted them)" } else { "" })));
            } else if sp.must_error {
                fails.push(("C07:missing-error".into(), format!("{} parsed although a test has two exit codes, an exit code out of range or an unparsable expectation", shown_doc())));
            } else if got.len() != sp.tests.len() {
                fails.push(("C07:test-count".into(), format!("{}: {} tests, {} `$` lines", shown_doc(), got.len(), sp.tests.len())));
            } else {
                for (g, w) in got.iter().zip(sp.tests.iter()) {
                    if !same_but_title(g, w) {
                        fails.push(("C07:tests-differ".into(), format!("{}: test at line {} is cmd={:?} exps={:?} code={:?}, written: cmd={:?} exps={:?} code={:?} line={}", shown_doc(), g.line, g.cmd, g.exps, g.code, w.cmd, w.exps, w.code, w.line)));
                    } else if g.title != w.title {
                        fails.push(("C07:title-differs".into(), format!("{}: test at line {} has title {:?}, last title line since the previous command is {:?}", shown_doc(), g.line, g.title, w.title)));
                    }
                    if same_but_title(g, w) && g.title != w.nearest {
                        fails.push(("C07:title-not-nearest".into(), format!("{}: test at line {} has title {:?}, nearest preceding title line is {:?}", shown_doc(), g.line, g.title, w.nearest)));
                    }
                }
            }
            if let Some(b) = built {
                let want: Vec<ST> = b.tests.iter().map(|t| ST { nearest: String::new(), ..t.clone() }).collect();
                if got != want {
                    fails.push(("C07:ast-roundtrip".into(), format!("{}: got {:?}, written {:?}", shown_doc(), got, want)));
                }
            }
            let mut parts = vec![format!("ok doc={} n={}", show_doc_cfg(dc), tests.len())];
            parts.extend(tests.iter().map(show_test));
            parts.join(" ")
        }
    };
    if sp.orphans > 0 {
        tags.push("has-orphan-lines".into());
    }
    if let Some(b) = built {
        for k in &b.kinds {
            tags.push(format!("ast:{k}"));
        }
    }
    let nontrivial = sp.tests.len() >= 1 && split_lines(text).len() >= 2;
    CaseRec {
        op: format!("cram {} {} {}", indention, hex(text.as_bytes()), fail_field(mk, text, indention)),
        impl_out,
        oracle_fail: fails.into_iter().filter(|(c, _)| c.starts_with(prop)).collect(),
        nontrivial,
        tags,
    }
}

/// line alphabet: neighbours differ by single spaces
const FULL: &[&str] = &[
    "", " ", "  ", "   ", "T", "U", "# c", "  # c", "$ x", " $ x", "  $ x", "   $ x", "  $", "  $  x", "  > y", "  >y", "  out", "  out ", "   out", "  [1]",
    "  [2147483648]", "  [1] ", "  ( (re)",
];
/// the exit code lines around `i32::MAX` (with leading zeros, far beyond, beyond `u64`), among
/// commands, continuations, expectations and block ends
const EXITS: &[&str] = &[
    "", "T", "  $ x", "  > y", "  out", "  [1]", "  [2147483647]", "  [2147483648]", "  [99999999999]", "  [0002147483647]", "  [0002147483648]",
    "  [99999999999999999999]",
];
const CORE: &[&str] = &["", "  ", "T", "U", "# c", "  $ x", "  > y", "  out", "  [1]", "  ( (re)"];

/// number of documents with 0..=k lines over an alphabet of size a
fn count_upto(a: u64, k: u32) -> u64 {
    (0..=k).map(|l| a.pow(l)).sum()
}

fn nth_doc(alpha: &[&str], mut idx: u64) -> String {
    let a = alpha.len() as u64;
    let mut len = 0u32;
    while idx >= a.pow(len) {
        idx -= a.pow(len);
        len += 1;
    }
    let mut s = String::new();
    for _ in 0..len {
        s.push_str(alpha[(idx % a) as usize]);
        s.push('\n');
        idx /= a;
    }
    s
}

const WORDS: &[&str] = &["a", "echo hi", "x y", " lead", "trail ", "$ d", "> g", "[1]", "# h", "(re)", "a\tb", "é", "  ", "[", "]", "$", ">", "", " ", "foo (glob)", "b* (glob+)", "c (?)", "[12", "[-1]", "[ 1]"];

fn gen_ast(mk: &ExpectationMaker, rng: &mut Rng, indention: usize) -> Built {
    let indent = " ".repeat(indention);
    let mut lines: Vec<String> = vec![];
    let mut tests = vec![];
    let mut kinds = vec![];
    let mut pending: Option<String> = None;
    let n = rng.range(1, 10);
    for _ in 0..n {
        match rng.below(10) {
            0 | 1 => {
                // title: not empty, not a comment, not indented
                let mut t = rng.pick(&["T", "U", "A title", " one space", "$ x", "> y", "[1]", "\ttab", " ", "x  "]).to_string();
                if indention == 1 && t.starts_with(' ') {
                    t = "T".into();
                }
                if indention == 0 {
                    continue; // with indention 0 there are no title lines
                }
                lines.push(t.clone());
                pending = Some(t);
                kinds.push("title");
            }
            2 => {
                lines.push(String::new());
                kinds.push("blank");
            }
            3 => {
                lines.push(format!("#{}", rng.pick(WORDS)));
                kinds.push("comment");
            }
            _ => {
                let cmd = rng.pick(WORDS).to_string();
                let line = lines.len() + 1;
                lines.push(format!("{indent}$ {cmd}"));
                let mut full = cmd;
                for _ in 0..rng.below(3) {
                    if rng.chance(1, 6) {
                        lines.push("# between".into());
                        kinds.push("comment-in-command");
                    }
                    let c = rng.pick(WORDS).to_string();
                    lines.push(format!("{indent}> {c}"));
                    full.push('\n');
                    full.push_str(&c);
                    kinds.push("continuation");
                }
                let mut exps = vec![];
                let mut code = None;
                let mut first = true;
                for _ in 0..rng.below(4) {
                    if rng.chance(1, 8) {
                        lines.push("#inside".into());
                        kinds.push("comment-in-body");
                        continue;
                    }
                    if code.is_none() && rng.chance(1, 4) {
                        let ds = rng.pick(&["0", "1", "007", "80", "255", "2147483647", "0002147483647"]).to_string();
                        lines.push(format!("{indent}[{ds}]"));
                        code = Some(ds.parse::<i32>().unwrap());
                        kinds.push("exit-code");
                    } else {
                        let e = rng.pick(&["out", "out ", " out", "", " ", "  ", "\t", "> y", ">y", "$", "$x", "[1] ", " [1]", "[2147483648] (equal)", "[2147483648] ", "[]", "[a]", "# not a comment", "foo (glob)", "a* (glob+)", "x (?)", "é ü", "( (re)"]).to_string();
                        let bad = e.starts_with("$ ") || exit_code_form(&e) || exp_fails(mk, &e) || (first && e.starts_with("> "));
                        if bad || (indention == 0 && (e.is_empty() || e.starts_with('#'))) {
                            continue;
                        }
                        if e.trim().is_empty() {
                            kinds.push("whitespace-only-expectation");
                        } else {
                            kinds.push("expectation");
                        }
                        lines.push(format!("{indent}{e}"));
                        exps.push(e);
                    }
                    first = false;
                }
                let title = pending.take().unwrap_or_default();
                tests.push(ST { title, nearest: String::new(), cmd: full, exps, code, line });
                kinds.push("test");
            }
        }
    }
    let mut text = String::new();
    for l in &lines {
        text.push_str(l);
        text.push('\n');
    }
    Built { text, tests, kinds }
}

fn gen_raw(rng: &mut Rng) -> String {
    // arbitrary lines, arbitrary line ends (LF, CRLF, bare CR inside, missing final newline)
    let n = rng.range(0, 9);
    let mut s = String::new();
    for i in 0..n {
        let l = if rng.chance(1, 10) { rng.pick(EXITS).to_string() } else if rng.chance(3, 4) { rng.pick(FULL).to_string() } else { format!("{}{}", rng.pick(&["", " ", "  ", "   ", "\t", "#"]), rng.pick(WORDS)) };
        s.push_str(&l);
        let last = i + 1 == n;
        match rng.below(12) {
            0 => s.push_str("\r\n"),
            1 => s.push_str("\r\r\n"),
            2 if last => {}
            3 if last => s.push('\r'),
            4 => s.push_str("\n\n"),
            _ => s.push('\n'),
        }
    }
    s
}

pub fn run(ctx: &Ctx, prop: &str) {
    let seed = ctx.seed;
    let mk = maker();
    // 1. every document over the full alphabet up to 4 (thorough 5) lines
    let k_full = if ctx.thorough { 5 } else { 4 };
    let total = count_upto(FULL.len() as u64, k_full);
    ctx.note(format!("exhaustive: all {} documents of at most {} lines over the {}-token line alphabet {:?}", total, k_full, FULL.len(), FULL));
    ctx.run_stream("lines-full-alphabet-exhaustive", total, true, |idx| Some(case(&mk, prop, &nth_doc(FULL, idx), 2, None, vec!["exhaustive-full".into()])));
    // 2. core alphabet one line longer
    let k_core = if ctx.thorough { 6 } else { 5 };
    let total = count_upto(CORE.len() as u64, k_core);
    ctx.note(format!("exhaustive: all {} documents of at most {} lines over the {}-token core alphabet {:?}", total, k_core, CORE.len(), CORE));
    ctx.run_stream("lines-core-alphabet-exhaustive", total, true, |idx| Some(case(&mk, prop, &nth_doc(CORE, idx), 2, None, vec!["exhaustive-core".into()])));
    // 2b. exit code lines at the edge of i32
    let k_exit = if ctx.thorough { 5 } else { 4 };
    let total = count_upto(EXITS.len() as u64, k_exit);
    ctx.note(format!("exhaustive: all {} documents of at most {} lines over the {}-token exit code alphabet {:?}", total, k_exit, EXITS.len(), EXITS));
    ctx.run_stream("lines-exit-code-range-exhaustive", total, true, |idx| Some(case(&mk, prop, &nth_doc(EXITS, idx), 2, None, vec!["exhaustive-exit-range".into()])));
    // 3. documents by construction
    let n = if ctx.thorough { 400_000 } else { 25_000 };
    ctx.run_stream("ast-documents-random", n, false, |idx| {
        let mut rng = Rng::fork(seed, 71, idx);
        let indention = if rng.chance(1, 8) { rng.range(0, 4) } else { 2 };
        let b = gen_ast(&mk, &mut rng, indention);
        Some(case(&mk, prop, &b.text, indention, Some(&b), vec![format!("ast-indention:{indention}")]))
    });
    // 4. arbitrary lines and line ends
    ctx.run_stream("raw-lines-random", n, false, |idx| {
        let mut rng = Rng::fork(seed, 72, idx);
        let indention = if rng.chance(1, 8) { rng.range(0, 4) } else { 2 };
        Some(case(&mk, prop, &gen_raw(&mut rng), indention, None, vec![format!("raw-indention:{indention}")]))
    });
}

pub fn replay(prop: &str, op: &str) -> bool {
    let parts: Vec<&str> = op.split_whitespace().collect();
    if parts.first() == Some(&"cram") && parts.len() == 4 {
        let indention: usize = parts[1].parse().unwrap_or(2);
        let text = String::from_utf8_lossy(&unhex(parts[2])).to_string();
        let mk = maker();
        let c = case(&mk, prop, &text, indention, None, vec![]);
        println!("document: {:?}", text);
        println!("impl: {}", c.impl_out);
        for (cl, d) in &c.oracle_fail {
            println!("oracle-failure {cl}: {d}");
        }
        return c.oracle_fail.is_empty();
    }
    eprintln!("unsupported replay op");
    false
}
