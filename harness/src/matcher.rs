//! C01 / C02 / C03: the greedy line matcher (`DiffTool::diff`) vs. the Lean model `Scrut.Diff.diff`,
//! plus direct oracles (language membership by DP, conservation, determinism).
use crate::common::*;
use scrut::diff::{Diff, DiffLine, DiffTool};
use scrut::expectation::{Expectation, ExpectationMaker};
use scrut::rules::registry::RuleRegistry;
use scrut::rules::rule::Rule;

/// Rule kind `bits`: the expression is a bit string, a line `"<j>\n"` matches iff bit `j` is `1`.
#[derive(Clone, Debug)]
struct BitsRule(String);
impl Rule for BitsRule {
    fn kind(&self) -> &'static str {
        "bits"
    }
    fn matches(&self, line: &[u8]) -> bool {
        let s = String::from_utf8_lossy(line);
        match s.trim_end_matches('\n').parse::<usize>() {
            Ok(j) => self.0.as_bytes().get(j) == Some(&b'1'),
            Err(_) => false,
        }
    }
    fn unmake(&self) -> (String, Vec<u8>) {
        ("bits".into(), self.0.as_bytes().to_vec())
    }
}
fn make_bits(expr: &str) -> anyhow::Result<Box<dyn Rule>> {
    Ok(Box::new(BitsRule(expr.to_string())))
}

pub fn maker() -> ExpectationMaker {
    let mut reg = RuleRegistry::default();
    reg.register(make_bits, &["bits"]);
    ExpectationMaker::new(reg)
}

#[derive(Clone, Copy, PartialEq, Debug)]
pub struct Q {
    pub optional: bool,
    pub multiline: bool,
}
pub fn q_char(q: Q) -> char {
    match (q.optional, q.multiline) {
        (false, false) => '.',
        (true, false) => '?',
        (true, true) => '*',
        (false, true) => '+',
    }
}
fn q_suffix(q: Q) -> &'static str {
    match (q.optional, q.multiline) {
        (false, false) => "",
        (true, false) => "?",
        (true, true) => "*",
        (false, true) => "+",
    }
}
const QS: [Q; 4] = [
    Q { optional: false, multiline: false },
    Q { optional: true, multiline: false },
    Q { optional: true, multiline: true },
    Q { optional: false, multiline: true },
];

pub fn canon_diff(d: &Diff) -> String {
    let mut parts = vec![];
    for l in &d.lines {
        match l {
            DiffLine::MatchedExpectation { index, lines, .. } => parts.push(format!("M{}:{}", index, lines.iter().map(|(i, _)| i.to_string()).collect::<Vec<_>>().join(","))),
            DiffLine::UnmatchedExpectation { index, .. } => parts.push(format!("U{}", index)),
            DiffLine::UnexpectedLines { lines } => parts.push(format!("X:{}", lines.iter().map(|(i, _)| i.to_string()).collect::<Vec<_>>().join(","))),
        }
    }
    format!("{} {}", if d.has_differences() { "D" } else { "S" }, parts.join(";"))
}

/// DP membership of the `m` lines in `e1{q1} … en{qn}`: set of NFA configurations (i, open).
pub fn member(qs: &[Q], mt: &dyn Fn(usize, usize) -> bool, m: usize) -> bool {
    let n = qs.len();
    let mut cur = vec![(0usize, false)];
    for j in 0..m {
        let mut nxt: Vec<(usize, bool)> = vec![];
        for &(i, o) in &cur {
            for k in cands(qs, i, o) {
                if mt(k, j) {
                    let c = if qs[k].multiline { (k, true) } else { (k + 1, false) };
                    if !nxt.contains(&c) {
                        nxt.push(c);
                    }
                }
            }
        }
        cur = nxt;
        if cur.is_empty() {
            return false;
        }
    }
    cur.iter().any(|&(i, o)| ((if o { i + 1 } else { i })..n).all(|t| qs[t].optional))
}

/// expectations that may legally take the next line in configuration (i, open)
fn cands(qs: &[Q], i: usize, o: bool) -> Vec<usize> {
    let n = qs.len();
    let mut out = vec![];
    let mut k = i;
    if o {
        out.push(i);
        k = i + 1;
    }
    while k < n {
        out.push(k);
        if !qs[k].optional {
            break;
        }
        k += 1;
    }
    out
}

/// one-line-lookahead determinism along the (unique) reading
pub fn det(qs: &[Q], mt: &dyn Fn(usize, usize) -> bool, m: usize) -> bool {
    let (mut i, mut o) = (0usize, false);
    for j in 0..m {
        let ks: Vec<usize> = cands(qs, i, o).into_iter().filter(|&k| mt(k, j)).collect();
        match ks.len() {
            0 => return true,
            1 => {
                let k = ks[0];
                if qs[k].multiline {
                    i = k;
                    o = true;
                } else {
                    i = k + 1;
                    o = false;
                }
            }
            _ => return false,
        }
    }
    true
}

/// C02 oracle: recompute the conservation conjuncts on the real result.
pub fn conservation(d: &Diff, qs: &[Q], mt: &dyn Fn(usize, usize) -> bool, lines: &[Vec<u8>]) -> Result<(), String> {
    let n = qs.len();
    let m = lines.len();
    let mut seen_lines = vec![];
    let mut seen_idx = vec![];
    for l in &d.lines {
        match l {
            DiffLine::MatchedExpectation { index, lines: ls, .. } => {
                if ls.is_empty() {
                    return Err(format!("matched expectation {index} without lines"));
                }
                if !qs.get(*index).map(|q| q.multiline).unwrap_or(false) && ls.len() != 1 {
                    return Err(format!("non-multiline expectation {index} matched {} lines", ls.len()));
                }
                for (j, content) in ls {
                    if *j >= m || &lines[*j] != content {
                        return Err(format!("line {j} content differs from the output"));
                    }
                    if *index >= n || !mt(*index, *j) {
                        return Err(format!("line {j} reported as matched by expectation {index}, which does not match it"));
                    }
                    seen_lines.push(*j);
                }
                seen_idx.push(*index);
            }
            DiffLine::UnmatchedExpectation { index, .. } => {
                if *index >= n {
                    return Err(format!("unmatched expectation index {index} out of range"));
                }
                if qs[*index].optional {
                    return Err(format!("optional expectation {index} reported as unmatched"));
                }
                seen_idx.push(*index);
            }
            DiffLine::UnexpectedLines { lines: ls } => {
                if ls.is_empty() {
                    return Err("empty unexpected-lines entry".into());
                }
                for (j, content) in ls {
                    if *j >= m || &lines[*j] != content {
                        return Err(format!("line {j} content differs from the output"));
                    }
                    seen_lines.push(*j);
                }
            }
        }
    }
    if seen_lines != (0..m).collect::<Vec<_>>() {
        return Err(format!("lines mentioned {:?} but the output has lines 0..{}", seen_lines, m));
    }
    if !seen_idx.windows(2).all(|w| w[0] < w[1]) {
        return Err(format!("expectation indices not strictly increasing: {:?}", seen_idx));
    }
    for (i, q) in qs.iter().enumerate() {
        if !q.optional && !seen_idx.contains(&i) {
            return Err(format!("non-optional expectation {i} not mentioned"));
        }
    }
    Ok(())
}

pub fn split_lines(out: &[u8]) -> Vec<Vec<u8>> {
    // independent re-implementation: pieces end after each LF, a non-empty rest is the last piece
    let mut v = vec![];
    let mut cur = vec![];
    for &b in out {
        cur.push(b);
        if b == b'\n' {
            v.push(std::mem::take(&mut cur));
        }
    }
    if !cur.is_empty() {
        v.push(cur);
    }
    v
}

pub struct Eval {
    pub impl_out: String,
    pub fails: Vec<(String, String)>,
    pub has_diff: Option<bool>,
}

/// Run the real DiffTool and all three oracles.
pub fn eval(exps: Vec<Expectation>, qs: &[Q], output: &[u8], mt: &dyn Fn(usize, usize) -> bool) -> Eval {
    eval_nl(exps, qs, output, mt, false)
}

/// `newline_invariant`: the rules of this case do not look at the line terminator (bits rule, regex), so the
/// stream without its final line feed has the same match matrix and must get the same verdict
pub fn eval_nl(exps: Vec<Expectation>, qs: &[Q], output: &[u8], mt: &dyn Fn(usize, usize) -> bool, newline_invariant: bool) -> Eval {
    let lines = split_lines(output);
    let m = lines.len();
    let exps2 = exps.clone();
    let r = guarded(|| DiffTool::new(exps).diff(output));
    let mut fails = vec![];
    match r {
        Err(p) => {
            fails.push(("C02:crash".to_string(), format!("DiffTool::diff panicked: {p}")));
            Eval { impl_out: "crash".into(), fails, has_diff: None }
        }
        Ok(Err(e)) => {
            fails.push(("C02:error".to_string(), format!("DiffTool::diff returned an error: {e}")));
            Eval { impl_out: "error".into(), fails, has_diff: None }
        }
        Ok(Ok(d)) => {
            let hd = d.has_differences();
            let mem = member(qs, mt, m);
            if !hd && !mem {
                fails.push(("C01:false-pass".into(), "reported as matching although the lines are not in the language of the expectations".into()));
            }
            if let Err(e) = conservation(&d, qs, mt, &lines) {
                fails.push(("C02:conservation".into(), e));
            }
            if det(qs, mt, m) && mem && hd {
                fails.push(("C03:false-failure".into(), "deterministic expectations describe the output but differences are reported".into()));
            }
            // the same judgement through `TestCase::validate` (what `scrut test` calls), on the stream as it is and
            // without its final line feed (same lines for these rules, same verdict required)
            let mut variants: Vec<(&str, Vec<u8>)> = vec![("as-is", output.to_vec())];
            if newline_invariant && output.ends_with(b"\n") {
                variants.push(("no-final-newline", output[..output.len() - 1].to_vec()));
            }
            // … and with the stream on STDERR (`output_stream: stderr`, nothing on STDOUT): the judged stream is the selected one
            variants.push(("on-stderr", output.to_vec()));
            for (name, bytes) in variants {
                let on_stderr = name == "on-stderr";
                let config = if on_stderr { scrut::config::TestCaseConfig { output_stream: Some(scrut::config::OutputStreamControl::Stderr), ..scrut::config::TestCaseConfig::default_markdown() } } else { scrut::config::TestCaseConfig::default_markdown() };
                let tc = scrut::testcase::TestCase { title: String::new(), shell_expression: "x".into(), expectations: exps2.clone(), exit_code: None, line_number: 1, config };
                let out = if on_stderr {
                    scrut::output::Output { stdout: vec![].into(), stderr: bytes.clone().into(), exit_code: scrut::output::ExitStatus::Code(0) }
                } else {
                    scrut::output::Output { stdout: bytes.clone().into(), stderr: b"noise on the other stream\n".to_vec().into(), exit_code: scrut::output::ExitStatus::Code(0) }
                };
                match guarded(|| tc.validate(&out)) {
                    Err(p) => fails.push(("C02:crash".to_string(), format!("TestCase::validate panicked ({name}): {p}"))),
                    Ok(Ok(())) => {
                        if !mem {
                            fails.push(("C01:false-pass".into(), format!("TestCase::validate ({name}) accepts the stream although its lines are not in the language of the expectations")));
                        }
                    }
                    Ok(Err(_)) => {
                        if det(qs, mt, m) && mem {
                            fails.push(("C03:false-failure".into(), format!("TestCase::validate ({name}) rejects a stream that deterministic expectations describe")));
                        }
                    }
                }
            }
            Eval { impl_out: canon_diff(&d), fails, has_diff: Some(hd) }
        }
    }
}

fn op_line(qs: &[Q], m: usize, bits: &str) -> String {
    let q: String = qs.iter().map(|q| q_char(*q)).collect();
    format!("diff {} {} {}", if q.is_empty() { "-" } else { &q }, m, if bits.is_empty() { "-" } else { bits })
}

fn nontrivial(qs: &[Q], bits: &str) -> bool {
    qs.iter().any(|q| q.optional || q.multiline) && bits.contains('1') && bits.contains('0')
}

fn tags(qs: &[Q], m: usize, bits: &str, ev: &Eval) -> Vec<String> {
    let mtf = |i: usize, j: usize| bits.as_bytes()[i * m + j] == b'1';
    let d = det(qs, &mtf, m);
    let mem = member(qs, &mtf, m);
    vec![
        format!("n={}", qs.len()),
        format!("m={}", m),
        format!("det={}", d),
        format!("member={}", mem),
        format!("verdict={}", match ev.has_diff { Some(true) => "differences", Some(false) => "match", None => "crash" }),
        format!("det&member={}", d && mem),
    ]
}

fn filter_fails(prop: &str, fails: Vec<(String, String)>) -> Vec<(String, String)> {
    // every oracle runs for every property; a check reports only its own property's classes
    fails.into_iter().filter(|(c, _)| c.starts_with(prop) || c == "harness-panic").collect()
}

/// all (n, m) sizes of a scope with their case counts
fn scope(sizes: &[(usize, usize)]) -> (Vec<(usize, usize, u64)>, u64) {
    let mut v = vec![];
    let mut total = 0u64;
    for &(n, m) in sizes {
        let c = 4u64.pow(n as u32) * 2u64.pow((n * m) as u32);
        v.push((n, m, total));
        total += c;
    }
    (v, total)
}

fn decode(sc: &[(usize, usize, u64)], idx: u64) -> (Vec<Q>, usize, String) {
    let (n, m, base) = *sc.iter().rev().find(|(_, _, b)| *b <= idx).unwrap();
    let mut r = idx - base;
    let mut qs = vec![];
    for _ in 0..n {
        qs.push(QS[(r % 4) as usize]);
        r /= 4;
    }
    let mut bits = String::with_capacity(n * m);
    for _ in 0..n * m {
        bits.push(if r & 1 == 1 { '1' } else { '0' });
        r >>= 1;
    }
    (qs, m, bits)
}

fn output_for(m: usize) -> Vec<u8> {
    let mut o = vec![];
    for j in 0..m {
        o.extend_from_slice(format!("{j}\n").as_bytes());
    }
    o
}

thread_local! {
    static BITS_CACHE: std::cell::RefCell<std::collections::HashMap<String, Expectation>> = std::cell::RefCell::new(std::collections::HashMap::new());
}
/// parse through the real `ExpectationMaker`; parsed expectations are cached per thread by their
/// text (parsing compiles a regex every time)
fn parse_cached(mk: &ExpectationMaker, line: String) -> Expectation {
    BITS_CACHE.with(|c| {
        let mut c = c.borrow_mut();
        if c.len() > 50_000 {
            c.clear();
        }
        c.entry(line.clone()).or_insert_with(|| mk.parse(&line).expect("expectation parses")).clone()
    })
}

fn bits_case(mk: &ExpectationMaker, prop: &str, qs: &[Q], m: usize, bits: &str) -> CaseRec {
    let exps: Vec<Expectation> = qs
        .iter()
        .enumerate()
        .map(|(i, q)| parse_cached(mk, format!("{} (bits{})", &bits[i * m..(i + 1) * m], q_suffix(*q))))
        .collect();
    let mtf = |i: usize, j: usize| bits.as_bytes()[i * m + j] == b'1';
    let ev = eval_nl(exps, qs, &output_for(m), &mtf, true);
    CaseRec { op: op_line(qs, m, bits), nontrivial: nontrivial(qs, bits), tags: tags(qs, m, bits, &ev), impl_out: ev.impl_out, oracle_fail: filter_fails(prop, ev.fails) }
}

/// the same matrix realised with real `regex` rules over distinct line texts
fn regex_case(mk: &ExpectationMaker, prop: &str, qs: &[Q], m: usize, bits: &str) -> CaseRec {
    regex_case_with(mk, prop, qs, m, bits, false)
}

/// `self_anchored`: the lines are prefixes of one another (`a`, `aa`, `aaa`, ..) and the expression is written with its
/// own anchors around a top-level alternation (`^a|aaa$`): as a regular expression for the WHOLE line that still means
/// "one of the alternatives", whereas unwrapped it would accept every line that merely starts or ends like one
fn regex_case_with(mk: &ExpectationMaker, prop: &str, qs: &[Q], m: usize, bits: &str, self_anchored: bool) -> CaseRec {
    let text = |j: usize| if self_anchored { "a".repeat(j + 1) } else { format!("line{j}x") };
    let exps: Vec<Expectation> = qs
        .iter()
        .enumerate()
        .map(|(i, q)| {
            let alts: Vec<String> = (0..m).filter(|j| bits.as_bytes()[i * m + j] == b'1').map(text).collect();
            let re = if alts.is_empty() { "nomatch".to_string() } else if self_anchored { format!("^{}$", alts.join("|")) } else { format!("(?:{})", alts.join("|")) };
            parse_cached(mk, format!("{} (regex{})", re, q_suffix(*q)))
        })
        .collect();
    let mut out = vec![];
    for j in 0..m {
        out.extend_from_slice(text(j).as_bytes());
        out.push(b'\n');
    }
    let mtf = |i: usize, j: usize| bits.as_bytes()[i * m + j] == b'1';
    let ev = eval_nl(exps, qs, &out, &mtf, true);
    CaseRec { op: op_line(qs, m, bits), nontrivial: nontrivial(qs, bits), tags: vec![if self_anchored { "realised=regex-self-anchored".into() } else { "realised=regex".into() }], impl_out: ev.impl_out, oracle_fail: filter_fails(prop, ev.fails) }
}

/// random expectations of the real kinds against a nearly matching output; the matrix is what
/// the real rules say, the model is run on that matrix.
fn real_case(mk: &ExpectationMaker, prop: &str, rng: &mut Rng) -> CaseRec {
    let words = ["foo", "bar", "baz", "foo bar", "", "a*b", "x.y", "b\\d", "\t", "é"];
    let n = rng.range(0, 8);
    let mut exp_lines = vec![];
    let mut qs = vec![];
    let mut base_out: Vec<Vec<u8>> = vec![];
    for _ in 0..n {
        let w = *rng.pick(&words);
        let q = *rng.pick(&QS);
        let kind = rng.below(6);
        let (line, sample): (String, Vec<u8>) = match kind {
            0 => (format!("{w}{}", if q_suffix(q).is_empty() { "".to_string() } else { format!(" ({})", q_suffix(q)) }), format!("{w}\n").into_bytes()),
            1 => (format!("{w}* (glob{})", q_suffix(q)), format!("{w}zz\n").into_bytes()),
            2 => (format!("{}.* (regex{})", regex::escape(w), q_suffix(q)), format!("{w}qq\n").into_bytes()),
            3 => (format!("{w}\\x01 (escaped{})", q_suffix(q)), { let mut v = w.replace("\\d", "\\d").into_bytes(); v.push(1); v.push(b'\n'); v }),
            4 => (format!("{w} (no-eol{})", q_suffix(q)), w.as_bytes().to_vec()),
            _ => (format!("{w} (equal{})", q_suffix(q)), format!("{w}\n").into_bytes()),
        };
        // lines that would be parsed differently than intended are fine: the matrix is computed from the parsed rule
        exp_lines.push(line);
        qs.push(q);
        let reps = if q.multiline { rng.range(1, 3) } else { 1 };
        if !(q.optional && rng.chance(1, 3)) {
            for _ in 0..reps {
                base_out.push(sample.clone());
            }
        }
    }
    // perturb: delete / duplicate / insert a line
    for _ in 0..rng.range(0, 2) {
        if base_out.is_empty() {
            break;
        }
        let p = rng.below(base_out.len() as u64) as usize;
        match rng.below(3) {
            0 => {
                base_out.remove(p);
            }
            1 => {
                let l = base_out[p].clone();
                base_out.insert(p, l);
            }
            _ => base_out.insert(p, b"unrelated\n".to_vec()),
        }
    }
    let mut out: Vec<u8> = vec![];
    for l in &base_out {
        out.extend_from_slice(l);
        if !l.ends_with(b"\n") {
            out.push(b'\n');
        }
    }
    if rng.chance(1, 4) && out.ends_with(b"\n") {
        out.pop();
    }
    let mut exps = vec![];
    let mut qs2 = vec![];
    for (l, _q) in exp_lines.iter().zip(qs.iter()) {
        if let Ok(e) = mk.parse(l) {
            qs2.push(Q { optional: e.optional, multiline: e.multiline });
            exps.push(e);
        }
    }
    let lines = split_lines(&out);
    let m = lines.len();
    let mut bits = String::new();
    for e in &exps {
        for l in &lines {
            bits.push(if e.matches(l) { '1' } else { '0' });
        }
    }
    let bits2 = bits.clone();
    let mtf = move |i: usize, j: usize| bits2.as_bytes()[i * m + j] == b'1';
    let ev = eval(exps, &qs2, &out, &mtf);
    let mut t = tags(&qs2, m, &bits, &ev);
    t.push("realised=real-kinds".into());
    CaseRec { op: op_line(&qs2, m, &bits), nontrivial: nontrivial(&qs2, &bits), tags: t, impl_out: ev.impl_out, oracle_fail: filter_fails(prop, ev.fails) }
}

/// random larger matrices through the bits rule, biased towards nearly matching outputs
fn big_case(mk: &ExpectationMaker, prop: &str, rng: &mut Rng) -> CaseRec {
    let n = rng.range(1, 12);
    let qs: Vec<Q> = (0..n).map(|_| *rng.pick(&QS)).collect();
    // build a member line sequence first: walk the expectations
    let mut owner = vec![];
    for (i, q) in qs.iter().enumerate() {
        if q.optional && rng.chance(1, 3) {
            continue;
        }
        let reps = if q.multiline { rng.range(1, 3) } else { 1 };
        for _ in 0..reps {
            owner.push(i);
        }
    }
    for _ in 0..rng.range(0, 2) {
        if owner.is_empty() {
            break;
        }
        let p = rng.below(owner.len() as u64) as usize;
        match rng.below(3) {
            0 => {
                owner.remove(p);
            }
            1 => {
                let l = owner[p];
                owner.insert(p, l);
            }
            _ => owner.insert(p, usize::MAX),
        }
    }
    let m = owner.len().min(12);
    let density = rng.range(0, 3);
    let mut bits = String::new();
    for i in 0..n {
        for j in 0..m {
            let b = owner[j] == i || rng.chance(density as u64, 10);
            bits.push(if b { '1' } else { '0' });
        }
    }
    let mut c = bits_case(mk, prop, &qs, m, &bits);
    c.tags.push("realised=bits-random".into());
    c
}

/// lines that keep their carriage return (`keep_crlf`, Cram) against expectations that name it, in the forms the
/// documentation gives (`Foo\r (escaped)`, `^Foo\r$ (regex)`, the raw line as `equal`): the expected match matrix is
/// known by construction -- expectation i describes line i and no other -- so the oracles do not depend on what the
/// real rules say. Variant bit: one expectation is written WITHOUT the CR and must then not match its line.
fn crlf_case(mk: &ExpectationMaker, prop: &str, idx: u64) -> CaseRec {
    let words = ["Foo", "Bar", "b a z", "x.y"];
    let mut r = idx;
    let mut take = |n: u64| {
        let v = r % n;
        r /= n;
        v as usize
    };
    let n = 1 + take(3);
    let drop_cr = take(2) == 1;
    let victim = take(3) % n;
    let mut exps = vec![];
    let mut out: Vec<u8> = vec![];
    let mut diag = vec![];
    for i in 0..n {
        let w = format!("{}{i}", words[take(4)]);
        let form = take(3);
        let named = !(drop_cr && i == victim);
        let cr_txt = if named { "\\r" } else { "" };
        let line = match form {
            0 => format!("{w}{cr_txt} (escaped)"),
            1 => format!("^{}{cr_txt}$ (regex)", regex::escape(&w)),
            _ => format!("{w}{} (equal)", if named { "\r" } else { "" }),
        };
        match mk.parse(&line) {
            Ok(e) => exps.push(e),
            Err(_) => return CaseRec { op: "noop".into(), impl_out: "ok".into(), oracle_fail: vec![], nontrivial: false, tags: vec!["crlf:unparsable".into()] },
        }
        diag.push(named);
        out.extend_from_slice(format!("{w}\r\n").as_bytes());
    }
    let qs = vec![QS[0]; n];
    let d2 = diag.clone();
    let mtf = move |i: usize, j: usize| i == j && d2[i];
    let ev = eval(exps, &qs, &out, &mtf);
    let bits: String = (0..n).flat_map(|i| (0..n).map(move |j| (i, j))).map(|(i, j)| if i == j && diag[i] { '1' } else { '0' }).collect();
    // the model is run on the matrix the documentation promises; the real diff must agree with it
    CaseRec { op: op_line(&qs, n, &bits), nontrivial: true, tags: vec!["realised=crlf-lines".into(), format!("crlf:cr-omitted={drop_cr}")], impl_out: ev.impl_out, oracle_fail: filter_fails(prop, ev.fails) }
}

pub fn run(ctx: &Ctx, prop: &str) {
    let mut sizes = vec![];
    for n in 0..=3 {
        for m in 0..=4 {
            sizes.push((n, m));
        }
    }
    if ctx.thorough {
        for n in 0..=3 {
            sizes.push((n, 5));
        }
        for m in 0..=4 {
            sizes.push((4, m));
        }
    }
    let (sc, total) = scope(&sizes);
    ctx.note(format!("exhaustive scope: all quantifier vectors x all match matrices for sizes {:?} = {} cases through the real ExpectationMaker+DiffTool via a registered `bits` rule", sizes, total));
    ctx.run_stream("bits-exhaustive", total, true, |idx| {
        let mk = maker();
        let (qs, m, bits) = decode(&sc, idx);
        Some(bits_case(&mk, prop, &qs, m, &bits))
    });
    // regex-realised: n<=2, m<=3 exhaustive
    let mut rs = vec![];
    for n in 0..=2 {
        for m in 0..=3 {
            rs.push((n, m));
        }
    }
    let (rsc, rtotal) = scope(&rs);
    ctx.run_stream("regex-realised-exhaustive", rtotal, true, |idx| {
        let mk = maker();
        let (qs, m, bits) = decode(&rsc, idx);
        Some(regex_case(&mk, prop, &qs, m, &bits))
    });
    ctx.run_stream("regex-self-anchored-exhaustive", rtotal, true, |idx| {
        let mk = maker();
        let (qs, m, bits) = decode(&rsc, idx);
        Some(regex_case_with(&mk, prop, &qs, m, &bits, true))
    });
    // newline splitting: all strings over {a, LF, CR} up to length 7, plus random bytes
    let mut soff = vec![];
    let mut stotal = 0u64;
    for len in 0..=7u32 {
        soff.push((len, stotal));
        stotal += 3u64.pow(len);
    }
    ctx.run_stream("split-exhaustive", stotal, true, |idx| {
        let (len, base) = *soff.iter().rev().find(|(_, b)| *b <= idx).unwrap();
        let mut r = idx - base;
        let mut v = vec![];
        for _ in 0..len {
            v.push([b'a', b'\n', b'\r'][(r % 3) as usize]);
            r /= 3;
        }
        Some(split_case(prop, &v))
    });
    let nrand = if ctx.thorough { 1_000_000 } else { 20_000 };
    let seed = ctx.seed;
    ctx.run_stream("split-random", nrand / 10, false, |idx| {
        let mut rng = Rng::fork(seed, 3, idx);
        let len = rng.range(0, 40);
        let v: Vec<u8> = (0..len).map(|_| if rng.chance(1, 4) { b'\n' } else { rng.below(256) as u8 }).collect();
        Some(split_case(prop, &v))
    });
    ctx.run_stream("crlf-lines-exhaustive", 3 * 2 * 3 * 12 * 12 * 12, true, |idx| {
        let mk = maker();
        Some(crlf_case(&mk, prop, idx))
    });
    ctx.run_stream("real-kinds-random", nrand, false, |idx| {
        let mk = maker();
        let mut rng = Rng::fork(seed, 1, idx);
        Some(real_case(&mk, prop, &mut rng))
    });
    ctx.run_stream("bits-random-large", nrand, false, |idx| {
        let mk = maker();
        let mut rng = Rng::fork(seed, 2, idx);
        Some(big_case(&mk, prop, &mut rng))
    });
}

/// `split_at_newline` is crate-private: it is observed through `DiffTool::new(vec![]).diff(out)`, whose
/// single unexpected-lines entry lists every line with its content
fn split_case(prop: &str, out: &[u8]) -> CaseRec {
    let mut fails = vec![];
    let r = guarded(|| DiffTool::new(vec![]).diff(out));
    let impl_out = match r {
        Ok(Ok(d)) => {
            let mut lines: Vec<Vec<u8>> = vec![];
            for l in &d.lines {
                if let DiffLine::UnexpectedLines { lines: ls } = l {
                    for (i, c) in ls {
                        if *i != lines.len() {
                            fails.push(("C02:line-index".to_string(), format!("line index {i} at position {}", lines.len())));
                        }
                        lines.push(c.clone());
                    }
                }
            }
            if lines.concat() != out {
                fails.push(("C02:lines-do-not-concatenate".to_string(), "the lines of the result do not concatenate back to the output".to_string()));
            }
            if lines.iter().any(|l| l.is_empty() || l[..l.len() - 1].contains(&b'\n')) {
                fails.push(("C02:line-shape".to_string(), "a line is empty or holds an inner newline".to_string()));
            }
            if lines.is_empty() { "-".to_string() } else { lines.iter().map(|l| l.len().to_string()).collect::<Vec<_>>().join(",") }
        }
        Ok(Err(_)) => "error".to_string(),
        Err(p) => {
            fails.push(("C02:crash".to_string(), p));
            "crash".to_string()
        }
    };
    CaseRec { op: format!("split {}", hex(out)), impl_out, oracle_fail: filter_fails(prop, fails), nontrivial: out.contains(&b'\n') && out.len() >= 2, tags: vec!["split".into()] }
}

/// replay: `<quants> <m> <bits>` through the bits rule; prints the real result and the oracle verdicts
pub fn replay(op: &str) -> bool {
    let parts: Vec<&str> = op.split_whitespace().collect();
    if parts.len() != 4 {
        eprintln!("replay expects: diff <quants> <m> <bits>");
        return false;
    }
    let qs: Vec<Q> = if parts[1] == "-" { vec![] } else { parts[1].chars().map(|c| match c { '?' => QS[1], '*' => QS[2], '+' => QS[3], _ => QS[0] }).collect() };
    let m: usize = parts[2].parse().unwrap();
    let bits = if parts[3] == "-" { "" } else { parts[3] };
    let c = bits_case(&maker(), "C0", &qs, m, bits);
    println!("impl: {}", c.impl_out);
    for (cl, d) in &c.oracle_fail {
        println!("oracle-failure {cl}: {d}");
    }
    c.oracle_fail.is_empty()
}
