//! Shared machinery: PRNG, parallel case evaluation, model driver pool, report.
use std::collections::hash_map::DefaultHasher;
use std::collections::{BTreeMap, HashSet};
use std::hash::{Hash, Hasher};
use std::io::{BufRead, BufReader, Write};
use std::process::{Command, Stdio};
use std::sync::Mutex;

#[derive(Clone)]
pub struct Rng(pub u64);
impl Rng {
    pub fn new(seed: u64) -> Self {
        Rng(seed ^ 0x9E3779B97F4A7C15)
    }
    pub fn fork(seed: u64, stream: u64, idx: u64) -> Self {
        let mut r = Rng(seed.wrapping_mul(0xD1342543DE82EF95) ^ stream.wrapping_mul(0xA24BAED4963EE407) ^ idx.wrapping_mul(0x9FB21C651E98DF25));
        r.next();
        r.next();
        r
    }
    pub fn next(&mut self) -> u64 {
        self.0 = self.0.wrapping_add(0x9E3779B97F4A7C15);
        let mut z = self.0;
        z = (z ^ (z >> 30)).wrapping_mul(0xBF58476D1CE4E5B9);
        z = (z ^ (z >> 27)).wrapping_mul(0x94D049BB133111EB);
        z ^ (z >> 31)
    }
    pub fn below(&mut self, n: u64) -> u64 {
        if n == 0 { 0 } else { self.next() % n }
    }
    pub fn range(&mut self, lo: usize, hi: usize) -> usize {
        lo + self.below((hi - lo + 1) as u64) as usize
    }
    pub fn chance(&mut self, num: u64, den: u64) -> bool {
        self.below(den) < num
    }
    pub fn pick<'a, T>(&mut self, xs: &'a [T]) -> &'a T {
        &xs[self.below(xs.len() as u64) as usize]
    }
}

pub fn hex(bytes: &[u8]) -> String {
    if bytes.is_empty() {
        return "-".to_string();
    }
    let mut s = String::with_capacity(bytes.len() * 2);
    for b in bytes {
        s.push_str(&format!("{:02x}", b));
    }
    s
}
pub fn unhex(s: &str) -> Vec<u8> {
    if s == "-" {
        return vec![];
    }
    (0..s.len() / 2).map(|i| u8::from_str_radix(&s[2 * i..2 * i + 2], 16).unwrap()).collect()
}

/// One evaluated case.
pub struct CaseRec {
    /// the line sent to the Lean model driver
    pub op: String,
    /// canonical output of the real implementation for the same case
    pub impl_out: String,
    /// direct-oracle failures on the real implementation (class, description)
    pub oracle_fail: Vec<(String, String)>,
    /// non-trivial by the property's stated rule
    pub nontrivial: bool,
    /// histogram tags
    pub tags: Vec<String>,
}

#[derive(Default, serde::Serialize)]
pub struct Report {
    pub streams: BTreeMap<String, StreamStat>,
    pub evaluations: u64,
    pub distinct_nontrivial: u64,
    pub samples: Vec<serde_json::Value>,
    pub histogram: BTreeMap<String, u64>,
    pub n_disagreements: u64,
    pub disagreements: Vec<serde_json::Value>,
    pub n_oracle_failures: u64,
    pub oracle_failures: Vec<serde_json::Value>,
    pub oracle_failure_classes: BTreeMap<String, u64>,
    pub notes: Vec<String>,
    pub exhaustive_streams: Vec<String>,
    #[serde(skip)]
    seen: HashSet<u64>,
}

#[derive(Default, serde::Serialize, Clone)]
pub struct StreamStat {
    pub cases: u64,
    pub nontrivial: u64,
    pub disagreements: u64,
    pub oracle_failures: u64,
    pub exhaustive: bool,
}

fn h64(s: &str) -> u64 {
    let mut h = DefaultHasher::new();
    s.hash(&mut h);
    h.finish()
}

pub struct Ctx {
    pub driver: String,
    pub threads: usize,
    pub seed: u64,
    pub thorough: bool,
    pub report: Mutex<Report>,
}

impl Ctx {
    /// Runs the model driver on a batch of op lines.
    pub fn run_model(&self, ops: &[String]) -> Vec<String> {
        let mut child = Command::new(&self.driver)
            .stdin(Stdio::piped())
            .stdout(Stdio::piped())
            .stderr(Stdio::inherit())
            .spawn()
            .expect("cannot start the Lean model driver");
        let mut stdin = child.stdin.take().unwrap();
        let stdout = child.stdout.take().unwrap();
        let res = std::thread::scope(|s| {
            let w = s.spawn(move || {
                let mut buf = Vec::with_capacity(1 << 16);
                for op in ops {
                    buf.extend_from_slice(op.as_bytes());
                    buf.push(b'\n');
                    if buf.len() > (1 << 16) {
                        if stdin.write_all(&buf).is_err() {
                            return;
                        }
                        buf.clear();
                    }
                }
                let _ = stdin.write_all(&buf);
                drop(stdin);
            });
            let mut out = Vec::with_capacity(ops.len());
            for line in BufReader::new(stdout).lines() {
                out.push(line.unwrap_or_else(|_| "<non-utf8 model output>".into()));
            }
            let _ = w.join();
            out
        });
        let _ = child.wait();
        res
    }

    /// Evaluate `total` cases of stream `stream` in parallel; `make(idx)` builds and evaluates
    /// one case on the real implementation. Cases are piped through the model and compared.
    pub fn run_stream<F>(&self, stream: &str, total: u64, exhaustive: bool, make: F)
    where
        F: Fn(u64) -> Option<CaseRec> + Sync,
    {
        let t0 = std::time::Instant::now();
        let chunk = if total > 2_000_000 { 50_000u64 } else { (total / (4 * self.threads as u64)).clamp(1, 20_000) };
        let nchunks = (total + chunk - 1) / chunk;
        let next = Mutex::new(0u64);
        std::thread::scope(|s| {
            for _ in 0..self.threads.min(nchunks.max(1) as usize) {
                s.spawn(|| loop {
                    let c = {
                        let mut g = next.lock().unwrap();
                        let c = *g;
                        *g += 1;
                        c
                    };
                    if c >= nchunks {
                        break;
                    }
                    let lo = c * chunk;
                    let hi = ((c + 1) * chunk).min(total);
                    let mut recs = Vec::with_capacity((hi - lo) as usize);
                    for idx in lo..hi {
                        let r = std::panic::catch_unwind(std::panic::AssertUnwindSafe(|| make(idx)));
                        match r {
                            Ok(Some(r)) => recs.push(r),
                            Ok(None) => {}
                            Err(_) => recs.push(CaseRec {
                                op: format!("harness-panic {stream} {idx}"),
                                impl_out: "harness-panic".into(),
                                oracle_fail: vec![("harness-panic".into(), format!("case {idx} of stream {stream} panicked outside the guarded call"))],
                                nontrivial: false,
                                tags: vec![],
                            }),
                        }
                    }
                    let ops: Vec<String> = recs.iter().map(|r| r.op.clone()).collect();
                    let model = self.run_model(&ops);
                    self.merge(stream, exhaustive, recs, model);
                });
            }
        });
        eprintln!("[harness] stream {stream}: {total} cases in {:.1}s", t0.elapsed().as_secs_f64());
    }

    fn merge(&self, stream: &str, exhaustive: bool, recs: Vec<CaseRec>, model: Vec<String>) {
        let mut rep = self.report.lock().unwrap();
        let rep = &mut *rep;
        if exhaustive && !rep.exhaustive_streams.iter().any(|s| s == stream) {
            rep.exhaustive_streams.push(stream.to_string());
        }
        let mut st = rep.streams.get(stream).cloned().unwrap_or_default();
        st.exhaustive = exhaustive;
        if model.len() != recs.len() {
            rep.n_disagreements += 1;
            st.disagreements += 1;
            rep.disagreements.push(serde_json::json!({"stream": stream, "error": format!("model driver returned {} lines for {} ops", model.len(), recs.len())}));
        }
        for (i, r) in recs.iter().enumerate() {
            rep.evaluations += 1;
            st.cases += 1;
            for t in &r.tags {
                *rep.histogram.entry(t.clone()).or_insert(0) += 1;
            }
            let m = model.get(i).map(|s| s.as_str()).unwrap_or("<missing>");
            if r.nontrivial {
                st.nontrivial += 1;
                if rep.seen.insert(h64(&r.op)) {
                    rep.distinct_nontrivial += 1;
                    if rep.samples.len() < 6 && (rep.distinct_nontrivial % 97 == 1) {
                        rep.samples.push(serde_json::json!({"stream": stream, "op": r.op, "impl": r.impl_out, "model": m}));
                    }
                }
            }
            if m != r.impl_out {
                rep.n_disagreements += 1;
                st.disagreements += 1;
                if rep.disagreements.len() < 20 {
                    rep.disagreements.push(serde_json::json!({"stream": stream, "op": r.op, "impl": r.impl_out, "model": m}));
                }
            }
            for (class, desc) in &r.oracle_fail {
                rep.n_oracle_failures += 1;
                st.oracle_failures += 1;
                *rep.oracle_failure_classes.entry(class.clone()).or_insert(0) += 1;
                let have = rep.oracle_failures.iter().filter(|f| f["class"] == class.as_str()).count();
                if have < 5 {
                    rep.oracle_failures.push(serde_json::json!({"stream": stream, "class": class, "what": desc, "op": r.op, "impl": r.impl_out}));
                }
            }
        }
        rep.streams.insert(stream.to_string(), st);
    }

    pub fn note(&self, s: String) {
        self.report.lock().unwrap().notes.push(s);
    }
}

/// Run a closure that calls into scrut, mapping panics to Err(message).
pub fn guarded<T>(f: impl FnOnce() -> T) -> Result<T, String> {
    std::panic::catch_unwind(std::panic::AssertUnwindSafe(f)).map_err(|e| {
        if let Some(s) = e.downcast_ref::<String>() {
            s.clone()
        } else if let Some(s) = e.downcast_ref::<&str>() {
            s.to_string()
        } else {
            "panic".to_string()
        }
    })
}
