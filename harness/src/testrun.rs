//! C05 / C20 end to end against the INTEGRATED model: `scrut test -r json <one Markdown document>` with the real
//! binary vs. `Model/TestRun.lean` (`testdoc` op), which composes the piece models (read_file, Markdown parser,
//! expectation grammar, rule construction and matching of the kinds equal / no-eol / escaped / glob, inline
//! configuration, `render_output`, `split_at_newline`, the greedy matcher, `validate`, executor loop, result mapping,
//! exit status) in the order of the real code path.
//!
//! Every other stream ties ONE piece to its model; a defect in the glue between the pieces (which stream is compared,
//! which output goes with which test case, how the texts of a block become rules) is only visible here.
//!
//! The commands of the generated documents have KNOWN output: `cat <abs>/pK.out; cat <abs>/pK.err >&2; (exit N)`.
//! The model gets the bytes of the document and, per test, (payload stdout, payload stderr, N); the canonical line of
//! the implementation is built from the JSON the binary prints and its exit status.
//!
//! The single-script path (Cram documents `doc.t`, Markdown documents under `--cram-compat`; ops `testcram` / `testdocc`)
//! is in `testrun_script.rs`, which reuses the generators of this file.
use crate::common::*;
use crate::generate::{c10_generated_text, keep};
use scrut::config::{OutputStreamControl, TestCaseConfig};
use scrut::escaping::Escaper;
use scrut::expectation::ExpectationMaker;
use scrut::rules::registry::RuleRegistry;
use scrut::outcome::Outcome;
use scrut::output::{ExitStatus, Output};
use scrut::parsers::parser::ParserType;
use scrut::testcase::TestCase;
use std::path::{Path, PathBuf};

const STREAM: u64 = 71;

pub(crate) fn scrut_bin() -> String {
    std::env::var("SCRUT_BIN").unwrap_or("/verif/.build/repo-target/debug/scrut".into())
}

pub(crate) fn tmproot(what: &str) -> PathBuf {
    let base = std::env::temp_dir();
    let ok = base.to_str().map_or(false, |s| s.starts_with('/') && s.chars().all(|c| c.is_ascii_alphanumeric() || "/_-.".contains(c)));
    let base = if ok { base } else { PathBuf::from("/tmp") };
    base.join(format!("scrut-verif-testdoc-{what}-{}", std::process::id()))
}

/// lines the payloads are made of: plain text (few, so that repeats occur), trailing blanks, wildcard characters,
/// control bytes, ANSI sequences, non-ASCII and invalid UTF-8, and lines shaped like document syntax
pub(crate) const LINES: [&[u8]; 37] = [
    b"C:\\Users\\me", b"a\\bc", b"total: *", b"x", b"x", b"foo", b"foo", b"foo ", b"foo  ", b"bar", b"alpha", b"beta gamma", b"line 3", b"  indented", b"", b"0123",
    b"a*b", b"what?", b"back\\slash", b"tab\there", b"bell\x07", b"esc \x1b[1mbold\x1b[0m", b"caf\xc3\xa9", b"\xe2\x9c\x93 ok",
    b"bad \xff byte", b"foo (glob)", b"bar (?)", b"baz (no-eol)", b"[3]", b"$ dollar", b"> greater", b"# hash", b"cr\rmid",
    b"``` ticks", b"x (escaped)", b"y (esc)", b"tail\\",
];

#[derive(Clone, Copy, PartialEq, Debug)]
pub(crate) enum Cfg {
    None,
    Stderr,
    Stdout,
    Combined,
    KeepCrlf,
    NoKeepCrlf,
    StripAnsi,
    Skip3,
    TimeoutStderr,
}

impl Cfg {
    pub(crate) fn text(self) -> &'static str {
        match self {
            Cfg::None => "",
            Cfg::Stderr => " {output_stream: stderr}",
            Cfg::Stdout => " {output_stream: stdout}",
            Cfg::Combined => " {output_stream: combined}",
            Cfg::KeepCrlf => " {keep_crlf: true}",
            Cfg::NoKeepCrlf => " {keep_crlf: false}",
            Cfg::StripAnsi => " {strip_ansi_escaping: true}",
            Cfg::Skip3 => " {skip_document_code: 3}",
            Cfg::TimeoutStderr => " {timeout: 5s, output_stream: stderr}",
        }
    }
    /// the configuration the parser builds for the block (inline over `default_markdown`)
    pub(crate) fn config(self) -> TestCaseConfig {
        let mut c = TestCaseConfig::default_markdown();
        match self {
            Cfg::None => {}
            Cfg::Stderr => c.output_stream = Some(OutputStreamControl::Stderr),
            Cfg::Stdout => c.output_stream = Some(OutputStreamControl::Stdout),
            Cfg::Combined => c.output_stream = Some(OutputStreamControl::Combined),
            Cfg::KeepCrlf => c.keep_crlf = Some(true),
            Cfg::NoKeepCrlf => c.keep_crlf = Some(false),
            Cfg::StripAnsi => c.strip_ansi_escaping = Some(true),
            Cfg::Skip3 => c.skip_document_code = Some(3),
            Cfg::TimeoutStderr => {
                c.timeout = Some(std::time::Duration::from_secs(5));
                c.output_stream = Some(OutputStreamControl::Stderr)
            }
        }
        c
    }
    pub(crate) fn skip_code(self) -> i32 {
        if self == Cfg::Skip3 {
            3
        } else {
            80
        }
    }
}

#[derive(Clone, Copy, PartialEq, Debug)]
pub(crate) enum Mode {
    /// the expectations are exactly the lines of the test's own output, as scrut writes them
    Exact,
    /// … with quantifiers on some
    Quantified,
    /// … with some lines turned into globs (right and wrong ones)
    Globbed,
    /// … with optional expectations in between that match nothing (or something)
    OptionalNoise,
    /// a multiline expectation over a run of lines, followed by the rest; the next expectation may match the last
    /// line of the run
    MultilineRun,
    /// dropped / extra / changed / swapped expectations
    Stale,
    /// two or three such changes at once: some expectations still match, some lines are unexpected, some expectations
    /// match nothing (only generated by updaterun.rs)
    Mixed,
    /// no expectations
    Missing,
    /// the expectations describe the OTHER stream
    WrongStream,
    /// an expectation differs from its line in a trailing blank only
    NearMiss,
    /// a regex expectation: outside the composition (`unsupported`)
    Regex,
}

#[derive(Clone, Copy, PartialEq, Debug)]
pub(crate) enum Expected {
    /// the exit code the command ends in (absent for 0)
    Right,
    /// `[0]` written out for a command that exits 0
    RightExplicitZero,
    /// another code
    Wrong,
    /// no code line although the command does not exit 0
    Absent,
}

pub(crate) struct TSpec {
    pub(crate) out: Vec<u8>,
    pub(crate) err: Vec<u8>,
    pub(crate) code: i32,
    pub(crate) cfg: Cfg,
    pub(crate) mode: Mode,
    pub(crate) expected: Expected,
    pub(crate) comment: bool,
    /// body lines between `$ cmd` and the closing fence
    pub(crate) body: Vec<String>,
    /// NearMiss: an expectation was really changed (there was a plain one)
    pub(crate) near_miss_changed: bool,
}

#[derive(Clone, Copy, PartialEq, Debug)]
pub(crate) enum Broken {
    ExpectationBeforeCommand,
    ExitCodeTwice,
    BadInlineConfig,
    MissingLanguage,
    BadEscape,
    NotUtf8,
    BadEscapedGlob,
    ExtenderWithoutCommand,
}

pub(crate) struct Doc {
    pub(crate) tests: Vec<TSpec>,
    pub(crate) front_matter: bool,
    pub(crate) crlf_document: bool,
    pub(crate) broken: Option<(Broken, usize)>,
    /// indices into `filler_table`, per gap (one more gap than tests)
    pub(crate) fillers: Vec<Vec<usize>>,
    pub(crate) filler_table: &'static [&'static str],
    /// false: the document does not end in a line feed (updaterun.rs only)
    pub(crate) final_newline: bool,
    pub(crate) escaper: Escaper,
}

pub(crate) const FILLERS: [&str; 8] = ["Some prose.\n", "> quote\n", "    indented\n", "``inline`` code\n", "```python\nprint(1)\n$ not a test\n```\n", "### a heading\n", "text with ``` inside\n", "\n"];

pub(crate) fn payload(rng: &mut Rng) -> Vec<u8> {
    let n = match rng.below(10) {
        0 => 0,
        1..=3 => 1,
        4..=6 => 2,
        7 | 8 => 3,
        _ => rng.range(4, 6),
    };
    let crlf = rng.chance(1, 6);
    // a small pool per payload, so that lines repeat (multiline runs)
    let pool: Vec<&[u8]> = (0..rng.range(1, 3)).map(|_| if rng.chance(1, 2) { LINES[rng.below(11) as usize] } else { *rng.pick(&LINES) }).collect();
    let mut o = vec![];
    for k in 0..n {
        o.extend_from_slice(*rng.pick(&pool));
        if k + 1 < n || rng.chance(3, 4) {
            if crlf {
                o.push(b'\r');
            }
            o.push(b'\n');
        }
    }
    o
}

/// `replace_crlf`, re-stated: every CR that is directly followed by LF is dropped
pub(crate) fn drop_crlf(bytes: &[u8]) -> Vec<u8> {
    let mut v = Vec::with_capacity(bytes.len());
    for (i, b) in bytes.iter().enumerate() {
        if *b == b'\r' && bytes.get(i + 1) == Some(&b'\n') {
            continue;
        }
        v.push(*b);
    }
    v
}

/// the bytes the test's expectations are compared with, by the harness' own reading of the configuration (NOT by
/// `validate`: the direct oracle must not inherit a wrong choice of the stream from the code under test):
/// stderr iff `output_stream: stderr`, stdout followed by stderr under `combined`, else stdout; CR LF -> LF unless
/// `keep_crlf: true`; ANSI sequences removed under `strip_ansi_escaping: true` (library function, generation only)
fn selected_bytes(cfg: Cfg, out: &[u8], err: &[u8], other_stream: bool) -> Vec<u8> {
    let stderr_selected = matches!(cfg, Cfg::Stderr | Cfg::TimeoutStderr);
    let raw: Vec<u8> = match (cfg, stderr_selected != other_stream) {
        (Cfg::Combined, false) => [out, err].concat(),
        (Cfg::Combined, true) => vec![],
        (_, true) => err.to_vec(),
        (_, false) => out.to_vec(),
    };
    let raw = if cfg == Cfg::KeepCrlf { raw } else { drop_crlf(&raw) };
    if cfg == Cfg::StripAnsi {
        scrut::escaping::strip_ansi_sequences_bytes(&raw)
    } else {
        raw
    }
}

/// the expectation lines scrut itself writes for the selected stream: the library generator on an outcome of a
/// test without expectations. The selected bytes are put on BOTH streams of the outcome, so that the choice of
/// `validate` does not matter here.
pub(crate) fn own_lines(esc: &Escaper, cfg: Cfg, out: &[u8], err: &[u8], other_stream: bool) -> Vec<String> {
    let sel = selected_bytes(cfg, out, err, other_stream);
    let testcase = TestCase { title: "".into(), shell_expression: "cmd".into(), expectations: vec![], exit_code: None, line_number: 0, config: cfg.config() };
    let output = Output { stdout: sel.clone().into(), stderr: sel.into(), exit_code: ExitStatus::Code(0) };
    let result = testcase.validate(&output);
    let o = Outcome { location: None, output, testcase, escaping: esc.clone(), format: ParserType::Markdown, result };
    let text = c10_generated_text(&o).unwrap_or_default();
    text.lines().skip(1).map(|l| l.to_string()).collect()
}

/// the expectation lines scrut itself writes for the bytes `sel` (library generator, see `own_lines`)
pub(crate) fn own_lines_sel(esc: &Escaper, sel: Vec<u8>) -> Vec<String> {
    let testcase = TestCase { title: "".into(), shell_expression: "cmd".into(), expectations: vec![], exit_code: None, line_number: 0, config: TestCaseConfig::default_markdown() };
    let output = Output { stdout: sel.clone().into(), stderr: sel.into(), exit_code: ExitStatus::Code(0) };
    let result = testcase.validate(&output);
    let o = Outcome { location: None, output, testcase, escaping: esc.clone(), format: ParserType::Markdown, result };
    let text = c10_generated_text(&o).unwrap_or_default();
    text.lines().skip(1).map(|l| l.to_string()).collect()
}

const KIND_SUFFIXES: [&str; 4] = [" (escaped)", " (no-eol)", " (equal)", " (glob)"];

pub(crate) fn add_quant(exp: &str, q: char) -> String {
    for s in KIND_SUFFIXES {
        if exp.ends_with(s) {
            return format!("{}{q})", &exp[..exp.len() - 1]);
        }
    }
    format!("{exp} ({q})")
}

pub(crate) fn is_plain(exp: &str) -> bool {
    !exp.ends_with(')') && !exp.is_empty()
}

pub(crate) fn globbed(rng: &mut Rng, exp: &str) -> String {
    if exp.ends_with(" (escaped)") {
        // the escaped form of a glob expression: `GlobRule::make` resolves the escape sequences. A pattern has to be
        // UTF-8: the escaped form of a line that is not would make the document malformed (that case is generated on
        // purpose, `Broken::BadEscapedGlob`), such a line stays as it is
        let g = format!("{exp} (glob)");
        return if ExpectationMaker::new(RuleRegistry::default()).parse(&g).is_ok() { g } else { exp.to_string() };
    }
    if !is_plain(exp) {
        return exp.to_string();
    }
    let cs: Vec<char> = exp.chars().collect();
    let at = rng.below(cs.len() as u64) as usize;
    // a backslash directly in front of a wildcard: literal backslash + wildcard for the Markdown glob (wildmatch),
    // an escaped wildcard for the Cram glob -- which rule a document gets must not depend on other documents of the run
    if let Some(bs) = cs.iter().position(|c| *c == '\\') {
        if rng.chance(1, 2) {
            let pre: String = cs[..=bs].iter().collect();
            return match rng.below(3) {
                0 => format!("{pre}* (glob)"),
                1 => format!("{pre}?{} (glob)", cs[(bs + 2).min(cs.len())..].iter().collect::<String>()),
                _ => format!("{pre}\\* (glob)"),
            };
        }
    }
    if exp == "total: *" && rng.chance(1, 2) {
        return "total: \\* (glob)".to_string();
    }
    let pat: String = match rng.below(6) {
        0 => format!("{}?{}", cs[..at].iter().collect::<String>(), cs[at + 1..].iter().collect::<String>()),
        1 => format!("{}*", cs[..at].iter().collect::<String>()),
        2 => format!("*{}", cs[at..].iter().collect::<String>()),
        3 => "*".to_string(),
        // wrong ones
        4 => format!("{}Z{}", cs[..at].iter().collect::<String>(), cs[at + 1..].iter().collect::<String>()),
        _ => format!("{}??", exp),
    };
    let q = match rng.below(5) {
        0 => "?",
        1 => "+",
        _ => "",
    };
    format!("{pat} (glob{q})")
}

pub(crate) fn build_body(rng: &mut Rng, esc: &Escaper, t: &TSpec) -> Vec<String> {
    let own = own_lines(esc, t.cfg, &t.out, &t.err, false);
    build_body_from(rng, own, &|| own_lines(esc, t.cfg, &t.out, &t.err, true), t.mode, t.expected, t.code, &globbed)
}

/// the body of a test from the expectation lines scrut itself writes for the compared bytes (`own`; `other` = for
/// the bytes that are NOT compared), perturbed according to `mode`; then the exit code line. `glob_of` turns one
/// line into a glob expectation.
pub(crate) fn build_body_from(rng: &mut Rng, own: Vec<String>, other: &dyn Fn() -> Vec<String>, mode: Mode, expected: Expected, code: i32, glob_of: &dyn Fn(&mut Rng, &str) -> String) -> Vec<String> {
    let mut body: Vec<String> = match mode {
        Mode::Exact => own,
        Mode::Quantified => own.iter().map(|e| if rng.chance(1, 2) { add_quant(e, *rng.pick(&['?', '*', '+'])) } else { e.clone() }).collect(),
        Mode::Globbed => own.iter().map(|e| if rng.chance(2, 3) { glob_of(rng, e) } else { e.clone() }).collect(),
        Mode::OptionalNoise => {
            let mut b = own;
            for _ in 0..rng.range(1, 2) {
                let at = rng.range(0, b.len());
                b.insert(at, rng.pick(&["zzz (?)", "nomatch* (glob*)", "zzz (*)", "x (?)", "* (glob?)", "foo (*)", "zzz (no-eol?)"]).to_string());
            }
            b
        }
        Mode::MultilineRun => {
            if own.is_empty() {
                vec!["* (glob*)".to_string()]
            } else {
                let a = rng.range(0, own.len() - 1);
                let b = rng.range(a + 1, own.len());
                let multi = match rng.below(4) {
                    0 => "* (glob+)".to_string(),
                    1 => "* (glob*)".to_string(),
                    2 => add_quant(&own[a], '+'),
                    _ => add_quant(&own[a], '*'),
                };
                // the expectation behind the run: the line after it, or the LAST line of the run (which the
                // multiline expectation matches too), or nothing
                let rest_from = match rng.below(3) {
                    0 => b,
                    1 => b - 1,
                    _ => own.len(),
                };
                let mut v: Vec<String> = own[..a].to_vec();
                v.push(multi);
                v.extend_from_slice(&own[rest_from.min(own.len())..]);
                v
            }
        }
        Mode::Stale => {
            let mut b = own;
            match rng.below(4) {
                0 if !b.is_empty() => {
                    let at = rng.below(b.len() as u64) as usize;
                    b.remove(at);
                }
                1 if !b.is_empty() => {
                    let at = rng.below(b.len() as u64) as usize;
                    b[at] = format!("changed {}", b[at]);
                }
                2 if b.len() >= 2 => {
                    let at = rng.below(b.len() as u64 - 1) as usize;
                    b.swap(at, at + 1);
                }
                _ => {
                    let at = rng.range(0, b.len());
                    b.insert(at, "an extra line".to_string());
                }
            }
            b
        }
        Mode::Mixed => {
            let mut b = own;
            for _ in 0..rng.range(2, 3) {
                match rng.below(4) {
                    0 if !b.is_empty() => {
                        let at = rng.below(b.len() as u64) as usize;
                        b.remove(at);
                    }
                    1 if !b.is_empty() => {
                        let at = rng.below(b.len() as u64) as usize;
                        b[at] = format!("changed {}", b[at]);
                    }
                    2 if b.len() >= 2 => {
                        let at = rng.below(b.len() as u64 - 1) as usize;
                        b.swap(at, at + 1);
                    }
                    _ => {
                        let at = rng.range(0, b.len());
                        b.insert(at, rng.pick(&["an extra line", "another extra line", "foo", "x"]).to_string());
                    }
                }
            }
            b
        }
        Mode::Missing => vec![],
        Mode::WrongStream => other(),
        Mode::NearMiss => {
            let mut b = own;
            let cands: Vec<usize> = (0..b.len()).filter(|i| is_plain(&b[*i])).collect();
            if !cands.is_empty() {
                let at = *rng.pick(&cands);
                // ONE blank less, or one more
                b[at] = if b[at].ends_with(' ') { b[at][..b[at].len() - 1].to_string() } else { format!("{} ", b[at]) };
                if b[at].is_empty() {
                    b[at] = "x".into();
                }
            }
            b
        }
        Mode::Regex => {
            let mut b = own;
            let at = rng.range(0, b.len());
            b.insert(at, "fo+.* (regex?)".to_string());
            b
        }
    };
    match expected {
        Expected::Right => {
            if code != 0 {
                body.push(format!("[{}]", code))
            }
        }
        Expected::RightExplicitZero => body.push(format!("[{}]", code)),
        Expected::Wrong => body.push(format!("[{}]", code + 2)),
        Expected::Absent => {}
    }
    body
}

fn gen_doc(seed: u64, idx: u64) -> Doc {
    let mut rng = Rng::fork(seed, STREAM, idx);
    let escaper = if rng.chance(2, 3) { Escaper::Unicode } else { Escaper::Ascii };
    let n = rng.range(1, 4);
    let mut tests = vec![];
    for _ in 0..n {
        let out = payload(&mut rng);
        // different bytes on the two streams (sometimes the same, sometimes nothing on stderr)
        let err = match rng.below(6) {
            0 => out.clone(),
            1 => vec![],
            _ => payload(&mut rng),
        };
        let code = match rng.below(80) {
            0 => 80,
            1..=8 => 1,
            9..=14 => 3,
            15..=19 => 255,
            _ => 0,
        };
        let cfg = match rng.below(100) {
            0..=51 => Cfg::None,
            52..=71 => Cfg::Stderr,
            72..=76 => Cfg::Stdout,
            77..=81 => Cfg::Combined,
            82..=85 => Cfg::KeepCrlf,
            86 | 87 => Cfg::NoKeepCrlf,
            88..=92 => Cfg::StripAnsi,
            93..=95 => Cfg::Skip3,
            _ => Cfg::TimeoutStderr,
        };
        let mode = match rng.below(100) {
            0..=25 => Mode::Exact,
            26..=37 => Mode::Quantified,
            38..=49 => Mode::Globbed,
            50..=57 => Mode::OptionalNoise,
            58..=68 => Mode::MultilineRun,
            69..=78 => Mode::Stale,
            79..=82 => Mode::Missing,
            83..=89 => Mode::WrongStream,
            90..=98 => Mode::NearMiss,
            _ => Mode::Regex,
        };
        let expected = match (rng.below(10), code) {
            (0, _) => Expected::Wrong,
            (1, c) if c != 0 => Expected::Absent,
            (2, 0) => Expected::RightExplicitZero,
            _ => Expected::Right,
        };
        // a near miss needs lines that end in a blank (and lines that do not) on the stream that is compared
        let (out, err) = if mode == Mode::NearMiss {
            let n = rng.range(1, 3);
            let mut p = vec![];
            for k in 0..n {
                p.extend_from_slice(*rng.pick(&[&b"foo "[..], b"foo  ", b"foo", b"x ", b"beta gamma ", b"bar"]));
                if k + 1 < n || rng.chance(3, 4) {
                    p.push(b'\n');
                }
            }
            if matches!(cfg, Cfg::Stderr | Cfg::TimeoutStderr) { (out, p) } else { (p, err) }
        } else {
            (out, err)
        };
        let mut t = TSpec { out, err, code, cfg, mode, expected, comment: rng.chance(1, 6), body: vec![], near_miss_changed: false };
        t.body = build_body(&mut rng, &escaper, &t);
        if mode == Mode::NearMiss {
            let own = own_lines(&escaper, cfg, &t.out, &t.err, false);
            t.near_miss_changed = t.body.len() >= own.len() && t.body[..own.len()] != own[..];
        }
        tests.push(t);
    }
    let broken = if rng.chance(1, 12) {
        let kind = *rng.pick(&[Broken::ExpectationBeforeCommand, Broken::ExitCodeTwice, Broken::BadInlineConfig, Broken::MissingLanguage, Broken::BadEscape, Broken::NotUtf8, Broken::BadEscapedGlob, Broken::ExtenderWithoutCommand]);
        Some((kind, rng.range(0, tests.len())))
    } else {
        None
    };
    let fillers = (0..=tests.len()).map(|_| (0..rng.range(0, 2)).map(|_| rng.below(FILLERS.len() as u64) as usize).collect()).collect();
    Doc { tests, front_matter: rng.chance(1, 6), crlf_document: rng.chance(1, 10), broken, fillers, filler_table: &FILLERS, final_newline: true, escaper }
}

pub(crate) fn broken_block(b: Broken) -> &'static [u8] {
    match b {
        Broken::ExpectationBeforeCommand => b"```scrut\nan expectation\n$ echo late\n```\n\n",
        Broken::ExitCodeTwice => b"```scrut\n$ echo twice\n[1]\n[2]\n```\n\n",
        Broken::BadInlineConfig => b"```scrut {output_stream: nope}\n$ echo config\n```\n\n",
        Broken::MissingLanguage => b"```\nno language\n```\n\n",
        Broken::BadEscape => b"```scrut\n$ echo escape\nfoo\\x (escaped)\n```\n\n",
        Broken::NotUtf8 => b"Prose with a stray byte \xff in it.\n\n",
        Broken::BadEscapedGlob => b"```scrut\n$ echo glob\na\\xff* (escaped) (glob)\n```\n\n",
        Broken::ExtenderWithoutCommand => b"```scrut\n> continued\n```\n\n",
    }
}

/// the bytes of the document
pub(crate) fn render_doc(d: &Doc, dir: &Path) -> Vec<u8> {
    let mut doc: Vec<u8> = vec![];
    if d.front_matter {
        doc.extend_from_slice(b"---\ntotal_timeout: 30s\n---\n");
    }
    doc.extend_from_slice(b"# A document\n\nIntroduction.\n\n");
    let fill = |doc: &mut Vec<u8>, gap: usize| {
        for f in &d.fillers[gap] {
            doc.extend_from_slice(d.filler_table[*f].as_bytes());
        }
        if !d.fillers[gap].is_empty() {
            doc.push(b'\n');
        }
    };
    for (k, t) in d.tests.iter().enumerate() {
        if let Some((b, at)) = d.broken {
            if at == k {
                doc.extend_from_slice(broken_block(b));
            }
        }
        fill(&mut doc, k);
        let ticks = t.body.iter().map(|l| l.chars().take_while(|c| *c == '`').count()).max().unwrap_or(0).max(2) + 1;
        let fence = "`".repeat(ticks);
        doc.extend_from_slice(format!("## T{k}\n\n{fence}scrut{}\n", t.cfg.text()).as_bytes());
        if t.comment {
            doc.extend_from_slice(b"# a comment\n");
        }
        doc.extend_from_slice(format!("$ cat {0}/p{k}.out; cat {0}/p{k}.err >&2; (exit {1})\n", dir.display(), t.code).as_bytes());
        for l in &t.body {
            doc.extend_from_slice(l.as_bytes());
            doc.push(b'\n');
        }
        doc.extend_from_slice(format!("{fence}\n\n").as_bytes());
    }
    if let Some((b, at)) = d.broken {
        if at == d.tests.len() {
            doc.extend_from_slice(broken_block(b));
        }
    }
    fill(&mut doc, d.tests.len());
    doc.extend_from_slice(b"Text after the last test.\n");
    if !d.final_newline {
        doc.pop();
    }
    if d.crlf_document {
        let mut v = Vec::with_capacity(doc.len() + 64);
        for b in doc {
            if b == b'\n' {
                v.push(b'\r');
            }
            v.push(b);
        }
        doc = v;
    }
    doc
}

pub(crate) fn short(s: &str, n: usize) -> String {
    s.chars().take(n).collect()
}

struct RanDoc {
    /// canonical line of the implementation
    line: String,
    /// exit status of the process
    code: i32,
    /// (index by title, kind) in the order of the report; None = no JSON
    results: Option<Vec<(Option<usize>, String)>>,
    stderr: String,
    /// the counters scrut logs at the end of the run (`success= skipped= failed=`), all documents of the run
    counters: Option<(usize, usize, usize)>,
}

/// `scrut test -r json <doc>` in `dir` (private TMPDIR `dir/tmp`)
fn run_binary(dir: &Path, doc_path: &Path) -> RanDoc {
    run_binary_after(dir, doc_path, false)
}

/// `cram_first`: a (passing) Cram document with a glob expectation is given in front of the document in the same
/// run; its result is not part of the comparison, and it must not change how the Markdown document is read
fn run_binary_after(dir: &Path, doc_path: &Path, cram_first: bool) -> RanDoc {
    let mut pre: Vec<PathBuf> = vec![];
    if cram_first {
        let p = dir.join("pre.t");
        std::fs::write(&p, "a Cram document first\n  $ echo 'star * here'\n  star \\* h* (glob)\n").unwrap();
        pre.push(p);
    }
    let out = std::process::Command::new(scrut_bin())
        .arg("--log-level")
        .arg("info")
        .arg("test")
        .arg("-r")
        .arg("json")
        .args(&pre)
        .arg(doc_path)
        .current_dir(dir)
        .env("TMPDIR", dir.join("tmp"))
        .env("NO_COLOR", "1")
        .stdin(std::process::Stdio::null())
        .output()
        .expect("run scrut");
    let code = out.status.code().unwrap_or(-1);
    let stdout = String::from_utf8_lossy(&out.stdout).to_string();
    let stderr = String::from_utf8_lossy(&out.stderr).to_string();
    let json: Option<serde_json::Value> = stdout.find('[').and_then(|p| serde_json::from_str(&stdout[p..]).ok());
    let results: Option<Vec<(Option<usize>, String)>> = match &json {
        Some(serde_json::Value::Array(items)) => Some(
            items
                .iter()
                .map(|it| {
                    let title = it.get("title").and_then(|t| t.as_str()).or_else(|| it.pointer("/testcase/title").and_then(|t| t.as_str())).unwrap_or("");
                    let kind = it.pointer("/result/kind").and_then(|k| k.as_str()).unwrap_or("?").to_string();
                    let kind = if kind == "invalid_exit_code" {
                        format!("invalid_exit_code:{}:{}", it.pointer("/result/actual").and_then(|v| v.as_i64()).map_or("?".to_string(), |v| v.to_string()), it.pointer("/result/expected").and_then(|v| v.as_i64()).map_or("?".to_string(), |v| v.to_string()))
                    } else {
                        kind
                    };
                    (title.to_string(), title.strip_prefix('T').and_then(|r| r.parse::<usize>().ok()), kind)
                })
                .filter(|(title, _, _)| !(cram_first && title == "a Cram document first"))
                .map(|(_, i, k)| (i, k))
                .collect(),
        ),
        _ => None,
    };
    let line = match &results {
        None if code == 1 => "parse-error".to_string(),
        None => format!("no-json exit={code}"),
        Some(rs) => {
            let shown: Vec<String> = rs.iter().map(|(i, k)| format!("{}:{k}", i.map_or("?".to_string(), |i| i.to_string()))).collect();
            format!("{} exit={code}", if shown.is_empty() { "-".to_string() } else { shown.join(",") })
        }
    };
    // `INFO scrut::commands::test: success=0 skipped=2 failed=0 detached=0`
    let counters = stderr.lines().rev().find(|l| l.contains(" success=") && l.contains(" skipped=")).and_then(|l| {
        let num = |key: &str| l.split_whitespace().find_map(|w| w.strip_prefix(key)).and_then(|v| v.parse::<usize>().ok());
        Some((num("success=")?, num("skipped=")?, num("failed=")?))
    });
    RanDoc { line, code, results, stderr, counters }
}

pub(crate) fn runs_field(tests: &[(Vec<u8>, Vec<u8>, i32)]) -> String {
    if tests.is_empty() {
        "-".to_string()
    } else {
        tests.iter().map(|(o, e, c)| format!("{}:{}:{c}", hex(o), hex(e))).collect::<Vec<_>>().join(",")
    }
}

fn case(prop: &str, seed: u64, idx: u64, root: &Path, name: String, verbose: bool) -> CaseRec {
    let d = gen_doc(seed, idx);
    let dir = root.join(name);
    let _ = std::fs::remove_dir_all(&dir);
    std::fs::create_dir_all(dir.join("tmp")).unwrap();
    for (k, t) in d.tests.iter().enumerate() {
        std::fs::write(dir.join(format!("p{k}.out")), &t.out).unwrap();
        std::fs::write(dir.join(format!("p{k}.err")), &t.err).unwrap();
    }
    let doc = render_doc(&d, &dir);
    let doc_path = dir.join("doc.md");
    std::fs::write(&doc_path, &doc).unwrap();
    // every third document is run behind a Cram document in the same process
    let ran = run_binary_after(&dir, &doc_path, idx % 3 == 1);
    if verbose {
        println!("document {}:\n{}\n--", doc_path.display(), String::from_utf8_lossy(&doc));
        for (k, t) in d.tests.iter().enumerate() {
            println!("test {k} ({:?}, expected code {:?}): stdout {:?} stderr {:?} exit {}", t.mode, t.expected, String::from_utf8_lossy(&t.out), String::from_utf8_lossy(&t.err), t.code);
        }
        println!("exit status {}, stderr {}", ran.code, short(&ran.stderr, 400));
    }
    let _ = std::fs::remove_dir_all(&dir);

    let runs: Vec<(Vec<u8>, Vec<u8>, i32)> = d.tests.iter().map(|t| (t.out.clone(), t.err.clone(), t.code)).collect();
    let op = format!("testdoc {} {} {seed}.{idx}", hex(&doc), runs_field(&runs));
    let has_regex = d.tests.iter().any(|t| t.mode == Mode::Regex);
    // a document with a regex expectation is outside the composition: the model has to SAY so (nothing is compared
    // beyond that); a malformed document is a parse error whatever else it contains
    let impl_out = if has_regex && d.broken.is_none() { "unsupported".to_string() } else { ran.line.clone() };

    // ---- direct oracles -----------------------------------------------------------------------------------------
    let mut fails: Vec<(String, String)> = vec![];
    let describe = |what: &str| format!("{what}; `scrut test -r json doc.md` reported `{}` on document {:?} with {}", ran.line, short(&String::from_utf8_lossy(&doc), 900), d.tests.iter().enumerate().map(|(k, t)| format!("p{k}.out={} p{k}.err={} exit {}", hex(&t.out), hex(&t.err), t.code)).collect::<Vec<_>>().join(" "));
    let skipped_doc = d.tests.iter().any(|t| t.code == t.cfg.skip_code());
    match (&ran.results, d.broken) {
        (_, Some((b, _))) => {
            if ran.code != 1 {
                fails.push(("C20:testdoc-exit-status".into(), describe(&format!("malformed document ({b:?}) but exit status {}", ran.code))));
            }
        }
        (None, None) => {
            for p in ["C05", "C20"] {
                fails.push((format!("{p}:testdoc-no-result"), describe(&format!("no JSON (exit status {}): {}", ran.code, short(&ran.stderr, 300)))));
            }
        }
        (Some(rs), None) => {
            // exit status: 50 iff some verdict is a failure, else 0
            let failing = rs.iter().any(|(_, k)| k != "success" && k != "skipped");
            let want = if failing { 50 } else { 0 };
            if ran.code != want {
                fails.push(("C20:testdoc-exit-status".into(), describe(&format!("exit status {}, the reported verdicts ask for {want}", ran.code))));
            }
            // the counters scrut logs add up to the reported results (the document in front, if any, adds one success)
            if let Some((ok, skipped, failed)) = ran.counters {
                let pre = if idx % 3 == 1 { 1 } else { 0 };
                let want = (rs.iter().filter(|(_, k)| k == "success").count() + pre, rs.iter().filter(|(_, k)| k == "skipped").count(), rs.iter().filter(|(_, k)| k != "success" && k != "skipped").count());
                if (ok, skipped, failed) != want {
                    fails.push(("C20:testdoc-counters".into(), describe(&format!("logged success={ok} skipped={skipped} failed={failed}, the reported results are success={} skipped={} failed={}", want.0, want.1, want.2))));
                }
            }
            // one result per test case, in document order
            let idxs: Vec<Option<usize>> = rs.iter().map(|(i, _)| *i).collect();
            if idxs != (0..d.tests.len()).map(Some).collect::<Vec<_>>() {
                fails.push(("C20:testdoc-result-list".into(), describe(&format!("results for {:?}, the document holds tests 0..{}", idxs, d.tests.len()))));
            }
            // a test whose expectations are its own output lines and whose exit code is the expected one passes
            if !skipped_doc {
                for (k, t) in d.tests.iter().enumerate() {
                    if t.mode == Mode::Exact && matches!(t.expected, Expected::Right | Expected::RightExplicitZero) {
                        let got = rs.iter().find(|(i, _)| *i == Some(k)).map(|(_, kind)| kind.as_str());
                        if got != Some("success") {
                            fails.push(("C05:testdoc-own-lines-fail".into(), describe(&format!("test {k} expects exactly its own output and exit code, reported {:?}", got))));
                        }
                    }
                    // one expectation per line, one of them differs from its line in a trailing blank: never a success
                    if t.mode == Mode::NearMiss && t.near_miss_changed {
                        let got = rs.iter().find(|(i, _)| *i == Some(k)).map(|(_, kind)| kind.as_str());
                        if got == Some("success") {
                            fails.push(("C05:testdoc-near-miss-succeeds".into(), describe(&format!("test {k}: an expectation differs from its line in one trailing blank, reported success"))));
                        }
                    }
                    // the converse on the exit code: a wrong / missing expected code is never a success
                    if matches!(t.expected, Expected::Wrong | Expected::Absent) {
                        let got = rs.iter().find(|(i, _)| *i == Some(k)).map(|(_, kind)| kind.as_str());
                        if got == Some("success") {
                            fails.push(("C05:testdoc-wrong-exit-code-succeeds".into(), describe(&format!("test {k} exits {} against {:?}, reported success", t.code, t.expected))));
                        }
                    }
                }
            }
        }
    }

    let mut tags = vec![format!("testdoc:tests={}", d.tests.len()), format!("testdoc:exit={}", ran.code), format!("testdoc:escaper={}", if matches!(d.escaper, Escaper::Ascii) { "ascii" } else { "unicode" })];
    if let Some((b, _)) = d.broken {
        tags.push(format!("testdoc:malformed={b:?}"));
    }
    if d.crlf_document {
        tags.push("testdoc:crlf-document".into());
    }
    if d.front_matter {
        tags.push("testdoc:front-matter".into());
    }
    if has_regex && d.broken.is_none() {
        tags.push("testdoc:unsupported-regex".into());
    }
    for t in &d.tests {
        tags.push(format!("testdoc:mode={:?}", t.mode));
        tags.push(format!("testdoc:cfg={:?}", t.cfg));
        tags.push(format!("testdoc:expected-code={:?}", t.expected));
        if t.out.windows(2).any(|w| w == b"\r\n") || t.err.windows(2).any(|w| w == b"\r\n") {
            tags.push("testdoc:crlf-in-payload".into());
        }
    }
    if let Some(rs) = &ran.results {
        for (_, k) in rs {
            tags.push(format!("testdoc:verdict={}", k.split(':').next().unwrap_or("")));
        }
        for (k, t) in d.tests.iter().enumerate() {
            if let Some((_, kind)) = rs.iter().find(|(i, _)| *i == Some(k)) {
                tags.push(format!("testdoc:mode={:?}->{}", t.mode, kind.split(':').next().unwrap_or("")));
            }
        }
    }
    CaseRec { op, impl_out, oracle_fail: keep(prop, fails), nontrivial: d.broken.is_none() && !d.tests.is_empty(), tags }
}

/// bytes that make up every case distinction of the decoder: ASCII, LF, continuation bytes at the borders of the
/// restricted second-byte ranges, every kind of lead byte, bytes that can start nothing
const LOSSY_ALPHABET: [u8; 16] = [0x41, 0x0a, 0x80, 0x8f, 0x90, 0x9f, 0xa0, 0xbf, 0xc1, 0xc2, 0xe0, 0xe2, 0xed, 0xf0, 0xf4, 0xf5];

/// `String::from_utf8_lossy` vs `TestRun.fromUtf8Lossy` (the decoding in front of `GlobRule::matches`)
fn lossy_case(bytes: Vec<u8>) -> CaseRec {
    let impl_out = hex(String::from_utf8_lossy(&bytes).as_bytes());
    let valid = std::str::from_utf8(&bytes).is_ok();
    CaseRec { op: format!("lossy {}", hex(&bytes)), impl_out, oracle_fail: vec![], nontrivial: false, tags: vec![format!("lossy:valid={valid}")] }
}

pub fn run(ctx: &Ctx, prop: &str) {
    let seed = ctx.seed;
    // every string over the alphabet up to length 3 (thorough: 4), then seeded longer ones
    let maxlen = if ctx.thorough { 4u32 } else { 3 };
    let mut offsets = vec![];
    let mut total = 0u64;
    for len in 0..=maxlen {
        offsets.push((len, total));
        total += 16u64.pow(len);
    }
    ctx.run_stream("lossy-decode-exhaustive", total, true, |idx| {
        let (len, base) = *offsets.iter().rev().find(|(_, b)| *b <= idx).unwrap();
        let mut r = idx - base;
        let mut bytes = vec![];
        for _ in 0..len {
            bytes.push(LOSSY_ALPHABET[(r % 16) as usize]);
            r /= 16;
        }
        Some(lossy_case(bytes))
    });
    ctx.run_stream("lossy-decode-random", if ctx.thorough { 20000 } else { 3000 }, false, |idx| {
        let mut rng = Rng::fork(seed, STREAM + 1, idx);
        let len = rng.range(4, 12);
        Some(lossy_case((0..len).map(|_| if rng.chance(3, 4) { *rng.pick(&LOSSY_ALPHABET) } else { rng.below(256) as u8 }).collect()))
    });
    let root = tmproot("run");
    std::fs::create_dir_all(&root).unwrap();
    let n = if ctx.thorough { 2400 } else { 160 };
    ctx.run_stream("e2e-testdoc", n, false, |idx| Some(case(prop, seed, idx, &root, format!("d{idx}"), false)));
    let _ = std::fs::remove_dir_all(&root);
    ctx.note("e2e-testdoc: Markdown documents with 1-4 tests `cat pK.out; cat pK.err >&2; (exit N)` (expectations derived from the known output: exact, quantified, globs, optional noise, multiline runs, stale, missing, other stream, trailing-blank near misses; exit code right / wrong / absent; inline output_stream / keep_crlf / strip_ansi_escaping / skip_document_code; CRLF payloads and documents; prose and foreign blocks; malformed documents) through the real binary `scrut test -r json`; verdict list and exit status are compared with the INTEGRATED Lean model (`testdoc`: read_file, Markdown parser, grammar, rules, render_output, split, matcher, validate, executor loop, result mapping, exit status composed)".into());
}

pub fn is_testdoc_op(op: &str) -> bool {
    op.starts_with("testdoc ")
}

/// re-runs a recorded `testdoc` op: the document is rewritten to a fresh directory (the payload paths inside its
/// commands are replaced), the payload files are written from the op, the binary runs again
pub fn replay(_prop: &str, op: &str) -> bool {
    let parts: Vec<&str> = op.split_whitespace().collect();
    // a generated case is regenerated from its seed and index and judged by all direct oracles
    if let Some((Ok(seed), Ok(idx))) = parts.get(3).and_then(|c| c.split_once('.')).map(|(a, b)| (a.parse::<u64>(), b.parse::<u64>())) {
        let root = tmproot("replay");
        std::fs::create_dir_all(&root).unwrap();
        let rec = case(_prop, seed, idx, &root, "r".into(), true);
        let _ = std::fs::remove_dir_all(&root);
        println!("scrut test -r json: {}", rec.impl_out);
        println!("model op: {}", rec.op);
        for (cl, d) in &rec.oracle_fail {
            println!("oracle-failure {cl}: {}", short(d, 600));
        }
        return rec.oracle_fail.is_empty();
    }
    if parts.len() != 3 {
        eprintln!("replay: malformed testdoc op");
        return false;
    }
    let doc = unhex(parts[1]);
    let runs: Vec<(Vec<u8>, Vec<u8>, String)> = if parts[2] == "-" {
        vec![]
    } else {
        parts[2]
            .split(',')
            .map(|r| {
                let f: Vec<&str> = r.split(':').collect();
                (unhex(f[0]), unhex(f[1]), f[2].to_string())
            })
            .collect()
    };
    let root = tmproot("replay");
    let dir = root.join("r");
    let _ = std::fs::remove_dir_all(&dir);
    std::fs::create_dir_all(dir.join("tmp")).unwrap();
    // the old payload directory: `$ cat <dir>/p0.out;`
    let text = String::from_utf8_lossy(&doc).to_string();
    let old_dir: Option<String> = text.find("/p0.out;").and_then(|end| text[..end].rfind("$ cat ").map(|s| text[s + 6..end].to_string()));
    let new_doc: Vec<u8> = match &old_dir {
        Some(od) => {
            // byte-level replacement (the document may not be UTF-8)
            let (od, nd) = (od.as_bytes(), dir.display().to_string().into_bytes());
            let mut v = vec![];
            let mut i = 0;
            while i < doc.len() {
                if doc[i..].starts_with(od) {
                    v.extend_from_slice(&nd);
                    i += od.len();
                } else {
                    v.push(doc[i]);
                    i += 1;
                }
            }
            v
        }
        None => doc.clone(),
    };
    for (k, (o, e, _)) in runs.iter().enumerate() {
        std::fs::write(dir.join(format!("p{k}.out")), o).unwrap();
        std::fs::write(dir.join(format!("p{k}.err")), e).unwrap();
    }
    let doc_path = dir.join("doc.md");
    std::fs::write(&doc_path, &new_doc).unwrap();
    let ran = run_binary(&dir, &doc_path);
    println!("document:\n{}", String::from_utf8_lossy(&new_doc));
    for (k, (o, e, c)) in runs.iter().enumerate() {
        println!("test {k}: stdout {:?} stderr {:?} exit {c}", String::from_utf8_lossy(o), String::from_utf8_lossy(e));
    }
    println!("scrut test -r json: {}  (exit status {}; stderr: {})", ran.line, ran.code, short(&ran.stderr, 300));
    println!("model op: testdoc {} {}", hex(&new_doc), parts[2]);
    let _ = std::fs::remove_dir_all(&root);
    // the oracle part that can be re-evaluated without the generator's knowledge: exit status vs verdicts
    match &ran.results {
        Some(rs) => {
            let failing = rs.iter().any(|(_, k)| k != "success" && k != "skipped");
            ran.code == if failing { 50 } else { 0 }
        }
        None => ran.code == 1,
    }
}
