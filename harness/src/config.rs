//! C16: configuration layering — `with_defaults_from` / `with_overrides_from` / `with_environment`
//! of both config structs against the Lean model, plus end-to-end documents that observe the
//! effective value of a key (the glue between parser, test command and executor).
use crate::common::*;
use scrut::config::{DocumentConfig, OutputStreamControl, TestCaseConfig, TestCaseWait};
use std::collections::BTreeMap;
use std::path::PathBuf;
use std::time::Duration;

/// abstract test-case config: 7 scalar slots (0 = unset, 1 = value A, 2 = value B) and an env list
#[derive(Clone, Debug, Default)]
pub struct A {
    pub s: [u8; 7],
    pub env: Vec<(u8, u8)>,
}

fn b(v: u8) -> Option<bool> {
    match v {
        1 => Some(true),
        2 => Some(false),
        _ => None,
    }
}

impl A {
    pub fn real(&self) -> TestCaseConfig {
        TestCaseConfig {
            detached: b(self.s[0]),
            keep_crlf: b(self.s[1]),
            output_stream: match self.s[2] {
                1 => Some(OutputStreamControl::Stdout),
                2 => Some(OutputStreamControl::Stderr),
                _ => None,
            },
            skip_document_code: match self.s[3] {
                1 => Some(7),
                2 => Some(9),
                _ => None,
            },
            strip_ansi_escaping: b(self.s[4]),
            timeout: match self.s[5] {
                1 => Some(Duration::from_secs(1)),
                2 => Some(Duration::from_secs(2)),
                _ => None,
            },
            wait: match self.s[6] {
                1 => Some(TestCaseWait { timeout: Duration::from_secs(1), path: None }),
                2 => Some(TestCaseWait { timeout: Duration::from_secs(2), path: Some(PathBuf::from("p")) }),
                _ => None,
            },
            environment: self.env.iter().map(|(k, v)| (format!("K{k}"), format!("V{v}"))).collect(),
        }
    }
    pub fn field(&self) -> String {
        let sc: Vec<String> = self.s.iter().map(|v| if *v == 0 { "-".to_string() } else { v.to_string() }).collect();
        let env = if self.env.is_empty() { "-".to_string() } else { self.env.iter().map(|(k, v)| format!("{k}={v}")).collect::<Vec<_>>().join("/") };
        format!("{},{}", sc.join(","), env)
    }
}

fn ob(v: Option<bool>) -> String {
    match v {
        Some(true) => "1".into(),
        Some(false) => "2".into(),
        None => "-".into(),
    }
}

pub fn show_real(c: &TestCaseConfig) -> String {
    let os = match c.output_stream {
        Some(OutputStreamControl::Stdout) => "1",
        Some(OutputStreamControl::Stderr) => "2",
        Some(OutputStreamControl::Combined) => "3",
        None => "-",
    };
    let sk = match c.skip_document_code {
        Some(7) => "1".to_string(),
        Some(9) => "2".to_string(),
        Some(o) => format!("?{o}"),
        None => "-".into(),
    };
    let to = match c.timeout.map(|d| d.as_secs()) {
        Some(1) => "1".to_string(),
        Some(2) => "2".to_string(),
        Some(o) => format!("?{o}"),
        None => "-".into(),
    };
    let w = match &c.wait {
        Some(w) if w.timeout.as_secs() == 1 && w.path.is_none() => "1".to_string(),
        Some(w) if w.timeout.as_secs() == 2 && w.path.is_some() => "2".to_string(),
        Some(_) => "?".into(),
        None => "-".into(),
    };
    let env = if c.environment.is_empty() {
        "-".to_string()
    } else {
        let mut m: BTreeMap<u32, String> = BTreeMap::new();
        for (k, v) in &c.environment {
            m.insert(k[1..].parse().unwrap_or(999), v[1..].to_string());
        }
        m.iter().map(|(k, v)| format!("{k}={v}")).collect::<Vec<_>>().join("/")
    };
    format!("{},{},{},{},{},{},{},{}", ob(c.detached), ob(c.keep_crlf), os, sk, ob(c.strip_ansi_escaping), to, w, env)
}

#[derive(Clone, Debug, Default)]
pub struct D {
    pub append: Vec<u8>,
    pub prepend: Vec<u8>,
    pub shell: u8,
    pub total: u8,
    pub defaults: A,
}
impl D {
    fn real(&self) -> DocumentConfig {
        DocumentConfig {
            append: self.append.iter().map(|v| PathBuf::from(format!("f{v}"))).collect(),
            prepend: self.prepend.iter().map(|v| PathBuf::from(format!("f{v}"))).collect(),
            shell: match self.shell {
                0 => None,
                v => Some(PathBuf::from(format!("sh{v}"))),
            },
            total_timeout: match self.total {
                0 => None,
                v => Some(Duration::from_secs(v as u64)),
            },
            defaults: self.defaults.real(),
        }
    }
    fn field(&self) -> String {
        let l = |v: &Vec<u8>| if v.is_empty() { "-".to_string() } else { v.iter().map(|x| x.to_string()).collect::<Vec<_>>().join("/") };
        let o = |v: u8| if v == 0 { "-".to_string() } else { v.to_string() };
        format!("{};{};{};{};{}", l(&self.append), l(&self.prepend), o(self.shell), o(self.total), self.defaults.field())
    }
}
fn show_real_doc(c: &DocumentConfig) -> String {
    let l = |v: &Vec<PathBuf>| if v.is_empty() { "-".to_string() } else { v.iter().map(|p| p.to_string_lossy()[1..].to_string()).collect::<Vec<_>>().join("/") };
    format!(
        "{};{};{};{};{}",
        l(&c.append),
        l(&c.prepend),
        c.shell.as_ref().map(|p| p.to_string_lossy()[2..].to_string()).unwrap_or("-".into()),
        c.total_timeout.map(|d| d.as_secs().to_string()).unwrap_or("-".into()),
        show_real(&c.defaults)
    )
}

fn gen_env(rng: &mut Rng) -> Vec<(u8, u8)> {
    let n = rng.range(0, 3);
    let mut keys: Vec<u8> = vec![];
    (0..n)
        .filter_map(|_| {
            let k = rng.range(1, 3) as u8;
            if keys.contains(&k) {
                None // a BTreeMap holds one binding per key
            } else {
                keys.push(k);
                Some((k, rng.range(10, 99) as u8))
            }
        })
        .collect()
}
fn gen_a(rng: &mut Rng) -> A {
    let mut s = [0u8; 7];
    for x in s.iter_mut() {
        *x = rng.below(3) as u8;
    }
    A { s, env: gen_env(rng) }
}
fn gen_d(rng: &mut Rng) -> D {
    D { append: (0..rng.range(0, 2)).map(|_| rng.range(1, 5) as u8).collect(), prepend: (0..rng.range(0, 2)).map(|_| rng.range(1, 5) as u8).collect(), shell: rng.below(3) as u8, total: rng.below(3) as u8, defaults: gen_a(rng) }
}

/// independent oracle: first layer that sets it
fn first_some(layers: &[u8]) -> u8 {
    layers.iter().copied().find(|v| *v != 0).unwrap_or(0)
}

fn effective_real(cli: &A, inl: &A, dd: &A, fmt: &A, se: &[(u8, u8)]) -> TestCaseConfig {
    // the composition of src/parsers/markdown.rs:130-133, src/bin/commands/test.rs:233-239 and
    // src/executors/stateful_executor.rs:96 with the real functions
    let doc = DocumentConfig { defaults: dd.real(), ..Default::default() };
    let cli_doc = DocumentConfig::empty();
    let parsed = inl.real().with_defaults_from(&doc.defaults).with_defaults_from(&fmt.real());
    let envs: Vec<(String, String)> = se.iter().map(|(k, v)| (format!("K{k}"), format!("V{v}"))).collect();
    let env_map: BTreeMap<&str, &str> = envs.iter().map(|(k, v)| (k as &str, v as &str)).collect();
    let t = parsed.with_overrides_from(&cli.real()).with_environment(&env_map);
    let ctx = doc.with_overrides_from(&cli_doc);
    t.with_defaults_from(&ctx.defaults)
}

fn keep(prop: &str, fails: Vec<(String, String)>) -> Vec<(String, String)> {
    fails.into_iter().filter(|(c, _)| c.starts_with(prop)).collect()
}

fn effective_case(prop: &str, cli: A, inl: A, dd: A, fmt: A, se: Vec<(u8, u8)>, tag: &str) -> CaseRec {
    let r = guarded(|| effective_real(&cli, &inl, &dd, &fmt, &se));
    let mut fails = vec![];
    let impl_out = match r {
        Err(p) => {
            fails.push(("C16:crash".into(), p));
            "crash".into()
        }
        Ok(c) => {
            let shown = show_real(&c);
            let parts: Vec<&str> = shown.split(',').collect();
            for i in 0..7 {
                let want = first_some(&[cli.s[i], inl.s[i], dd.s[i], fmt.s[i]]);
                let want_s = if want == 0 { "-".to_string() } else { want.to_string() };
                if parts[i] != want_s {
                    fails.push(("C16:scalar-precedence".into(), format!("key #{i}: layers cli={} inline={} defaults={} format={} give {}, expected {}", cli.s[i], inl.s[i], dd.s[i], fmt.s[i], parts[i], want_s)));
                }
            }
            for k in 1..=3u8 {
                let look = |e: &Vec<(u8, u8)>| e.iter().rev().find(|(kk, _)| *kk == k).map(|(_, v)| *v);
                let want = look(&se).or(look(&cli.env)).or(look(&inl.env)).or(look(&dd.env)).or(look(&fmt.env));
                let got = c.environment.get(&format!("K{k}")).map(|v| v[1..].parse::<u8>().unwrap_or(0));
                if want != got {
                    fails.push(("C16:env-precedence".into(), format!("variable K{k}: got {:?}, expected {:?} (scrut={:?} inline={:?} defaults={:?})", got, want, look(&se), look(&inl.env), look(&dd.env))));
                }
            }
            shown
        }
    };
    let se_s = if se.is_empty() { "-".to_string() } else { se.iter().map(|(k, v)| format!("{k}={v}")).collect::<Vec<_>>().join("/") };
    let nontrivial = (0..7).any(|i| [cli.s[i], inl.s[i], dd.s[i], fmt.s[i]].iter().filter(|v| **v != 0).count() >= 2) || {
        let mut ks: Vec<u8> = inl.env.iter().chain(dd.env.iter()).chain(se.iter()).map(|x| x.0).collect();
        let n = ks.len();
        ks.sort();
        ks.dedup();
        ks.len() < n
    };
    CaseRec { op: format!("effective {} {} {} {} {}", cli.field(), inl.field(), dd.field(), fmt.field(), se_s), impl_out, oracle_fail: keep(prop, fails), nontrivial, tags: vec![tag.to_string()] }
}

fn scrut_bin() -> String {
    std::env::var("SCRUT_BIN").unwrap_or("/verif/.build/repo-target/debug/scrut".into())
}

/// end-to-end: what the test actually sees. layer values: 0 unset, 1/2 set.
/// env variable FOO: inline / defaults; output_stream: cli (--combine-output = 3? no: flags), inline, defaults
fn e2e_case(prop: &str, idx: u64, tmproot: &std::path::Path) -> CaseRec {
    // key 0: environment variable FOO (inline, defaults); key 1: output_stream (cli, inline, defaults)
    let mut r = idx;
    let mut take = |n: u64| {
        let v = r % n;
        r /= n;
        v as u8
    };
    let env_inline = take(2);
    let env_defaults = take(2);
    let os_cli = take(3); // 0 unset, 1 --no-combine-output (stdout), 2 --combine-output (combined)
    let os_inline = take(3); // 0 unset, 1 stdout, 2 stderr
    let os_defaults = take(3);
    let dir = tmproot.join(format!("cfg-{idx}"));
    let _ = std::fs::remove_dir_all(&dir);
    std::fs::create_dir_all(dir.join("tmp")).unwrap();
    let mut doc = String::new();
    let mut dfl = vec![];
    if env_defaults == 1 {
        dfl.push("environment: {FOO: fromdefaults}".to_string());
    }
    if os_defaults != 0 {
        dfl.push(format!("output_stream: {}", if os_defaults == 1 { "stdout" } else { "stderr" }));
    }
    if !dfl.is_empty() {
        doc.push_str(&format!("---\ndefaults: {{{}}}\n---\n\n", dfl.join(", ")));
    }
    let mut inl = vec![];
    if env_inline == 1 {
        inl.push("environment: {FOO: \"frominline\"}".to_string());
    }
    if os_inline != 0 {
        inl.push(format!("output_stream: {}", if os_inline == 1 { "stdout" } else { "stderr" }));
    }
    // the command prints FOO on both streams with a stream tag; the expectation accepts anything,
    // the observation is taken from the JSON of a deliberately failing expectation
    doc.push_str(&format!("# T\n\n```scrut{}\n$ echo \"out:${{FOO:-unset}}\"; echo \"err:${{FOO:-unset}}\" >&2\nnever-matches\n```\n", if inl.is_empty() { "".to_string() } else { format!(" {{{}}}", inl.join(", ")) }));
    let p = dir.join("doc.md");
    std::fs::write(&p, doc).unwrap();
    let mut cmd = std::process::Command::new(scrut_bin());
    cmd.arg("test").arg("-r").arg("json");
    if os_cli == 1 {
        cmd.arg("--no-combine-output");
    } else if os_cli == 2 {
        cmd.arg("--combine-output");
    }
    let out = cmd.arg(&p).current_dir(&dir).env("TMPDIR", dir.join("tmp")).env_remove("FOO").output().expect("run scrut");
    let stdout = String::from_utf8_lossy(&out.stdout).to_string();
    let json: Option<serde_json::Value> = stdout.find('[').and_then(|p| serde_json::from_str(&stdout[p..]).ok());
    let mut fails = vec![];
    let mut observed = "?".to_string();
    if let Some(j) = &json {
        // the diff holds the unexpected lines = the selected stream
        let diff = j.pointer("/0/result/diff").cloned().unwrap_or_default();
        let text = diff.to_string();
        let so = text.contains("out:");
        let se = text.contains("err:");
        let val = if text.contains("frominline") { "inline" } else if text.contains("fromdefaults") { "defaults" } else { "unset" };
        observed = format!("stream={} foo={}", match (so, se) { (true, true) => "combined", (true, false) => "stdout", (false, true) => "stderr", _ => "none" }, val);
        let want_foo = if env_inline == 1 { "inline" } else if env_defaults == 1 { "defaults" } else { "unset" };
        let want_stream = match (os_cli, os_inline, os_defaults) {
            (1, _, _) => "stdout",
            (2, _, _) => "combined",
            (0, 1, _) => "stdout",
            (0, 2, _) => "stderr",
            (0, 0, 2) => "stderr",
            _ => "stdout", // document default or the Markdown format default
        };
        if val != want_foo {
            fails.push(("C16:env-precedence-e2e".into(), format!("FOO seen by the test comes from {val}, expected {want_foo} (inline set: {env_inline}, defaults set: {env_defaults})")));
        }
        let got_stream = observed.split(' ').next().unwrap().trim_start_matches("stream=").to_string();
        if got_stream != want_stream {
            fails.push(("C16:stream-precedence-e2e".into(), format!("stream compared is {got_stream}, expected {want_stream} (cli={os_cli} inline={os_inline} defaults={os_defaults})")));
        }
    } else {
        fails.push(("C16:e2e-no-json".into(), format!("exit {:?}: {}", out.status.code(), String::from_utf8_lossy(&out.stderr).chars().take(300).collect::<String>())));
    }
    let _ = std::fs::remove_dir_all(&dir);
    // model side: the same layer assignment through `effective` (output_stream slot 2: 1 stdout, 2 stderr, 3 combined)
    let mut cli = A::default();
    cli.s[2] = match os_cli { 1 => 1, 2 => 3, _ => 0 };
    let mut inl_a = A::default();
    inl_a.s[2] = os_inline;
    if env_inline == 1 {
        inl_a.env.push((1, 11));
    }
    let mut dd = A::default();
    dd.s[2] = os_defaults;
    if env_defaults == 1 {
        dd.env.push((1, 22));
    }
    let mut fmt = A::default();
    fmt.s[2] = 1;
    fmt.s[3] = 0;
    // canonical implementation line in the model's vocabulary
    let stream_id = match observed.split(' ').next().unwrap_or("") {
        "stream=stdout" => "1",
        "stream=stderr" => "2",
        "stream=combined" => "3",
        _ => "?",
    };
    let foo = if observed.ends_with("foo=inline") { "1=11" } else if observed.ends_with("foo=defaults") { "1=22" } else { "-" };
    CaseRec {
        op: format!("effective {} {} {} {} -", cli.field(), inl_a.field(), dd.field(), fmt.field()),
        impl_out: format!("-,-,{},-,-,-,-,{}", stream_id, foo),
        oracle_fail: keep(prop, fails),
        nontrivial: true,
        tags: vec!["e2e".into()],
    }
}

/// end-to-end: `keep_crlf` from the command line (--keep-output-crlf / --no-keep-output-crlf), the inline
/// configuration, the document defaults and the format default (Markdown: CR LF translated, Cram: kept).
/// The command writes `a<CR><LF>`; the observation is the recorded line in the JSON of a failing expectation.
fn want_keep_of(cli: u8, inline: u8, defaults: u8, cram: bool) -> bool {
    match (cli, inline, defaults) {
        (1, _, _) => true,
        (2, _, _) => false,
        (0, 1, _) => true,
        (0, 2, _) => false,
        (0, 0, 1) => true,
        (0, 0, 2) => false,
        _ => cram,
    }
}

fn e2e_crlf_case(prop: &str, idx: u64, tmproot: &std::path::Path) -> CaseRec {
    let mut r = idx;
    let mut take = |n: u64| {
        let v = r % n;
        r /= n;
        v as u8
    };
    // 0 unset, 1 true (keep), 2 false (translate)
    let cli = take(3);
    let cram = take(2) == 1;
    let (inline, defaults) = if cram { (0, 0) } else { (take(3), take(3)) };
    // where the observed test case comes from: 0 the document itself, 1 a document given with -P, 2 a document
    // named by the front-matter `append:` of a (trivial) main document: the command-line layer applies to all of them
    let via = take(3);
    // a Markdown document run with --cram-compat: the FORMAT default becomes Cram's, the flag sets no layer of its own
    // (only with the observed test case in its own document: the one-script executor of Cram compatibility refuses
    // documents whose test cases differ in keep_crlf, "inconsistent configuration value", which is an error, not a precedence)
    let compat = take(2) == 1 && !cram && via == 0;
    let dir = tmproot.join(format!("crlf-{idx}"));
    let _ = std::fs::remove_dir_all(&dir);
    std::fs::create_dir_all(dir.join("tmp")).unwrap();
    let yb = |v: u8| if v == 1 { "true" } else { "false" };
    let mut doc = String::new();
    let p = if cram {
        doc.push_str("T\n  $ printf 'a\\r\\n'\n  never-matches\n");
        dir.join("doc.t")
    } else {
        if defaults != 0 {
            doc.push_str(&format!("---\ndefaults: {{keep_crlf: {}}}\n---\n\n", yb(defaults)));
        }
        doc.push_str(&format!("# T\n\n```scrut{}\n$ printf 'a\\r\\n'\nnever-matches\n```\n", if inline != 0 { format!(" {{keep_crlf: {}}}", yb(inline)) } else { String::new() }));
        dir.join("doc.md")
    };
    std::fs::write(&p, doc).unwrap();
    let mut cmd = std::process::Command::new(scrut_bin());
    cmd.arg("test").arg("-r").arg("json");
    if compat {
        cmd.arg("--cram-compat");
    }
    if cli == 1 {
        cmd.arg("--keep-output-crlf");
    } else if cli == 2 {
        cmd.arg("--no-keep-output-crlf");
    }
    // the main document when the observed one is prepended / appended: one passing test of the same format
    let main = dir.join(if cram { "main.t" } else { "main.md" });
    let trivial = if cram { "M\n  $ echo main\n  main\n".to_string() } else { "# M\n\n```scrut\n$ echo main\nmain\n```\n".to_string() };
    let observed_index = match via {
        1 => {
            std::fs::write(&main, &trivial).unwrap();
            cmd.arg("-P").arg(&p).arg("--").arg(&main);
            0
        }
        2 if !cram => {
            // the main document has defaults of its own, the opposite of what the observed test case must see: they are
            // not a layer of the appended document's test cases
            std::fs::write(&main, format!("---\nappend: [{}]\ndefaults: {{keep_crlf: {}}}\n---\n\n{trivial}", p.file_name().unwrap().to_string_lossy(), !want_keep_of(cli, inline, defaults, cram))).unwrap();
            cmd.arg(&main);
            1
        }
        _ => {
            cmd.arg(&p);
            0
        }
    };
    let out = cmd.current_dir(&dir).env("TMPDIR", dir.join("tmp")).output().expect("run scrut");
    let stdout = String::from_utf8_lossy(&out.stdout).to_string();
    let json: Option<serde_json::Value> = stdout.find('[').and_then(|p| serde_json::from_str(&stdout[p..]).ok());
    let mut fails = vec![];
    // the recorded stdout of the only test case
    let recorded = json.as_ref().and_then(|j| j.pointer(&format!("/{observed_index}/output/stdout")).and_then(|v| v.as_str()).map(|s| s.to_string()));
    let want_keep = match (cli, inline, defaults) {
        (1, _, _) => true,
        (2, _, _) => false,
        (0, 1, _) => true,
        (0, 2, _) => false,
        (0, 0, 1) => true,
        (0, 0, 2) => false,
        _ => cram || compat, // format default
    };
    let observed = match recorded.as_deref() {
        Some("a\r\n") => "1",
        Some("a\n") => "2",
        _ => "?",
    };
    if observed == "?" {
        fails.push(("C16:e2e-no-json".into(), format!("exit {:?}, recorded stdout {:?}: {}", out.status.code(), recorded, String::from_utf8_lossy(&out.stderr).chars().take(300).collect::<String>())));
    } else if (observed == "1") != want_keep {
        fails.push(("C16:keep-crlf-precedence-e2e".into(), format!("recorded {:?}: keep_crlf in effect is {}, expected {} (cli={cli} inline={inline} defaults={defaults} format={} via={})", recorded, observed == "1", want_keep, if cram { "cram" } else if compat { "markdown under --cram-compat" } else { "markdown" }, ["own document", "-P", "front-matter append"][via as usize])));
    }
    let _ = std::fs::remove_dir_all(&dir);
    // model: slot 1 = keep_crlf (1 true, 2 false); format default: Markdown false, Cram true
    let mk = |v: u8| {
        let mut a = A::default();
        a.s[1] = v;
        a
    };
    let mut fmt = A::default();
    fmt.s[1] = if cram || compat { 1 } else { 2 };
    fmt.s[2] = if cram || compat { 3 } else { 1 };
    CaseRec {
        // the command-line layer is computed by the model from the flags given (`cliLayer`)
        op: format!("effectiveflags 00{}{} {} {} {} - case=crlf.{idx}", (cli == 2) as u8, (cli == 1) as u8, mk(inline).field(), mk(defaults).field(), fmt.field()),
        impl_out: format!("-,{},{},-,-,-,-,-", observed, if cram || compat { "3" } else { "1" }),
        oracle_fail: keep(prop, fails),
        nontrivial: true,
        tags: vec!["e2e-crlf".into(), format!("e2e-crlf:format={}", if cram { "cram" } else { "md" }), format!("e2e-crlf:via={via}"), format!("e2e-crlf:compat={compat}")],
    }
}

/// `output_stream` end to end: command line (unset / --combine-output / --no-combine-output) x --cram-compat x inline
/// x document defaults, each of the latter two in {unset, stdout, stderr, combined}. Three test cases with the same
/// configuration tell which stream was validated: expectation `out`, `err`, `out` + `err`.
fn e2e_stream_case(prop: &str, idx: u64, tmproot: &std::path::Path) -> CaseRec {
    let mut r = idx;
    let mut take = |n: u64| {
        let v = r % n;
        r /= n;
        v as u8
    };
    // command line: 0 unset, 3 --combine-output, 1 --no-combine-output (= stdout)
    let cli = [0u8, 3, 1][take(3) as usize];
    let compat = take(2) == 1;
    let inline = take(4);
    let defaults = take(4);
    let dir = tmproot.join(format!("stream-{idx}"));
    let _ = std::fs::remove_dir_all(&dir);
    std::fs::create_dir_all(dir.join("tmp")).unwrap();
    let name = |v: u8| ["", "stdout", "stderr", "combined"][v as usize];
    let mut doc = String::new();
    if defaults != 0 {
        doc.push_str(&format!("---\ndefaults: {{output_stream: {}}}\n---\n\n", name(defaults)));
    }
    let cfg = if inline != 0 { format!(" {{output_stream: {}}}", name(inline)) } else { String::new() };
    for (t, exp) in [("A", "out\n"), ("B", "err\n"), ("C", "out\nerr\n")] {
        doc.push_str(&format!("# {t}\n\n```scrut{cfg}\n$ echo out; echo err >&2\n{exp}```\n\n"));
    }
    let p = dir.join("doc.md");
    std::fs::write(&p, doc).unwrap();
    let mut cmd = std::process::Command::new(scrut_bin());
    cmd.arg("test").arg("-r").arg("json");
    if compat {
        cmd.arg("--cram-compat");
    }
    match cli {
        3 => { cmd.arg("--combine-output"); }
        1 => { cmd.arg("--no-combine-output"); }
        _ => {}
    }
    let out = cmd.arg(&p).current_dir(&dir).env("TMPDIR", dir.join("tmp")).output().expect("run scrut");
    let stdout = String::from_utf8_lossy(&out.stdout).to_string();
    let json: Option<serde_json::Value> = stdout.find('[').and_then(|p| serde_json::from_str(&stdout[p..]).ok());
    let kinds: Vec<String> = (0..3).map(|i| json.as_ref().and_then(|j| j.pointer(&format!("/{i}/result/kind")).and_then(|v| v.as_str()).map(|s| s.to_string())).unwrap_or("?".into())).collect();
    let observed = match kinds.iter().map(|k| k.as_str()).collect::<Vec<_>>().as_slice() {
        ["success", "malformed_output", "malformed_output"] => 1u8,
        ["malformed_output", "success", "malformed_output"] => 2,
        ["malformed_output", "malformed_output", "success"] => 3,
        _ => 0,
    };
    let want = [cli, inline, defaults].into_iter().find(|v| *v != 0).unwrap_or(if compat { 3 } else { 1 });
    let mut fails = vec![];
    if observed == 0 {
        fails.push(("C16:e2e-no-json".into(), format!("exit {:?}, kinds {:?}: {}", out.status.code(), kinds, String::from_utf8_lossy(&out.stderr).chars().take(300).collect::<String>())));
    } else if observed != want {
        fails.push(("C16:output-stream-precedence-e2e".into(), format!("the stream validated is {}, expected {} (command line={} inline={} defaults={} format default={})", name(observed), name(want), ["unset", "--no-combine-output", "", "--combine-output"][cli as usize], name(inline), name(defaults), if compat { "combined (--cram-compat)" } else { "stdout" })));
    }
    let _ = std::fs::remove_dir_all(&dir);
    let mk = |v: u8| {
        let mut a = A::default();
        a.s[2] = v;
        a
    };
    let mut fmt = A::default();
    fmt.s[1] = if compat { 1 } else { 2 };
    fmt.s[2] = if compat { 3 } else { 1 };
    CaseRec {
        op: format!("effectiveflags {}{}00 {} {} {} - case=stream.{idx}", (cli == 1) as u8, (cli == 3) as u8, mk(inline).field(), mk(defaults).field(), fmt.field()),
        impl_out: format!("-,{},{},-,-,-,-,-", if compat { "1" } else { "2" }, observed),
        oracle_fail: keep(prop, fails),
        nontrivial: true,
        tags: vec!["e2e-stream".into(), format!("e2e-stream:compat={compat}"), format!("e2e-stream:cli={cli}")],
    }
}

/// `strip_ansi_escaping` end to end: --cram-compat (single-script executor, which has to carry the key into the
/// configuration of the one script) x inline x document defaults, each in {unset, true, false}. Two test cases with
/// the same configuration print `ESC [ 1 m foo ESC [ 0 m` resp. `ESC [ 31 m bar ESC [ m`; the expectations are the
/// lines without the sequences: both succeed iff the key is in effect with `true`.
fn e2e_strip_case(prop: &str, idx: u64, tmproot: &std::path::Path) -> CaseRec {
    let mut r = idx;
    let mut take = |n: u64| {
        let v = r % n;
        r /= n;
        v as u8
    };
    let compat = take(2) == 1;
    let inline = take(3);
    let defaults = take(3);
    let dir = tmproot.join(format!("strip-{idx}"));
    let _ = std::fs::remove_dir_all(&dir);
    std::fs::create_dir_all(dir.join("tmp")).unwrap();
    let name = |v: u8| ["", "true", "false"][v as usize];
    let mut doc = String::new();
    if defaults != 0 {
        doc.push_str(&format!("---\ndefaults: {{strip_ansi_escaping: {}}}\n---\n\n", name(defaults)));
    }
    let cfg = if inline != 0 { format!(" {{strip_ansi_escaping: {}}}", name(inline)) } else { String::new() };
    for (t, cmd, exp) in [("A", "printf '\\033[1mfoo\\033[0m\\n'", "foo\n"), ("B", "printf '\\033[31mbar\\033[m\\n'", "bar\n")] {
        doc.push_str(&format!("# {t}\n\n```scrut{cfg}\n$ {cmd}\n{exp}```\n\n"));
    }
    let p = dir.join("doc.md");
    std::fs::write(&p, &doc).unwrap();
    let mut cmd = std::process::Command::new(scrut_bin());
    cmd.arg("test").arg("-r").arg("json");
    if compat {
        cmd.arg("--cram-compat");
    }
    let out = cmd.arg(&p).current_dir(&dir).env("TMPDIR", dir.join("tmp")).output().expect("run scrut");
    let stdout = String::from_utf8_lossy(&out.stdout).to_string();
    let json: Option<serde_json::Value> = stdout.find('[').and_then(|p| serde_json::from_str(&stdout[p..]).ok());
    let kinds: Vec<String> = (0..2).map(|i| json.as_ref().and_then(|j| j.pointer(&format!("/{i}/result/kind")).and_then(|v| v.as_str()).map(|s| s.to_string())).unwrap_or("?".into())).collect();
    // 1 = the sequences were removed, 2 = they were not
    let observed = match kinds.iter().map(|k| k.as_str()).collect::<Vec<_>>().as_slice() {
        ["success", "success"] => 1u8,
        ["malformed_output", "malformed_output"] => 2,
        _ => 0,
    };
    let want_true = [inline, defaults].into_iter().find(|v| *v != 0) == Some(1);
    let layers = format!("inline={} defaults={} format default=unset{}", if inline == 0 { "unset" } else { name(inline) }, if defaults == 0 { "unset" } else { name(defaults) }, if compat { ", --cram-compat (single-script executor)" } else { "" });
    let mut fails = vec![];
    if observed == 0 {
        fails.push(("C16:e2e-strip-no-verdict".into(), format!("document {doc:?} ({layers}): exit {:?}, kinds {:?}: {}", out.status.code(), kinds, String::from_utf8_lossy(&out.stderr).chars().take(300).collect::<String>())));
    } else if (observed == 1) != want_true {
        let class = if compat && want_true { "C16:script-strip-ansi-dropped" } else { "C16:strip-ansi-precedence-e2e" };
        fails.push((class.into(), format!("document {doc:?}: the ANSI escape sequences were {}, the value in effect for strip_ansi_escaping is {} ({layers})", if observed == 1 { "removed" } else { "NOT removed" }, want_true)));
    }
    let _ = std::fs::remove_dir_all(&dir);
    let mk = |v: u8| {
        let mut a = A::default();
        a.s[4] = v;
        a
    };
    let mut fmt = A::default();
    fmt.s[1] = if compat { 1 } else { 2 };
    fmt.s[2] = if compat { 3 } else { 1 };
    let shown = match observed {
        1 => "1",
        2 if inline == 0 && defaults == 0 => "-",
        2 => "2",
        _ => "?",
    };
    CaseRec {
        op: format!("effectiveflags 0000 {} {} {} - case=strip.{idx}", mk(inline).field(), mk(defaults).field(), fmt.field()),
        impl_out: format!("-,{},{},-,{shown},-,-,-", if compat { "1" } else { "2" }, if compat { "3" } else { "1" }),
        oracle_fail: keep(prop, fails),
        nontrivial: true,
        tags: vec!["e2e-strip".into(), format!("e2e-strip:compat={compat}"), format!("e2e-strip:in-effect={want_true}"), format!("e2e-strip:inline={inline},defaults={defaults}")],
    }
}

/// the configured environment across the test cases of one document: the value a test case sees for a variable is
/// the one of the highest layer that sets it for THAT test case (inline, then the document's defaults); only when
/// no layer sets it, it is what the earlier test cases left in the shell (C12). An earlier test case's configured or
/// assigned value must not win over the configuration of a later one.
/// idx: defaults (2) x inline of test 1 (3) x what test 1 does to the variable (4) x inline of test 2 (3)
fn e2e_env_sequence_case(prop: &str, idx: u64, tmproot: &std::path::Path) -> CaseRec {
    let mut r = idx;
    let mut take = |n: u64| {
        let v = r % n;
        r /= n;
        v as usize
    };
    let defaults = [None, Some("from-defaults")][take(2)];
    let inline1 = [None, Some("one"), Some("two words $x 'q'")][take(3)];
    let action = ["true", "SEQ_V=assigned", "export SEQ_V=exported", "unset SEQ_V"][take(4)];
    let inline2 = [None, Some("one"), Some("other")][take(3)];
    let dir = tmproot.join(format!("envseq-{idx}"));
    let _ = std::fs::remove_dir_all(&dir);
    std::fs::create_dir_all(dir.join("tmp")).unwrap();
    let q = |v: &str| serde_json::to_string(v).unwrap();
    let cfg = |v: Option<&str>| v.map(|v| format!(" {{environment: {{SEQ_V: {}}}}}", q(v))).unwrap_or_default();
    let mut doc = String::new();
    if let Some(d) = defaults {
        doc.push_str(&format!("---\ndefaults:\n  environment:\n    SEQ_V: {}\n---\n\n", q(d)));
    }
    let probe = "printf 'V=%s\\n' \"${SEQ_V-unset}\"";
    doc.push_str(&format!("# t1\n\n```scrut{}\n$ {probe}; {action}\nnever-matches\n```\n\n# t2\n\n```scrut{}\n$ {probe}\nnever-matches\n```\n", cfg(inline1), cfg(inline2)));
    let p = dir.join("doc.md");
    std::fs::write(&p, &doc).unwrap();
    let out = std::process::Command::new(scrut_bin()).arg("test").arg("-r").arg("json").arg(&p).current_dir(&dir).env("TMPDIR", dir.join("tmp")).env_remove("SEQ_V").output().expect("run scrut");
    let stdout = String::from_utf8_lossy(&out.stdout).to_string();
    let json: Option<serde_json::Value> = stdout.find('[').and_then(|p| serde_json::from_str(&stdout[p..]).ok());
    let seen: Vec<Option<String>> = (0..2).map(|i| json.as_ref().and_then(|j| j.pointer(&format!("/{i}/output/stdout")).and_then(|v| v.as_str()).map(|s| s.trim_end_matches('\n').to_string()))).collect();
    // what the property says
    let c1 = inline1.or(defaults);
    let after1: Option<String> = match action {
        "SEQ_V=assigned" => Some("assigned".into()),
        "export SEQ_V=exported" => Some("exported".into()),
        "unset SEQ_V" => None,
        _ => c1.map(|s| s.to_string()),
    };
    let c2 = inline2.or(defaults);
    let want1 = format!("V={}", c1.unwrap_or("unset"));
    let want2 = format!("V={}", c2.map(|s| s.to_string()).or(after1).unwrap_or("unset".into()));
    let mut fails = vec![];
    if seen[0].as_deref() != Some(&want1) || seen[1].as_deref() != Some(&want2) {
        fails.push(("C16:environment-sequence-e2e".to_string(), format!("document {:?}: the test cases see {:?}, expected [{want1:?}, {want2:?}] (exit {:?})", doc, seen, out.status.code())));
    }
    let _ = std::fs::remove_dir_all(&dir);
    CaseRec {
        op: format!("oracle-only envseq case=envseq.{idx}"),
        impl_out: "oracle-only".into(),
        oracle_fail: keep(prop, fails),
        nontrivial: true,
        tags: vec!["e2e-envseq".into(), format!("e2e-envseq:configured-second={}", c2.is_some()), format!("e2e-envseq:action={action}")],
    }
}

pub fn run(ctx: &Ctx, prop: &str) {
    let seed = ctx.seed;
    // 1. one scalar key at a time: {unset, A, B}^4 over the four layers, for each of the 7 keys
    ctx.run_stream("scalar-layers-exhaustive", 7 * 81, true, |idx| {
        let key = (idx / 81) as usize;
        let mut r = idx % 81;
        let mut l = [0u8; 4];
        for x in l.iter_mut() {
            *x = (r % 3) as u8;
            r /= 3;
        }
        let mk = |v: u8| {
            let mut a = A::default();
            a.s[key] = v;
            a
        };
        Some(effective_case(prop, mk(l[0]), mk(l[1]), mk(l[2]), mk(l[3]), vec![], "scalar"))
    });
    // 2. environment maps over three variable names: every subset per layer (inline, defaults, scrut) with distinct values
    ctx.run_stream("env-overlap-exhaustive", 8 * 8 * 8, true, |idx| {
        let sub = |bits: u64, base: u8| (0..3u8).filter(|k| bits >> k & 1 == 1).map(|k| (k + 1, base + k)).collect::<Vec<_>>();
        let inl = A { s: [0; 7], env: sub(idx % 8, 10) };
        let dd = A { s: [0; 7], env: sub(idx / 8 % 8, 20) };
        let se = sub(idx / 64 % 8, 30);
        Some(effective_case(prop, A::default(), inl, dd, A::default(), se, "env"))
    });
    // 3. random full configs through the whole pipeline
    let n = if ctx.thorough { 200_000 } else { 10_000 };
    ctx.run_stream("effective-random", n, false, |idx| {
        let mut rng = Rng::fork(seed, 21, idx);
        let mut cli = gen_a(&mut rng);
        cli.env.clear(); // the command line cannot bind variables
        let se = gen_env(&mut rng);
        Some(effective_case(prop, cli, gen_a(&mut rng), gen_a(&mut rng), gen_a(&mut rng), se, "random"))
    });
    // 4. associativity / empty layer / list accumulation on both structs (real functions vs model)
    ctx.run_stream("wd-assoc-random", n, false, |idx| {
        let mut rng = Rng::fork(seed, 22, idx);
        let (a, b, c) = (gen_a(&mut rng), gen_a(&mut rng), gen_a(&mut rng));
        let l = a.real().with_defaults_from(&b.real()).with_defaults_from(&c.real());
        let r = a.real().with_defaults_from(&b.real().with_defaults_from(&c.real()));
        let mut fails = vec![];
        if l != r {
            fails.push(("C16:not-associative".into(), format!("{} / {} / {}", a.field(), b.field(), c.field())));
        }
        if a.real().with_defaults_from(&TestCaseConfig::empty()) != a.real() || TestCaseConfig::empty().with_defaults_from(&a.real()) != a.real() {
            fails.push(("C16:empty-layer".into(), a.field()));
        }
        Some(CaseRec { op: format!("tcwd {} {} {}", a.field(), b.field(), c.field()), impl_out: format!("{} {}", show_real(&l), show_real(&r)), oracle_fail: keep(prop, fails), nontrivial: true, tags: vec!["assoc-tc".into()] })
    });
    ctx.run_stream("doc-wd-assoc-random", n / 2, false, |idx| {
        let mut rng = Rng::fork(seed, 23, idx);
        let (a, b, c) = (gen_d(&mut rng), gen_d(&mut rng), gen_d(&mut rng));
        let l = a.real().with_defaults_from(&b.real()).with_defaults_from(&c.real());
        let r = a.real().with_defaults_from(&b.real().with_defaults_from(&c.real()));
        let mut fails = vec![];
        if l != r {
            fails.push(("C16:doc-not-associative".into(), format!("{} / {} / {}", a.field(), b.field(), c.field())));
        }
        let ab = a.real().with_defaults_from(&b.real());
        let mut pre = a.real().prepend.clone();
        pre.extend(b.real().prepend.clone());
        let mut app = b.real().append.clone();
        app.extend(a.real().append.clone());
        if ab.prepend != pre || ab.append != app {
            fails.push(("C16:lists".into(), format!("{} / {}", a.field(), b.field())));
        }
        if a.real().with_defaults_from(&DocumentConfig::empty()) != a.real() || DocumentConfig::empty().with_defaults_from(&a.real()) != a.real() {
            fails.push(("C16:doc-empty-layer".into(), a.field()));
        }
        Some(CaseRec { op: format!("dcwd {} {} {}", a.field(), b.field(), c.field()), impl_out: format!("{} {}", show_real_doc(&l), show_real_doc(&r)), oracle_fail: keep(prop, fails), nontrivial: true, tags: vec!["assoc-doc".into()] })
    });
    // 5. end-to-end glue: what a test really sees (2*2*3*3*3 = 108 runs of the binary)
    let tmproot = std::env::temp_dir().join(format!("scrut-verif-cfg-{}", std::process::id()));
    std::fs::create_dir_all(&tmproot).unwrap();
    let tr = tmproot.clone();
    ctx.run_stream("e2e-effective-exhaustive", 108, true, |idx| Some(e2e_case(prop, idx, &tr)));
    // 6. keep_crlf from all four layers: cli x format x (inline x defaults for Markdown) x origin of the test case (own / -P / front-matter append) = 3 * 2 * 9 * 3 indices (Cram ignores inline and defaults)
    let tr = tmproot.clone();
    ctx.run_stream("e2e-keep-crlf-exhaustive", 54 * 3 * 2, true, |idx| Some(e2e_crlf_case(prop, idx, &tr)));
    let tr = tmproot.clone();
    ctx.run_stream("e2e-environment-sequence-exhaustive", 2 * 3 * 4 * 3, true, |idx| Some(e2e_env_sequence_case(prop, idx, &tr)));
    let tr = tmproot.clone();
    ctx.run_stream("e2e-output-stream-exhaustive", 3 * 2 * 4 * 4, true, |idx| Some(e2e_stream_case(prop, idx, &tr)));
    // strip_ansi_escaping: --cram-compat x inline x defaults
    let tr = tmproot.clone();
    ctx.run_stream("e2e-strip-ansi-exhaustive", 2 * 3 * 3, true, |idx| Some(e2e_strip_case(prop, idx, &tr)));
    let _ = std::fs::remove_dir_all(&tmproot);
}

pub fn replay(_prop: &str, op: &str) -> bool {
    let parts: Vec<&str> = op.split_whitespace().collect();
    let pa = |s: &str| -> A {
        let f: Vec<&str> = s.split(',').collect();
        let mut a = A::default();
        for i in 0..7 {
            a.s[i] = f[i].parse().unwrap_or(0);
        }
        if f[7] != "-" {
            a.env = f[7].split('/').map(|kv| { let mut x = kv.split('='); (x.next().unwrap().parse().unwrap(), x.next().unwrap().parse().unwrap()) }).collect();
        }
        a
    };
    if parts.first() == Some(&"effectiveflags") || parts.first() == Some(&"oracle-only") {
        // end-to-end cases are regenerated from their index
        let tmproot = std::env::temp_dir().join(format!("scrut-verif-cfg-replay-{}", std::process::id()));
        std::fs::create_dir_all(&tmproot).unwrap();
        let tag = parts.last().and_then(|l| l.strip_prefix("case=")).unwrap_or("");
        let c = match tag.split_once('.') {
            Some(("crlf", i)) => e2e_crlf_case("C16", i.parse().unwrap_or(0), &tmproot),
            Some(("stream", i)) => e2e_stream_case("C16", i.parse().unwrap_or(0), &tmproot),
            Some(("strip", i)) => e2e_strip_case("C16", i.parse().unwrap_or(0), &tmproot),
            Some(("envseq", i)) => e2e_env_sequence_case("C16", i.parse().unwrap_or(0), &tmproot),
            _ => return false,
        };
        let _ = std::fs::remove_dir_all(&tmproot);
        println!("impl: {}", c.impl_out);
        for (cl, d) in &c.oracle_fail {
            println!("oracle-failure {cl}: {d}");
        }
        return c.oracle_fail.is_empty();
    }
    if parts.first() == Some(&"effective") && parts.len() == 6 {
        let se: Vec<(u8, u8)> = if parts[5] == "-" { vec![] } else { parts[5].split('/').map(|kv| { let mut x = kv.split('='); (x.next().unwrap().parse().unwrap(), x.next().unwrap().parse().unwrap()) }).collect() };
        let c = effective_case("C16", pa(parts[1]), pa(parts[2]), pa(parts[3]), pa(parts[4]), se, "replay");
        println!("impl: {}", c.impl_out);
        for (cl, d) in &c.oracle_fail {
            println!("oracle-failure {cl}: {d}");
        }
        return c.oracle_fail.is_empty();
    }
    eprintln!("unsupported replay op");
    false
}
