mod common;
mod matcher;
mod exec;
mod config;
mod envdir;
mod shellstate;
mod markdown;
mod yamlcfg;
mod capture;
mod render;
mod cram;
mod escaping;
mod rules;
mod grammar;
mod generate;
mod cli;
mod testrun;
mod updaterun;
mod testrun_script;
mod hunt;

use common::*;
use std::sync::Mutex;

fn main() {
    let args: Vec<String> = std::env::args().collect();
    let mut prop = String::new();
    let mut tier = "quick".to_string();
    let mut seed = 1u64;
    let mut out = String::new();
    let mut driver = "/verif/lean/.lake/build/bin/driver".to_string();
    let mut replay: Option<String> = None;
    let mut i = 1;
    while i < args.len() {
        match args[i].as_str() {
            "--tier" => { tier = args[i + 1].clone(); i += 1; }
            "--seed" => { seed = args[i + 1].parse().unwrap_or(1); i += 1; }
            "--out" => { out = args[i + 1].clone(); i += 1; }
            "--driver" => { driver = args[i + 1].clone(); i += 1; }
            "--replay" => { replay = Some(args[i + 1].clone()); i += 1; }
            p => prop = p.to_string(),
        }
        i += 1;
    }
    // panics inside scrut are caught per case; keep stderr quiet
    std::panic::set_hook(Box::new(|_| {}));
    if let Some(r) = replay {
        if hunt::is_hunt_op(&r) {
            std::process::exit(if hunt::replay(&prop, &r) { 0 } else { 1 });
        }
        let ok = match prop.as_str() {
            "C01" | "C02" | "C03" => matcher::replay(&r),
            // C05 / C20 have a second harness module: the integrated end-to-end stream of testrun.rs (op `testdoc`)
            "C05" | "C20" | "C07" if testrun_script::is_script_op(&r) => testrun_script::replay(&prop, &r),
            "C05" | "C20" if testrun::is_testdoc_op(&r) => testrun::replay(&prop, &r),
            "C05" | "C14" | "C15" | "C20" => exec::replay(&prop, &r),
            "C16" if testrun_script::is_script_op(&r) => testrun_script::replay(&prop, &r),
            "C16" => config::replay(&prop, &r),
            "C18" => envdir::replay(&prop, &r),
            "C12" => shellstate::replay(&prop, &r),
            "C06" => markdown::replay(&prop, &r),
            "C17" => yamlcfg::replay(&prop, &r),
            "C13" => capture::replay(&prop, &r),
            "C19" => render::replay(&prop, &r),
            "C07" => cram::replay(&prop, &r),
            "C08" => grammar::replay(&prop, &r),
            // three harness modules: the ops of updaterun.rs (`upddoc`) and the end-to-end ops of cli.rs are recognised by their shape
            "C09" | "C10" => if updaterun::is_upddoc_op(&r) { updaterun::replay(&prop, &r) } else if cli::is_cli_op(&r) { cli::replay(&prop, &r) } else { generate::replay(&prop, &r) },
            "C11" => escaping::replay(&prop, &r),
            "C04" => {
                // the property has two harness modules: dispatch on the op name
                if matches!(r.split_whitespace().next(), Some("esc" | "unesc" | "utf8" | "rulem")) { escaping::replay(&prop, &r) } else { rules::replay(&prop, &r) }
            }
            _ => { eprintln!("no replay for {prop}"); false }
        };
        std::process::exit(if ok { 0 } else { 1 });
    }
    let threads = std::thread::available_parallelism().map(|n| n.get()).unwrap_or(4);
    let ctx = Ctx { driver, threads, seed, thorough: tier == "thorough", report: Mutex::new(Report::default()) };
    match prop.as_str() {
        "C01" | "C02" | "C03" => matcher::run(&ctx, &prop),
        "C05" | "C20" => {
            // the pieces (validate table, scripted executor, binary on behaviours), then the integrated model of
            // `scrut test` on documents whose commands have known output
            exec::run(&ctx, &prop);
            testrun::run(&ctx, &prop);
            // ... and of the single-script path: Cram documents, Markdown documents under --cram-compat
            testrun_script::run(&ctx, &prop);
        }
        "C14" | "C15" => exec::run(&ctx, &prop),
        "C16" => {
            config::run(&ctx, &prop);
            // the single-script executor has to carry the key `strip_ansi_escaping` too (fix set_consistent!)
            testrun_script::run_strip(&ctx, &prop);
        }
        "C18" => envdir::run(&ctx, &prop),
        "C12" => shellstate::run(&ctx, &prop),
        "C06" => markdown::run(&ctx, &prop),
        "C17" => yamlcfg::run(&ctx, &prop),
        "C13" => capture::run(&ctx, &prop),
        "C19" => render::run(&ctx, &prop),
        "C07" => {
            cram::run(&ctx, &prop);
            // how the BINARY reads `doc.t` (file_parser.rs: CramParser with indentation 2 and the Cram maker): the
            // integrated model stream on Cram documents, with the parse-level oracles (classes `C07:testcram-…`)
            testrun_script::run(&ctx, &prop);
        }
        "C08" => grammar::run(&ctx, &prop),
        "C09" | "C10" => {
            // library generators vs the Lean model in-process, then the command-line glue (create.rs, update.rs) end to end
            generate::run(&ctx, &prop);
            cli::run(&ctx, &prop);
            // the integrated model of `scrut update` on documents whose commands have known output
            updaterun::run(&ctx, &prop);
        }
        "C11" => escaping::run(&ctx, &prop),
        "C04" => {
            // string kinds (equal, no-eol, escaped) and pattern kinds (glob, cram glob, regex)
            escaping::run(&ctx, &prop);
            rules::run(&ctx, &prop);
        }
        _ => { eprintln!("unknown property {prop}"); std::process::exit(2); }
    }
    // the corpus of violations that were demonstrated on the real binary (regression cases and open findings)
    hunt::run(&ctx, &prop);
    let rep = ctx.report.lock().unwrap();
    let js = serde_json::to_string_pretty(&*rep).unwrap();
    if out.is_empty() { println!("{js}"); } else { std::fs::write(&out, js).expect("write report"); }
}
