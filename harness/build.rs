//! Makes the sources of the BINARY crate of scrut that the harness compiles in (`#[path]` modules:
//! src/bin/utils/namer.rs, src/bin/utils/environment.rs) follow the repository this harness is
//! built against: the `path` of the `scrut` dependency in Cargo.toml (`/repo`, or the scratch copy
//! that mkworkspace.sh writes there). The generated file is `include!`d by src/envdir.rs.
use std::path::PathBuf;

fn main() {
    let manifest = PathBuf::from(std::env::var("CARGO_MANIFEST_DIR").unwrap()).join("Cargo.toml");
    println!("cargo:rerun-if-changed={}", manifest.display());
    let text = std::fs::read_to_string(&manifest).expect("read Cargo.toml");
    let repo = text
        .lines()
        .find(|l| l.trim_start().starts_with("scrut") && l.contains("path"))
        .and_then(|l| l.split("path").nth(1))
        .and_then(|r| r.split('"').nth(1))
        .expect("scrut = { path = \"...\" } in Cargo.toml")
        .to_string();
    let utils = PathBuf::from(&repo).join("src/bin/utils");
    let namer = utils.join("namer.rs");
    let environment = utils.join("environment.rs");
    for f in [&namer, &environment] {
        println!("cargo:rerun-if-changed={}", f.display());
    }
    let out = PathBuf::from(std::env::var("OUT_DIR").unwrap()).join("binutils.rs");
    let code = format!(
        "#[allow(dead_code, unused_imports)]\npub mod binutils {{\n    #[path = {:?}]\n    pub mod namer;\n    #[path = {:?}]\n    pub mod environment;\n}}\n",
        namer.display().to_string(),
        environment.display().to_string()
    );
    std::fs::write(out, code).expect("write binutils.rs");
}
